"""C10 symmetries and decompositions (structural clauses)."""
from __future__ import annotations

import ast

from ..model import (AnalysisError, U, Defs, calls_in, call_name, walk_fn, kwarg, enclosing, enclosing_stmt, short)
from ..pathcond import conditions
from . import common

EXPLANATION = (
    "R10a: sign pairing: wherever a branch tests (A + B) for zero the symmetry factor recorded or "
    "assumed in that branch is -1, and +1 for (A - B): Term.symmetry, exploit_perm_sym, "
    "LazyTermMap.probe_symmetry, EriOrbenergy.denom_eri_sym, _compare_remainder. R10b: the "
    "partitions by_delta_types/by_delta_indices/by_tensor_block/by_tensor_target_block/"
    "by_tensor_target_indices add every term to exactly one ret[key] on every path (objects "
    "with exponent n contribute n labels); exploit_perm_sym adds a term unless it was removed, "
    "and a term is removed only when the simplified sum/difference with the permuted term is zero, "
    "together with recording (perms, factor); candidates are re-checked against removed_terms for "
    "every permutation. R10c: only the declared symmetry is probed (tensor built from the requested "
    "upper/lower split, bra-ket symmetry and class). R10d: probe_symmetry maps the permuted term's "
    "index onto the index of the unpermuted term it equals; permutation objects are canonical "
    "(Permutation sorts its two indices, products keep the order inside linked spaces).")
ASSUMPTIONS = [
    "completeness of Term.symmetry (that all permutations are enumerated) is not decided",
    "simplify is used as zero test (C07)",
]


def _zero_tests(fn):
    """(node, op, left, right, polarity_is_zero) for `X is S.Zero` tests of sums/differences,
    directly or through a local that is assigned `simplify(...)` of a sum/difference"""
    out = []
    for n in walk_fn(fn):
        if isinstance(n, ast.Compare) and len(n.ops) == 1 and isinstance(n.ops[0], (ast.Is, ast.IsNot)) \
                and U(n.comparators[0]) == "S.Zero":
            left = n.left
            if isinstance(left, ast.BinOp) and isinstance(left.op, (ast.Add, ast.Sub)):
                out.append((n, left))
    for a in walk_fn(fn):
        if isinstance(a, ast.Assign) and isinstance(a.value, ast.Call) and a.value.args:
            arg = a.value.args[0]
            if isinstance(arg, ast.BinOp) and isinstance(arg.op, (ast.Add, ast.Sub)) and "simplify" in U(a.value.func):
                out.append((a, arg))
    return out


def r10a(ctx):
    rule = "R10a"
    n_sites = 0
    # --- context driven sites
    for ref, ctxvar in (("sort_expr:exploit_perm_sym", "factor"), ("symmetry:LazyTermMap.probe_symmetry", "sym_factor")):
        fn = ctx.model.fn(ref)
        lab = ref.split(":")[1]
        for node, binop in _zero_tests(fn):
            conds = conditions(node)
            if (f"{ctxvar} == -1", True) in conds:
                want = ast.Add
            elif (f"{ctxvar} == 1", True) in conds or (f"{ctxvar} == -1", False) in conds:
                want = ast.Sub
            else:
                continue
            n_sites += 1
            ctx.check(rule, binop, isinstance(binop.op, want),
                      f"{lab}: factor {'-1' if want is ast.Add else '+1'} tested with `{'+' if want is ast.Add else '-'}`",
                      f"{lab}: under symmetry factor {'-1' if want is ast.Add else '+1'} the test uses `{short(binop, 60)}`; "
                      f"P X = {'-' if want is ast.Add else '+'}X' is equivalent to P X {'+' if want is ast.Add else '-'} X' = 0",
                      key=f"{lab} {'-1' if want is ast.Add else '+1'} {short(binop, 40)}")
    # --- value driven sites
    ts = ctx.model.fn("expr_container:Term.symmetry")
    for a in walk_fn(ts):
        if isinstance(a, ast.Assign) and U(a.targets[0]) == "symmetry[perms]":
            conds = conditions(a)
            plus = any(pol and t.replace(" ", "") == "original_term+permutedisS.Zero" for t, pol in conds)
            minus = any(pol and t.replace(" ", "") == "original_term-permutedisS.Zero" for t, pol in conds)
            v = U(a.value).replace("+", "")
            n_sites += 1
            ok = (plus and v == "-1") or (minus and not plus and v == "1")
            ctx.check(rule, a, ok, f"Term.symmetry: {'X + PX = 0 -> -1' if plus else 'X - PX = 0 -> +1'}",
                      f"Term.symmetry records factor {v} under the test {'X + PX = 0' if plus else 'X - PX = 0'}", key=f"Term.symmetry {v}")
    des = ctx.model.fn("eri_orbenergy:EriOrbenergy.denom_eri_sym")
    for a in walk_fn(des):
        if isinstance(a, ast.Assign) and U(a.targets[0]) == "ret[perms]" and U(a.value) != "None":
            conds = conditions(a)
            same = ("denom - perm_denom is S.Zero", True) in conds
            opp = ("denom + perm_denom is S.Zero", True) in conds
            v = U(a.value).replace(" ", "")
            n_sites += 1
            ok = (same and v == "factor") or (opp and not same and v in ("factor*-1", "-factor", "-1*factor"))
            ctx.check(rule, a, ok, f"denom_eri_sym: {'P D = D keeps' if same else 'P D = -D negates'} the ERI factor",
                      f"denom_eri_sym records `{v}` under {'D - PD = 0' if same else 'D + PD = 0' if opp else 'an unknown test'}",
                      key=f"denom_eri_sym {v}")
    cr = ctx.model.fn("factor_intermediates:_compare_remainder") if ctx.model.has_fn("factor_intermediates:_compare_remainder") else None
    if cr is not None:
        tests = [(n, b) for n, b in _zero_tests(cr)]
        for node, b in tests:
            n_sites += 1
            # difference form: equality of the two remainders <-> +1
            st = enclosing_stmt(node)
            ctx.check(rule, b, isinstance(b.op, ast.Sub), "_compare_remainder: equality tested with a difference",
                      f"_compare_remainder tests `{short(b, 60)}` for zero", key="_compare_remainder")
    ctx.floor(rule, "sign-pairing sites", n_sites, 9)


def _partition(ctx, rule, fnref, key_checks):
    fn = ctx.model.fn(fnref)
    lab = fnref.split(":")[1]
    lp = [n for n in walk_fn(fn) if isinstance(n, ast.For) and U(n.iter) == "expr.terms"]
    ctx.floor(rule, f"term loop in {lab}", len(lp), 1)
    lp = lp[0]
    t = U(lp.target)

    def is_event(n):
        return isinstance(n, ast.AugAssign) and isinstance(n.op, ast.Add) and U(n.target).startswith("ret[") and U(n.value) == t
    acc, drops = common.loop_conservation(ctx, rule, fn, lp, t, is_event=is_event)
    common.lost(ctx, rule, lp, t, drops)
    for text, what in key_checks:
        body = " ; ".join(U(s) for s in ast.walk(lp) if isinstance(s, ast.stmt))
        ctx.check(rule, lp, text in body, f"{lab}: {what}", f"{lab}: `{text}` not found ({what})", key=f"{lab} {what}")
    r = common.returns_of(fn)
    ctx.check(rule, fn, U(r[-1].value) == "ret", f"{lab}: all parts returned", f"{lab}: returns `{U(r[-1].value)}`", key=f"{lab} return")


def r10b(ctx):
    rule = "R10b"
    _partition(ctx, rule, "sort_expr:by_delta_types", [
        ("d_blocks.extend((block for _ in range(delta.exponent)))", "a delta with exponent n contributes n labels"),
        ("for delta in term.deltas:", "labels from all deltas of the term"),
        ("d_blocks = tuple(sorted(d_blocks))", "key independent of the object order"),
        ("block = f'{delta.space}_{spin}'", "spin part of the label"),
    ])
    _partition(ctx, rule, "sort_expr:by_delta_indices", [
        ("d_idx = tuple(sorted((''.join((str(s) for s in o.idx)) for o in term.deltas for _ in range(o.exponent))))",
         "index names of every delta, exponent-many times, sorted"),
    ])
    _partition(ctx, rule, "sort_expr:by_tensor_block", [
        ("t_blocks.extend((block for _ in range(tensor.exponent)))", "a tensor with exponent n contributes n labels"),
        ("if tensor.name != t_name:", "only the requested tensor"),
        ("t_blocks = tuple(sorted(t_blocks))", "key independent of the object order"),
    ])
    _partition(ctx, rule, "sort_expr:by_tensor_target_block", [
        ("tensor_target = [s for s in tensor.idx if s in target]", "target indices on the tensor"),
        ("key = tuple(sorted(key))", "key independent of the object order"),
        ("if tensor.name == t_name:", "only the requested tensor"),
    ])
    _partition(ctx, rule, "sort_expr:by_tensor_target_indices", [
        ("obj_target_idx = ''.join([s.name for s in obj.idx if s in target])", "names of the target indices on the tensor"),
        ("key = tuple(sorted(key))", "key independent of the object order"),
    ])
    ft = ctx.model.fn("simplify:filter_tensor")
    f = [a for a in common.assigns_to(ft, "filtered")]
    ctx.check(rule, ft, len(f) == 1 and U(f[0].value) == "Add(*[term.sympy for term in expr.terms if check_term(term)])",
              "filter_tensor keeps exactly the terms accepted by check_term", "filter_tensor term selection changed", key="filter_tensor")
    av = [a for a in walk_fn(ft) if isinstance(a, ast.Assign) and U(a.targets[0]) == "available" and isinstance(a.value, ast.ListComp)]
    ctx.check(rule, ft, any(U(a.value) == "[o.name for o in term.tensors for _ in range(o.exponent)]" for a in av),
              "tensor names counted with exponent multiplicity", "multiplicity in filter_tensor changed", key="filter multiplicity")
    # exploit_perm_sym
    fn = ctx.model.fn("sort_expr:exploit_perm_sym")
    adds = [n for n in walk_fn(fn, nested=False) if isinstance(n, ast.AugAssign) and U(n.target).startswith("ret[")]
    tab = sorted((U(n.target), U(n.value)) for n in adds)
    ctx.check(rule, fn, tab == [("ret[found_sym]", "term"), ("ret[tuple()]", "terms[term_idx_list[0]]")],
              "every surviving term added once (unique terms under the empty symmetry)", f"accumulations {tab}", key="exploit adds")
    main = [n for n in adds if U(n.target) == "ret[found_sym]"]
    if main:
        lp = enclosing(main[0], ast.For)
        ok = U(lp.iter) == "term_idx_list" and main[0]._parent is lp
        sk = [s for s in lp.body if isinstance(s, ast.If) and U(s.test) == "term_i in removed_terms" and isinstance(s.body[-1], ast.Continue)]
        ctx.check(rule, lp, ok and len(sk) == 1, "a term is dropped only if it was mapped onto another term",
                  "term loop of exploit_perm_sym drops terms under another condition", key="exploit drop")
    rm = [c for c in calls_in(fn, nested=False) if call_name(c) == "add" and U(c.func.value) == "removed_terms"]
    ctx.floor(rule, "removal sites in exploit_perm_sym", len(rm), 1)
    for c in rm:
        conds = conditions(c)
        ok = ("simplified.sympy is S.Zero", True) in conds
        ctx.check(rule, c, ok, "a term is removed only if the sum/difference with the permuted term simplifies to zero",
                  "removal not dominated by the zero test", key="exploit remove guard")
        blk = enclosing_stmt(c)._parent.body if hasattr(enclosing_stmt(c)._parent, "body") else []
        texts = [U(s) for s in blk]
        ctx.check(rule, c, "found_sym.append((perms, factor))" in texts and U(c.args[0]) == "other_term_i",
                  "removal recorded with the permutation and factor that reproduce the term",
                  "removal is not paired with recording (perms, factor)", key="exploit record")
    inner = [n for n in walk_fn(fn, nested=False) if isinstance(n, ast.For) and U(n.iter) == "term_idx_list"
             and U(n.target) == "other_term_i"]
    ok = len(inner) == 1 and isinstance(enclosing(inner[0], ast.For), ast.For) and U(enclosing(inner[0], ast.For).iter) == "symmetry.items()"
    if ok:
        first = inner[0].body[0]
        ok = isinstance(first, ast.If) and U(first.test) == "term_i == other_term_i or other_term_i in removed_terms" \
            and isinstance(first.body[-1], ast.Continue)
    ctx.check(rule, fn, ok, "candidates re-checked against removed_terms for every permutation",
              "the candidate terms are not re-checked against removed_terms inside the permutation loop: a term can be "
              "mapped (and removed) twice", key="exploit candidates")
    sk = [n for n in walk_fn(fn, nested=False) if isinstance(n, ast.Continue) and
          U(n._parent.test) == "perm_term.sympy is S.Zero and term.sympy is not S.Zero"]
    ctx.check(rule, fn, len(sk) == 1, "permutations that annihilate the term are skipped", "invalid-permutation guard changed", key="exploit invalid")
    pt = [a for a in walk_fn(fn, nested=False) if isinstance(a, ast.Assign) and U(a.targets[0]) == "perm_term"]
    ctx.check(rule, fn, len(pt) == 1 and U(pt[0].value) == "term.permute(*perms)", "the probed permutation is applied to the current term",
              "permuted term changed", key="exploit permute")
    z = [r for r in common.returns_of(fn, nested=False) if ("expr.sympy.is_number", True) in conditions(r)]
    ctx.check(rule, fn, len(z) == 1 and U(z[0].value) == "{tuple(): expr}", "numbers returned under the empty symmetry", "number shortcut changed",
              key="exploit number")


def r10c(ctx):
    rule = "R10c"
    fn = ctx.model.fn("sort_expr:exploit_perm_sym")
    tb = {}
    for a in walk_fn(fn, nested=False):
        if isinstance(a, ast.Assign) and U(a.targets[0]) == "tensor":
            tb["anti" if ("antisymmetric_result_tensor", True) in conditions(a) else "sym"] = U(a.value)
    ctx.check(rule, fn, tb == {"anti": "AntiSymmetricTensor('x', upper, lower, bra_ket_sym)", "sym": "SymmetricTensor('x', upper, lower, bra_ket_sym)"},
              "probe tensor carries the requested split, bra-ket symmetry and class", f"probe tensors {tb}", key="probe tensor")
    sy = [a for a in walk_fn(fn, nested=False) if isinstance(a, ast.Assign) and U(a.targets[0]) == "symmetry"]
    ctx.check(rule, fn, len(sy) == 1 and U(sy[0].value) == "e.Expr(tensor).terms[0].symmetry()", "candidate permutations = symmetry of that tensor",
              "symmetry source changed", key="symmetry source")
    ul = {}
    for a in walk_fn(fn, nested=False):
        if isinstance(a, ast.Assign) and U(a.targets[0]) == "(upper, lower)":
            cs = conditions(a)
            k = "none" if ("target_indices is None", True) in cs else "split" if ("',' in target_indices", True) in cs else "nosplit"
            ul[k] = U(a.value)
    ctx.check(rule, fn, ul == {"split": "target_indices.split(',')", "nosplit": "(target_indices, '')", "none": "(ref_target, tuple())"},
              "upper/lower from the separator; all upper without one", f"upper/lower sources {ul}", key="upper lower")
    bz = [a for a in walk_fn(fn, nested=False) if isinstance(a, ast.Assign) and U(a.targets[0]) == "bra_ket_sym"]
    ctx.check(rule, fn, len(bz) == 1 and U(bz[0].value) == "0" and ("target_indices is None", True) in conditions(bz[0]),
              "bra-ket symmetry ignored without explicit targets", "bra-ket handling changed", key="bks reset")
    ra = [n for n in walk_fn(fn, nested=False) if isinstance(n, ast.Raise) and ("bra_ket_sym", True) in conditions(n)]
    ctx.check(rule, fn, len(ra) == 1, "bra-ket symmetry requires a separator", "separator requirement removed", key="bks separator")
    sp = {U(a.targets[0]): U(a.value) for a in walk_fn(fn, nested=False) if isinstance(a, ast.Assign) and "spin" in U(a.targets[0])}
    ctx.check(rule, fn, sp.get("upper_spin") == "target_spin[:len(upper)]" and sp.get("lower_spin") == "target_spin[len(upper):]"
              and sp.get("(upper_spin, lower_spin)") in ("(None, None)", "target_spin.split(',')"), "spin split follows the index split",
              f"spin split {sp}", key="spin split")
    gs = {U(a.targets[0]): U(a.value) for a in walk_fn(fn, nested=False) if isinstance(a, ast.Assign) and call_name(a.value) == "get_symbols"}
    ctx.check(rule, fn, gs == {"upper": "get_symbols(upper, upper_spin)", "lower": "get_symbols(lower, lower_spin)"},
              "probe indices carry the requested spin", f"{gs}", key="probe indices")
    chk = [n for n in walk_fn(fn, nested=False) if isinstance(n, ast.Raise) and ("sorted_provided_target == ref_target", False) in conditions(n)]
    ctx.check(rule, fn, len(chk) == 1, "requested targets must be the targets of the expression", "target consistency check removed",
              key="target check")
    ev = ctx.model.fn("symmetry:LazyTermMap.evaluate")
    tb = {}
    for a in walk_fn(ev):
        if isinstance(a, ast.Assign) and U(a.targets[0]) == "tensor" and call_name(a.value) in ("AntiSymmetricTensor", "SymmetricTensor"):
            tb["anti" if ("antisymmetric_result_tensor", True) in conditions(a) else "sym"] = U(a.value)
    ctx.check(rule, ev, tb == {"anti": "AntiSymmetricTensor('x', tuple(), self.target_indices)", "sym": "SymmetricTensor('x', tuple(), self.target_indices)"},
              "term map probes the symmetry of the target indices", f"{tb}", key="evaluate tensor")
    os_ = ctx.model.fn("expr_container:Obj.symmetry")
    r = common.returns_of(os_)
    ctx.check(rule, os_, U(r[-1].value) == "new_expr.terms[0].symmetry(only_target=True)", "object symmetry = term symmetry of the chosen indices",
              "Obj.symmetry changed", key="obj symmetry")
    ts = ctx.model.fn("expr_container:Term.symmetry")
    sel = {}
    for a in walk_fn(ts, nested=False):
        if isinstance(a, ast.Assign) and U(a.targets[0]) == "indices":
            cs = conditions(a)
            k = "contracted" if ("only_contracted", True) in cs else "target" if ("only_target", True) in cs else "all"
            sel[k] = U(a.value)
    ctx.check(rule, ts, sel == {"contracted": "self.contracted", "target": "self.target", "all": "self.idx"},
              "index restriction honoured", f"index selection {sel}", key="restriction")
    sp = [n for n in walk_fn(ts, nested=False) if isinstance(n, ast.Assign) and U(n.targets[0]) == "key"] + \
         [n for n in walk_fn(ts, nested=False) if isinstance(n, ast.If) and "space_and_spin" in U(n.test)]
    ctx.check(rule, ts, any("s.space_and_spin" in U(n) for n in sp), "permutations only within one (space, spin)",
              "grouping of the indices changed", key="same space")
    pm = [a for a in walk_fn(ts, nested=False) if isinstance(a, ast.Assign) and U(a.targets[0]) == "permuted"]
    ctx.check(rule, ts, len(pm) == 1 and U(pm[0].value) == "self.permute(*perms).sympy", "reported permutation is the one applied",
              "permuted term changed", key="applied perm")


def r10d(ctx):
    rule = "R10d"
    fn = ctx.model.fn("symmetry:LazyTermMap.probe_symmetry")
    st = [a for a in walk_fn(fn, nested=False) if isinstance(a, ast.Assign) and U(a.targets[0]).startswith("map_contribution[")]
    ctx.floor(rule, "term-map stores", len(st), 1)
    for a in st:
        key, val = U(a.targets[0].slice), U(a.value)
        lp_in = enclosing(a, ast.For)
        lp_out = enclosing(lp_in, ast.For)
        ok = isinstance(lp_out.target, ast.Tuple) and U(lp_out.target.elts[0]) == key and U(lp_out.iter) == "relevant_terms"
        perm_var = U(lp_out.target.elts[1]) if ok else "?"
        sums = [n for n in walk_fn(lp_in) if isinstance(n, ast.BinOp) and isinstance(n.op, (ast.Add, ast.Sub))
                and perm_var in (U(n.left), U(n.right))]
        ok = ok and len(sums) == 2 and all(U(s.left) == perm_var and U(s.right) == f"self._terms[{val}]" for s in sums)
        ctx.check(rule, a, ok, f"map[{key}] = {val}: P term[{key}] equals term[{val}]",
                  f"the map stores {key} -> {val}, but the compared terms are not (P term[{key}], term[{val}]): the map belongs "
                  "to another (e.g. the inverse) permutation", key="map direction")
        ctx.check(rule, a, ("sum.sympy is S.Zero", True) in conditions(a), "stored only when the terms match", "store not dominated by the zero test",
                  key="map guard")
    rel = [c for c in calls_in(fn, nested=False) if call_name(c) == "append" and U(c.func.value) == "relevant_terms"]
    ctx.check(rule, fn, len(rel) == 2 and all(U(c.args[0]) == "(term_i, perm_term)" for c in rel), "permuted term kept with its own index",
              "pairing of index and permuted term changed", key="pairing")
    pt = [a for a in walk_fn(fn, nested=False) if isinstance(a, (ast.Assign, ast.AnnAssign)) and U(a.targets[0] if isinstance(a, ast.Assign) else a.target) == "perm_term"]
    ctx.check(rule, fn, len(pt) == 1 and U(pt[0].value) == "term.permute(*permutations)", "requested permutations applied", "permutation changed",
              key="permute")
    sr = [a for a in walk_fn(fn, nested=False) if isinstance(a, ast.Assign) and U(a.targets[0]) == "self._term_map[tuple(permutations), sym_factor]"]
    ctx.check(rule, fn, len(sr) == 1 and U(sr[0].value) == "map_contribution", "map stored under (permutations, factor)", "store key changed",
              key="store key")
    nt = [n for n in walk_fn(fn, nested=False) if isinstance(n, ast.Raise) and any("not in target_indices" in t or "in target_indices" in t
                                                                                   for t, _ in conditions(n))]
    ctx.check(rule, fn, len(nt) == 1, "permutations of non-target indices refused", "target check removed", key="targets only")
    pn = ctx.model.fn("symmetry:Permutation.__new__")
    body = [U(s) for s in pn.body]
    ctx.check(rule, pn, body == ["if sort_idx_canonical(p) < sort_idx_canonical(q):\n    args = (p, q)\nelse:\n    args = (q, p)",
                                 "return super().__new__(cls, args)"], "P_pq = P_qp (canonical order of the pair)", "Permutation.__new__ changed",
              key="perm canonical")
    pp = ctx.model.fn("symmetry:PermutationProduct.__new__")
    a = {U(x.targets[0]): U(x.value) for x in walk_fn(pp) if isinstance(x, ast.Assign)}
    ctx.check(rule, pp, a.get("splitted") == "cls.split_in_separable_parts(args)" and a.get("args") == "[val for _, val in sorted(splitted.items())]",
              "products sorted by separable space groups only (order inside a group kept)", "PermutationProduct ordering changed", key="product order")
    sp = ctx.model.fn("symmetry:PermutationProduct.split_in_separable_parts")
    ap = [c for c in calls_in(sp) if call_name(c) == "append" and U(c.func.value) == "ret[space]"]
    ctx.check(rule, sp, len(ap) == 1 and U(ap[0].args[0]) == "perm" and U(enclosing(ap[0], ast.For).iter) == "zip(permutations, perm_spaces)",
              "permutations appended in their original order", "order inside a group changed", key="group order")


def run(ctx):
    for r, f in (("R10a", r10a), ("R10b", r10b), ("R10c", r10c), ("R10d", r10d)):
        if ctx.want(r):
            f(ctx)
