"""
C18 defect 1: the raw result of the derivation API (wicks / GroundState.amplitude,
GroundState.expectation_value, ...) contains several DIFFERENT indices that are
all printed with the same name ('i' or 'a'), because the contraction of two
general indices creates an unregistered `Index('i')` / `Index('a')`.
The printed text is therefore ambiguous and importing it yields an expression
with a different value.

Run from the worktree root:  /venv/bin/python hunt_out/1/demo.py
exit code 1: defect present, 0: fixed
"""
import os
import sys
sys.path.insert(0, os.getcwd())
os.environ.setdefault("ADCGEN_LOG_LEVEL", "ERROR")

from sympy import S  # noqa E402
from sympy.physics.secondquant import F, Fd  # noqa E402
import adcgen  # noqa E402
from adcgen import (Expr, import_from_sympy_latex, wicks, simplify,  # noqa E402
                    Operators, GroundState)
from adcgen.indices import get_symbols  # noqa E402
from adcgen.sympy_objects import AntiSymmetricTensor, Amplitude  # noqa E402

print("using", adcgen.__file__)
failed = False


def roundtrip(expr: Expr) -> Expr:
    text = str(expr)
    imported = import_from_sympy_latex(text)
    return Expr(imported.sympy, **expr.assumptions)


# --- (a) minimal: Y^a_i * <0| d^p_q a^+_p a_q |0> = Y^a_i * sum_k d^k_k
p, q, i, a = get_symbols("pqia")
e = (Amplitude("Y", (a,), (i,)) * AntiSymmetricTensor("d", (p,), (q,))
     * Fd(p) * F(q))
res = Expr(wicks(e, simplify_kronecker_deltas=True))
imp = roundtrip(res)
print("(a) wicks result      :", res, "  target indices:", res.terms[0].target)
print("    printed + imported:", imp, "  target indices:", imp.terms[0].target)
if imp.sympy != res.sympy or imp.terms[0].target != res.terms[0].target:
    print("    -> DIFFERENT expression (trace of d became the element d_ii, "
          "i is no target index any more)")
    failed = True

# --- (b) first order MP singles amplitude (vanishes for a HF reference)
gs = GroundState(Operators("mp"), first_order_singles=False)
orig = Expr(gs.amplitude(1, "ph", "ia"), target_idx="ia").expand()
imp = roundtrip(orig)
print("(b) t1^(1) as derived :", orig)
print("    printed + imported:", imp)
orig_val = simplify(orig.copy().use_symbolic_denominators())
imp_val = simplify(imp.copy().use_symbolic_denominators())
print("    simplified original:", orig_val, "| simplified imported:", imp_val)
if str(imp) != str(orig):
    print("    -> printing the imported expression gives another text")
    failed = True
if orig_val.sympy is S.Zero and imp_val.sympy is not S.Zero:
    print("    -> the original vanishes, the imported expression does not")
    failed = True
if simplify(orig_val - imp_val).sympy is not S.Zero:
    failed = True

sys.exit(1 if failed else 0)
