"""
C12 demo: the registered MP amplitudes t2_2, t3_2, t1_3 and t2_3 differ from
the amplitudes derived from the explicitly computed perturbed wavefunction
(GroundState.mp_amplitude) as soon as the orbitals are not assumed to be real:
some ERI of the registered definitions have bra and ket interchanged
(<ij||kl> instead of <kl||ij>, ...), i.e. they are complex conjugated.

Run from the worktree root:  /venv/bin/python hunt_out/1/demo.py
exit 1: defect present, exit 0: fixed.
"""
import os
import sys
sys.path.insert(0, os.getcwd())

import sympy  # noqa E402
from adcgen import Operators, GroundState, Intermediates, Expr, simplify  # noqa E402

cases = [('t1_2', 2, 'ph', 'ia'), ('t2_2', 2, 'pphh', 'ijab'),
         ('t3_2', 2, 'ppphhh', 'ijkabc'), ('t1_3', 3, 'ph', 'ia')]
if '--fast' not in sys.argv:
    cases.append(('t2_3', 3, 'pphh', 'ijab'))


def strip_denom(x):
    # both expressions are  numerator / (orbital energy denominator)
    dens = {p for p in x.atoms(sympy.Pow) if p.exp == -1}
    num = sympy.expand(x.xreplace({d: sympy.S.One for d in dens}))
    return num, dens


gs = GroundState(Operators('mp'))
failed = False
for name, order, space, idx in cases:
    derived = gs.mp_amplitude(order, space, idx)
    itmd = Intermediates().available[name]
    registered = itmd.expand_itmd(indices=idx, fully_expand=False).sympy
    n1, d1 = strip_denom(derived)
    n2, d2 = strip_denom(registered)
    assert d1 == d2, (d1, d2)
    # NO real assumption: <pq||rs> and <rs||pq> are different quantities
    diff = simplify((Expr(n1, target_idx=idx) - n2).expand())
    # with the real assumption the two have to agree (and do)
    diff_real = simplify(
        (Expr(n1, target_idx=idx) - n2).expand().make_real()
    )
    assert diff_real.sympy == 0, f"{name}: real definitions differ as well"
    if diff.sympy != 0:
        failed = True
        print(f"{name}: registered definition != derived amplitude for "
              f"complex orbitals.\n   (derived - registered) * denominator = "
              f"{diff}\n")
    else:
        print(f"{name}: registered definition == derived amplitude")

# RE residuals vs. the derived residual of the RE Hamiltonian
gs_re = GroundState(Operators('re'))
for name, order, space, idx in [('t2_1_re_residual', 1, 'pphh', 'ijab'),
                                ('t1_2_re_residual', 2, 'ph', 'ia'),
                                ('t2_2_re_residual', 2, 'pphh', 'ijab')]:
    derived = gs_re.amplitude_residual(order, space, idx)
    itmd = Intermediates().available[name]
    registered = itmd.expand_itmd(indices=idx, fully_expand=False).sympy
    diff = simplify((Expr(derived, target_idx=idx) - registered).expand())
    diff_real = simplify(
        (Expr(derived, target_idx=idx) - registered).expand().make_real()
    )
    assert diff_real.sympy == 0, f"{name}: real definitions differ as well"
    if diff.sympy != 0:
        failed = True
        print(f"{name}: registered definition != derived residual for "
              f"complex orbitals.\n   derived - registered = {diff}\n")
    else:
        print(f"{name}: registered definition == derived residual")

sys.exit(1 if failed else 0)
