"""Binding of the tensor algebra (talg) to the abstract evaluator (symex).

The analysed functions are evaluated by ``Symex`` with the library's container
and tensor classes replaced by abstract records whose behaviour is the
*documented* behaviour of that vocabulary:

  Expr    mutable: ``+=``/``*=``/``permute``/``expand``/``subs`` change the record and return it, ``copy()`` is a new
          record; binary operators build new records and refuse operands with different assumptions (TypeError)
  Term    immutable view of one product; every operator / ``permute`` gives a new Expr
  Obj     immutable view of one factor
  sympy   immutable values (``x.sympy``, KroneckerDelta(..), Pow(..), tensor constructors, S.Zero/S.One/S.NegativeOne are
          singletons so that ``is`` works as in sympy)
  Index   one record per (name, spin)

Only the vocabulary used by remove_tensor / derivative is modelled; anything else is an AnalysisError (never a guess).
"""
from __future__ import annotations

import ast
from fractions import Fraction

from ..model import AnalysisError
from ..symex import Symex, Obj as Rec, Raised
from ..terms import T, is_num
from . import talg
from .talg import Poly, ModelError

CONTAINER = ("expr", "term", "obj")


class World:
    """One evaluation scenario: pools of records and a log of vocabulary effects."""

    def __init__(self, adc_names=("X", "Y"), minimize_mode="lowest"):
        self.adc_names = tuple(adc_names)
        self.minimize_mode = minimize_mode
        self.index_pool = {}
        self.sv_pool = {}
        self.effects = []
        self.n = 0
        self.S = Rec(None, "S", _kind="namespace")
        self.S.attrs.update(Zero=self.sv(Poly()), One=self.sv(Poly.num(1)), NegativeOne=self.sv(Poly.num(-1)),
                            Half=self.sv(Poly.num(Fraction(1, 2))))
        self.x_counter = 0

    # ------------------------------------------------------------ records
    def index(self, i):
        if i not in self.index_pool:
            name, spin = i
            sp = talg.space_of(name)
            r = Rec(None, f"Index({name}{'_' + spin if spin else ''})")
            r.attrs.update(_kind="index", _ix=i, name=name, spin=spin, space=sp, space_and_spin=(sp, spin), dummy_index=0,
                           _classes=["Index", "Dummy", "Symbol"])
            self.index_pool[i] = r
        return self.index_pool[i]

    def indices(self, ixs):
        return tuple(self.index(i) for i in ixs)

    def sv(self, p: Poly):
        """sympy-level value; equal values are the same record (structural equality of sympy objects; singletons)."""
        if p not in self.sv_pool:
            self.n += 1
            self.sv_pool[p] = Rec(None, f"sympy#{self.n}", _kind="sv", val=p, _classes=self._sv_classes(p))
        return self.sv_pool[p]

    @staticmethod
    def _sv_classes(p):
        if p.is_number():
            return ["Number", "Rational", "Basic", "Expr"]
        if len(p.t) > 1:
            return ["Add", "Basic"]
        (m, c), = p.t.items()
        if len(m) > 1 or c != 1:
            return ["Mul", "Basic"]
        (f, e), = m
        if e != 1:
            return ["Pow", "Basic"]
        base = ["Basic"]
        if f[0] == "P":
            return ["Add", "Basic"]
        if f[0] == "A":
            return {"AntiSymmetricTensor": ["AntiSymmetricTensor", "SymbolicTensor"],
                    "Amplitude": ["Amplitude", "AntiSymmetricTensor", "SymbolicTensor"],
                    "SymmetricTensor": ["SymmetricTensor", "AntiSymmetricTensor", "SymbolicTensor"]}[f[1]] + base
        if f[0] == "N":
            return ["NonSymmetricTensor", "SymbolicTensor"] + base
        if f[0] == "D":
            return ["KroneckerDelta", "Function"] + base
        return ["Symbol", "Dummy", "Index"] + base

    def expr(self, p, assume):
        self.n += 1
        return Rec(None, f"Expr#{self.n}", _kind="expr", val=p, assume=dict(assume), _classes=["Expr", "Container"])

    def term(self, p, assume):
        self.n += 1
        return Rec(None, f"Term#{self.n}", _kind="term", val=p, assume=dict(assume), _classes=["Term", "Container"])

    def obj(self, p, assume):
        self.n += 1
        cls = ["Obj", "Container"]
        if len(p.t) == 1:
            (m, c), = p.t.items()
            if c == 1 and len(m) == 1 and m[0][0][0] == "P":
                cls = ["Polynom"] + cls            # an unexpanded (a + b)**n factor
        return Rec(None, f"Obj#{self.n}", _kind="obj", val=p, assume=dict(assume), _classes=cls)

    def assumptions(self, target=None, **kw):
        a = {"real": False, "sym_tensors": (), "antisym_tensors": (), "target_idx": None}
        a.update(kw)
        if target is not None:
            a["target_idx"] = self.canon_target(target)
        return a

    def canon_target(self, ixs):
        ixs = [r.attrs["_ix"] if isinstance(r, Rec) else r for r in ixs]
        return self.indices(sorted(set(ixs), key=talg.ix_key))


def kind(v):
    return v.attrs.get("_kind") if isinstance(v, Rec) else None


def _ix(r):
    if kind(r) == "index":
        return r.attrs["_ix"]
    if kind(r) == "sv":
        # an index used as a sympy symbol
        p = r.attrs["val"]
        raise AnalysisError(f"TM: sympy value {p} used as an index")
    raise AnalysisError(f"TM: {r!r} used as an index")


def raised(e: ModelError):
    return Raised(e.name, str(e))


class Binding:
    """Hooks that make ``Symex`` evaluate the vocabulary on ``World`` records."""

    def __init__(self, world: World):
        self.w = world

    # -------------------------------------------------------- conversions
    def to_poly(self, v, what="operand"):
        """Polynomial of a sympy-level operand (record, number or scalar term of the evaluator)."""
        if isinstance(v, bool):
            raise AnalysisError(f"TM: boolean {what}")
        if is_num(v):
            return Poly.num(v)
        if isinstance(v, float) and v == int(v):
            return Poly.num(int(v))
        k = kind(v)
        if k in ("sv",) + CONTAINER:
            return v.attrs["val"]
        if k == "index":
            raise AnalysisError("TM: arithmetic on an index")
        if isinstance(v, T):
            return self.scalar(v)
        raise AnalysisError(f"TM: cannot interpret {v!r} as a value ({what})")

    def scalar(self, t):
        if t.op == "pow" and is_num(t.args[0]) and t.args[0] > 0 and isinstance(t.args[1], Fraction) \
                and t.args[1].denominator == 2:
            q = Fraction(t.args[0])
            return Poly.sqrt(q.numerator, t.args[1].numerator) * Poly.sqrt(q.denominator, -t.args[1].numerator)
        if t.op == "pow" and isinstance(t.args[1], int):
            return self.to_poly(t.args[0]) ** t.args[1]
        if t.op == "mul":
            p = Poly.num(1)
            for x in t.args:
                p = p * self.to_poly(x)
            return p
        if t.op == "add":
            p = Poly()
            for x in t.args:
                p = p + self.to_poly(x)
            return p
        raise AnalysisError(f"TM: scalar term {t!r} outside the model")

    # ----------------------------------------------------------- operators
    def binop(self, sx, op, a, b, node):
        ka, kb = kind(a), kind(b)
        if ka is None and kb is None:
            return NotImplemented
        if "index" in (ka, kb) or "namespace" in (ka, kb):
            raise AnalysisError(f"TM: operator on {a!r}, {b!r}")
        if isinstance(op, ast.Add) and (isinstance(a, (list, tuple)) or isinstance(b, (list, tuple))):
            return NotImplemented
        inplace = isinstance(node, ast.AugAssign)
        try:
            if isinstance(op, ast.Pow):
                if ka in CONTAINER or not isinstance(b, int) or isinstance(b, bool):
                    raise AnalysisError(f"TM: power {a!r} ** {b!r}")
                return self.w.sv(self.to_poly(a) ** b)
            pa, pb = self.to_poly(a, "left operand"), self.to_poly(b, "right operand")
            if isinstance(op, ast.Add):
                r = pa + pb
            elif isinstance(op, ast.Sub):
                r = pa - pb
            elif isinstance(op, ast.Mult):
                r = pa * pb
            elif isinstance(op, ast.Div):
                if pb.is_zero():
                    raise Raised("ZeroDivisionError", None, node)
                r = pa * (pb ** -1)
            else:
                raise AnalysisError(f"TM: operator {type(op).__name__} on containers")
        except ModelError as e:
            raise raised(e)
        if ka in CONTAINER and kb in CONTAINER and a.attrs["assume"] != b.attrs["assume"]:
            raise Raised("TypeError", "Assumptions need to be equal", node)
        if ka == "expr" and inplace:
            a.attrs["val"] = r
            return a
        if ka in CONTAINER:
            return self.w.expr(r, a.attrs["assume"])
        if kb in CONTAINER:
            return self.w.expr(r, b.attrs["assume"])
        return self.w.sv(r)

    def compare(self, sx, opname, a, b, node):
        ka, kb = kind(a), kind(b)
        if ka is None and kb is None:
            return NotImplemented
        if opname in ("is", "is not"):
            same = a is b
            return same if opname == "is" else not same
        if opname in ("in", "not in"):
            # membership of a record in a python container: records are equal iff identical
            if ka is not None and isinstance(b, (list, tuple, set, frozenset, dict)):
                found = any(x is a for x in b)
                return found if opname == "in" else not found
            if ka is not None:
                raise AnalysisError(f"TM: membership of {a!r} in {type(b).__name__}")
            return NotImplemented
        if ka == "index" or kb == "index":
            if opname in ("==", "!="):
                return (a is b) == (opname == "==")
            raise AnalysisError("TM: ordering of indices")
        for v, k in ((a, ka), (b, kb)):
            if k is None and not (is_num(v) or v is None or isinstance(v, (str, tuple, list, dict, T))):
                return NotImplemented
        if opname in ("==", "!="):
            if (ka is None and not is_num(a)) or (kb is None and not is_num(b)):
                return opname == "!="
            if ka in CONTAINER or kb in CONTAINER:
                # containers compare by identity
                return (a is b) == (opname == "==")
            return (self.to_poly(a) == self.to_poly(b)) == (opname == "==")
        pa, pb = self.to_poly(a), self.to_poly(b)
        if not (pa.is_number() and pb.is_number()):
            raise AnalysisError("TM: ordering of non-numbers")
        import operator
        return {"<": operator.lt, "<=": operator.le, ">": operator.gt, ">=": operator.ge}[opname](pa.number(), pb.number())

    # ---------------------------------------------------------- attributes
    def attr(self, sx, obj, name, node):
        if not isinstance(obj, Rec):
            return NotImplemented
        k = kind(obj)
        try:
            f = getattr(self, f"_{k}_attr")
        except AttributeError:
            raise AnalysisError(f"TM: attribute {name} of {obj!r}")
        try:
            return f(obj, name)
        except ModelError as e:
            raise raised(e)

    def _namespace_attr(self, o, name):
        raise AnalysisError(f"TM: S.{name} is not modelled")

    def _index_attr(self, o, name):
        raise AnalysisError(f"TM: Index.{name} is not modelled")

    def _assume_attrs(self, o, name):
        a = o.attrs["assume"]
        if name == "assumptions":
            return dict(a)
        if name == "provided_target_idx":
            return a["target_idx"]
        if name in ("real", "sym_tensors", "antisym_tensors"):
            return a[name]
        return NotImplemented

    def _mono(self, o):
        p = o.attrs["val"]
        if len(p.t) > 1:
            raise AnalysisError(f"TM: {o!r} holds a sum")
        if not p.t:
            return (), Fraction(0)
        (m, c), = p.t.items()
        return m, c

    def _expr_attr(self, o, name):
        r = self._assume_attrs(o, name)
        if r is not NotImplemented:
            return r
        p = o.attrs["val"]
        if name == "sympy":
            return self.w.sv(p)
        if name == "terms":
            ts = p.terms() or [Poly()]
            return tuple(self.w.term(t, o.attrs["assume"]) for t in ts)
        if name == "idx":
            ixs = [s for t in p.terms() for s in self._term_idx(t)]
            return self.w.indices(sorted(ixs, key=talg.ix_key))
        if name == "type_as_str":
            c = self.w._sv_classes(p)
            return "expr" if "Add" in c else "term" if "Mul" in c else "obj"
        raise AnalysisError(f"TM: Expr.{name} is not modelled")

    def _term_idx(self, p):
        (m, c), = p.t.items()
        return [s for s, n in talg.idx_counter(m) for _ in range(n + 1)]

    def _target(self, o):
        m, c = self._mono(o)
        t = o.attrs["assume"]["target_idx"]
        if t is not None:
            return tuple(t)
        return self.w.indices(talg.einstein_target(m))

    def _term_attr(self, o, name):
        r = self._assume_attrs(o, name)
        if r is not NotImplemented:
            return r
        m, c = self._mono(o)
        a = o.attrs["assume"]
        if name == "sympy":
            return self.w.sv(o.attrs["val"])
        if name == "objects":
            if not m and c == 0:
                return (self.w.obj(Poly(), a),)
            return tuple(self.w.obj(p, a) for p in talg.mono_objects(m, c))
        if name == "tensors":
            return tuple(self.w.obj(Poly.factor(f, e), a) for f, e in m if talg.is_tensor(f))
        if name == "deltas":
            return tuple(self.w.obj(Poly.factor(f, e), a) for f, e in m if f[0] == "D")
        if name == "_idx_counter":
            return tuple((self.w.index(s), n) for s, n in talg.idx_counter(m))
        if name == "idx":
            return self.w.indices(self._term_idx(o.attrs["val"])) if m else ()
        if name == "target":
            return self._target(o)
        if name == "contracted":
            t = a["target_idx"]
            if t is not None:
                return tuple(self.w.index(s) for s, _ in talg.idx_counter(m) if self.w.index(s) not in t)
            return tuple(self.w.index(s) for s, n in talg.idx_counter(m) if n)
        if name == "prefactor":
            return int(c) if c.denominator == 1 else c
        if name == "sign":
            return "minus" if c < 0 else "plus"
        if name == "expr":
            return self.w.expr(o.attrs["val"], a)
        if name == "type_as_str":
            return "term" if "Mul" in self.w._sv_classes(o.attrs["val"]) else "obj"
        raise AnalysisError(f"TM: Term.{name} is not modelled")

    def _single(self, o):
        """(factor, exponent) of an object record, (None, 0) for a number."""
        m, c = self._mono(o)
        if not m:
            return None, 0
        if len(m) != 1 or c != 1:
            raise AnalysisError(f"TM: {o!r} is not a single object")
        return m[0]

    def _obj_attr(self, o, name):
        r = self._assume_attrs(o, name)
        if r is not NotImplemented:
            return r
        f, e = self._single(o)
        p = o.attrs["val"]
        if name == "sympy":
            return self.w.sv(p)
        if name == "is_number":
            return f is None
        if name == "base":
            return self.w.sv(p if f is None else Poly.factor(f))
        if name == "exponent":
            return 1 if f is None else e
        if name == "base_and_exponent":
            return (self.w.sv(p if f is None else Poly.factor(f)), 1 if f is None else e)
        if name == "name":
            return None if f is None else talg.factor_name(f)
        if name == "idx":
            return () if f is None else self.w.indices(talg.factor_idx(f))
        if name == "space":
            return "" if f is None else "".join(talg.space_of(s[0])[0] for s in talg.factor_idx(f))
        if name == "spin":
            return "" if f is None else "".join(s[1] if s[1] else "n" for s in talg.factor_idx(f))
        if name == "bra_ket_sym":
            if f is not None and f[0] == "A":
                return self._bks(f[5])
            return None
        if name == "term":
            return self.w.term(p, o.attrs["assume"])
        if name == "expr":
            return self.w.expr(p, o.attrs["assume"])
        if name == "type_as_str":
            if f is None:
                return "prefactor"
            if f[0] == "A":
                return {"Amplitude": "amplitude", "SymmetricTensor": "symtensor", "AntiSymmetricTensor": "antisymtensor"}[f[1]]
            return {"N": "nonsymtensor", "D": "delta", "X": "symbol", "P": "polynom"}.get(f[0]) or self._unmodelled(o, "type_as_str")
        raise AnalysisError(f"TM: Obj.{name} is not modelled")

    def _bks(self, v):
        return {0: self.w.S.attrs["Zero"], 1: self.w.S.attrs["One"], -1: self.w.S.attrs["NegativeOne"]}[v]

    def _sv_attr(self, o, name):
        p = o.attrs["val"]
        if name == "is_number":
            return p.is_number()
        if name == "is_zero":
            return p.is_zero()
        single = None
        if len(p.t) == 1:
            (m, c), = p.t.items()
            if len(m) == 1 and c == 1:
                single = m[0]
        if single is None:
            raise AnalysisError(f"TM: attribute {name} of the sympy value {p}")
        f, e = single
        if name == "args" and e != 1:
            return (self.w.sv(Poly.factor(f)), e)
        if e != 1:
            raise AnalysisError(f"TM: attribute {name} of the power {p}")
        if name == "name" and talg.is_tensor(f):
            return talg.factor_name(f)
        if name == "idx":
            return self.w.indices(talg.factor_idx(f))
        if f[0] == "A":
            if name == "upper":
                return self.w.indices(f[3])
            if name == "lower":
                return self.w.indices(f[4])
            if name == "bra_ket_sym":
                return self._bks(f[5])
            if name == "__class__":
                return self.tensor_ctor(f[1])
        if f[0] == "N":
            if name == "indices":
                return self.w.indices(f[2])
            if name == "__class__":
                return self.nonsym_ctor
        raise AnalysisError(f"TM: attribute {name} of the sympy value {p}")

    # -------------------------------------------------------- constructors
    def _intval(self, v, what):
        if isinstance(v, int) and not isinstance(v, bool):
            return v
        if kind(v) == "sv" and v.attrs["val"].is_number():
            q = v.attrs["val"].number()
            if q.denominator == 1:
                return int(q)
        raise AnalysisError(f"TM: {what} = {v!r}")

    def tensor_ctor(self, cls):
        def ctor(sx, args, kw):
            names = ["name", "upper", "lower", "bra_ket_sym"]
            d = dict(zip(names, args))
            if len(args) > 4 or set(kw) - set(names) or set(kw) & set(d):
                raise Raised("TypeError", f"{cls}() arguments")
            d.update(kw)
            if not {"name", "upper", "lower"} <= set(d):
                raise Raised("TypeError", f"{cls}() missing arguments")
            if not isinstance(d["name"], str):
                raise AnalysisError(f"TM: tensor name {d['name']!r}")
            up = [_ix(r) for r in sx.iterate(d["upper"], None)]
            lo = [_ix(r) for r in sx.iterate(d["lower"], None)]
            bks = self._intval(d.get("bra_ket_sym", 0), "bra_ket_sym")
            self.w.effects.append(("tensor", cls, d["name"], tuple(up), tuple(lo), bks))
            try:
                s, f = talg.mk_tensor(cls, d["name"], up, lo, bks)
            except ModelError as e:
                raise raised(e)
            return self.w.sv(Poly.factor(f, 1, s) if s else Poly())
        return ctor

    def nonsym_ctor(self, sx, args, kw):
        d = dict(zip(["name", "indices"], args))
        d.update(kw)
        if set(d) != {"name", "indices"} or len(args) > 2:
            raise Raised("TypeError", "NonSymmetricTensor() arguments")
        idx = [_ix(r) for r in sx.iterate(d["indices"], None)]
        self.w.effects.append(("tensor", "NonSymmetricTensor", d["name"], tuple(idx), (), None))
        return self.w.sv(Poly.factor(("N", d["name"], tuple(idx))))

    def h_delta(self, sx, args, kw):
        if len(args) != 2 or kw:
            raise Raised("TypeError", "KroneckerDelta() arguments")
        i, j = _ix(args[0]), _ix(args[1])
        self.w.effects.append(("delta", i, j))
        v, f = talg.mk_delta(i, j)
        return self.w.sv(Poly.num(v) if f is None else Poly.factor(f))

    def h_expr(self, sx, args, kw):
        if len(args) != 1:
            raise AnalysisError("TM: Expr() with other than one positional argument")
        extra = set(kw) - {"real", "sym_tensors", "antisym_tensors", "target_idx"}
        if extra:
            raise Raised("TypeError", f"Expr() got unexpected {sorted(extra)}")
        a = self.w.assumptions()
        for k, v in kw.items():
            if k == "target_idx":
                a[k] = None if v is None else self.w.canon_target(self.h_get_symbols(sx, [v], {}))
            elif k == "real":
                a[k] = bool(v)
            else:
                a[k] = tuple(sorted(v)) if v else ()
        return self.w.expr(self.to_poly(args[0], "Expr() argument"), a)

    def h_pow(self, sx, args, kw):
        if len(args) != 2 or kw:
            raise Raised("TypeError", "Pow() arguments")
        try:
            return self.w.sv(self.to_poly(args[0]) ** self._intval(args[1], "exponent"))
        except ModelError as e:
            raise raised(e)

    def h_rational(self, sx, args, kw):
        if kw or not all(is_num(a) for a in args) or len(args) not in (1, 2):
            raise AnalysisError(f"TM: Rational{tuple(args)} outside the model")
        if len(args) == 1:
            return Fraction(args[0])
        if args[1] == 0:
            # sympy: complex infinity / nan, an absorbing garbage value
            return self.w.sv(Poly.factor(("X", "zoo")))
        q = Fraction(args[0]) / Fraction(args[1])
        return int(q) if q.denominator == 1 else q

    def h_index(self, sx, args, kw):
        """``Index('x')`` used as the differentiation placeholder: a fresh commuting symbol."""
        if len(args) != 1 or not isinstance(args[0], str) or kw:
            raise AnalysisError("TM: Index() outside the model")
        self.w.x_counter += 1
        f = ("X", f"{args[0]}#{self.w.x_counter}")
        return self.w.sv(Poly.factor(f))

    # ------------------------------------------------------------ functions
    def h_lowest(self, sx, args, kw):
        d = dict(zip(["n", "used", "space"], args))
        d.update(kw)
        if set(d) != {"n", "used", "space"}:
            raise Raised("TypeError", "get_lowest_avail_indices() arguments")
        used = list(sx.iterate(d["used"], None))
        if not all(isinstance(u, str) for u in used) or not isinstance(d["n"], int) or d["space"] not in talg.SPACES:
            raise AnalysisError(f"TM: get_lowest_avail_indices({d})")
        self.w.effects.append(("lowest", d["n"], tuple(sorted(used)), d["space"]))
        return talg.lowest_avail(d["n"], used, d["space"])

    def h_get_symbols(self, sx, args, kw):
        d = dict(zip(["indices", "spins"], args))
        d.update(kw)
        ind, spins = d.get("indices"), d.get("spins")
        if kind(ind) == "index":
            return [ind]
        if not ind:
            return []
        if isinstance(ind, (list, tuple)) and all(kind(i) == "index" for i in ind):
            return ind
        if isinstance(ind, str):
            names, cur = [], ""
            for ch in ind:
                if ch.isdigit():
                    cur += ch
                else:
                    if cur:
                        names.append(cur)
                    cur = ch
            if cur:
                names.append(cur)
        else:
            names = list(ind)
        if spins is None:
            spins = [""] * len(names)
        if not all(isinstance(n, str) for n in names) or len(spins) != len(names):
            raise Raised("Inputerror", "get_symbols() arguments")
        try:
            return [self.w.index((n, s)) for n, s in zip(names, spins)]
        except ModelError as e:
            raise raised(e)

    def h_minimize(self, sx, args, kw):
        d = dict(zip(["tensor_indices", "target_idx_names"], args))
        d.update(kw)
        if set(d) != {"tensor_indices", "target_idx_names"}:
            raise Raised("TypeError", "minimize_tensor_indices() arguments")
        idx = [_ix(r) for r in sx.iterate(d["tensor_indices"], None)]
        tg = {}
        if not isinstance(d["target_idx_names"], dict):
            raise AnalysisError("TM: target names of minimize_tensor_indices are not a dict")
        for k, v in d["target_idx_names"].items():
            v = list(v)
            if not all(isinstance(s, str) for s in v):
                raise Raised("TypeError", "Target indices need to be provided as string.")
            tg[k] = tuple(sorted(v))
        self.w.effects.append(("minimize", tuple(idx), tuple(sorted(tg.items()))))
        res, perms = talg.minimize(idx, tg, self.w.minimize_mode)
        return (self.w.indices(res), tuple((self.w.index(p), self.w.index(q)) for p, q in perms))

    def h_is_adc(self, sx, args, kw):
        (name,) = list(args) + list(kw.values())
        return name in self.w.adc_names

    def h_simplify(self, sx, args, kw):
        (x,) = list(args) + list(kw.values())
        if kind(x) != "expr":
            raise Raised("Inputerror", "simplify() needs an Expr")
        self.w.effects.append(("simplify",))
        return self.w.expr(x.attrs["val"], x.attrs["assume"])

    def h_diff(self, sx, args, kw):
        if len(args) != 2 or kw:
            raise AnalysisError("TM: diff() outside the model")
        x = self._symbol(args[1])
        return self.w.sv(self.to_poly(args[0]).diff(x))

    def _symbol(self, r):
        if kind(r) == "sv":
            p = r.attrs["val"]
            if len(p.t) == 1:
                (m, c), = p.t.items()
                if c == 1 and len(m) == 1 and m[0][1] == 1 and m[0][0][0] == "X":
                    return m[0][0]
        raise AnalysisError(f"TM: {r!r} is not a placeholder symbol")

    def h_len(self, sx, args, kw):
        if len(args) == 1 and kind(args[0]) in ("expr", "sv"):
            return max(1, len(args[0].attrs["val"].t))
        if len(args) == 1 and kind(args[0]) == "term":
            m, c = self._mono(args[0])
            return max(1, len(talg.mono_objects(m, c)))
        if len(args) == 1 and isinstance(args[0], Rec):
            raise AnalysisError(f"TM: len({args[0]!r})")
        return NotImplemented

    # -------------------------------------------------------------- methods
    def _perms(self, sx, args):
        out = []
        for p in args:
            pq = list(sx.iterate(p, None))
            if len(pq) != 2:
                raise AnalysisError("TM: permutation that is not a pair")
            out.append((_ix(pq[0]), _ix(pq[1])))
        return out

    def m_permute(self, sx, args, kw):
        recv = args[0]
        k = kind(recv)
        if k not in CONTAINER or kw:
            return NotImplemented if k is None else self._unmodelled(recv, "permute")
        try:
            r = recv.attrs["val"].permute(self._perms(sx, args[1:]))
        except ModelError as e:
            raise raised(e)
        if k == "expr":
            recv.attrs["val"] = r
            return recv
        return self.w.expr(r, recv.attrs["assume"])

    def _unmodelled(self, recv, name):
        raise AnalysisError(f"TM: method {name} of {recv!r} is not modelled")

    def m_copy(self, sx, args, kw):
        recv = args[0]
        if kind(recv) == "expr" and len(args) == 1:
            return self.w.expr(recv.attrs["val"], recv.attrs["assume"])
        if isinstance(recv, Rec):
            if kind(recv) in ("term", "obj"):
                # Term/Obj forward unknown attributes to sympy: Basic.copy() gives a bare sympy value
                return self.w.sv(recv.attrs["val"])
            self._unmodelled(recv, "copy")
        return NotImplemented

    def m_expand(self, sx, args, kw):
        recv = args[0]
        k = kind(recv)
        if k is None:
            return NotImplemented
        try:
            val = recv.attrs["val"].expand()
        except ModelError as e:
            raise raised(e)
        if k == "expr":
            recv.attrs["val"] = val          # Expr.expand works in place
            return recv
        if k in ("term", "obj"):
            return self.w.expr(val, recv.attrs["assume"])
        if k == "sv":
            return self.w.sv(val)
        return NotImplemented

    def m_atoms(self, sx, args, kw):
        recv = args[0]
        if kind(recv) not in ("sv",) + CONTAINER:
            return NotImplemented if kind(recv) is None else self._unmodelled(recv, "atoms")
        want = [getattr(a, "short", None) or getattr(a, "name", None) for a in args[1:]]
        if want != ["SymbolicTensor"]:
            raise AnalysisError(f"TM: atoms({want}) is not modelled")
        return {self.w.sv(Poly.factor(f)) for f in recv.attrs["val"].tensors_inside()}

    def m_subs(self, sx, args, kw):
        recv = args[0]
        k = kind(recv)
        if k is None:
            return NotImplemented
        if len(args) != 3 or kw:
            self._unmodelled(recv, "subs(...)")
        x = self._symbol(args[1])
        try:
            r = recv.attrs["val"].subs_symbol(x, self.to_poly(args[2]))
        except ModelError as e:
            raise raised(e)
        if k == "sv":
            return self.w.sv(r)
        if k == "expr":
            recv.attrs["val"] = r
            return recv
        return self.w.expr(r, recv.attrs["assume"])

    def m_symmetry(self, sx, args, kw):
        recv = args[0]
        k = kind(recv)
        if k is None:
            return NotImplemented
        if k not in ("term", "obj"):
            self._unmodelled(recv, "symmetry")
        oc = kw.get("only_contracted", args[1] if len(args) > 1 else False)
        ot = kw.get("only_target", args[2] if len(args) > 2 else False)
        if oc and ot:
            raise Raised("Inputerror", "only_contracted and only_target")
        p = recv.attrs["val"]
        indices = None
        if k == "term" and (oc or ot):
            tg = [r.attrs["_ix"] for r in self._target(recv)]
            m, c = self._mono(recv)
            allidx = [s for s, _ in talg.idx_counter(m)]
            indices = [s for s in allidx if (s in tg) == bool(ot)]
        elif oc or ot:
            raise AnalysisError("TM: Obj.symmetry restricted to contracted/target indices")
        try:
            sym = talg.symmetry(p, indices)
        except ModelError as e:
            raise raised(e)
        return {tuple((self.w.index(a), self.w.index(b)) for a, b in seq): sg for seq, sg in sym}

    def m_set_target_idx(self, sx, args, kw):
        recv = args[0]
        if kind(recv) != "expr":
            return NotImplemented if kind(recv) is None else self._unmodelled(recv, "set_target_idx")
        (t,) = list(args[1:]) + list(kw.values())
        recv.attrs["assume"]["target_idx"] = None if t is None else self.w.canon_target(self.h_get_symbols(sx, [t], {}))
        return None

    # ----------------------------------------------------------------- glue
    def hooks(self):
        h = {
            "S": self.w.S,
            "Expr": self.h_expr, "KroneckerDelta": self.h_delta, "Pow": self.h_pow, "Index": self.h_index,
            "NonSymmetricTensor": self.nonsym_ctor,
            "get_lowest_avail_indices": self.h_lowest, "get_symbols": self.h_get_symbols,
            "minimize_tensor_indices": self.h_minimize, "is_adc_amplitude": self.h_is_adc, "simplify": self.h_simplify,
            "diff": self.h_diff, "len": self.h_len, "Rational": self.h_rational,
            "permute": self.m_permute, "copy": self.m_copy, "expand": self.m_expand, "subs": self.m_subs, "atoms": self.m_atoms,
            "symmetry": self.m_symmetry, "set_target_idx": self.m_set_target_idx,
        }
        for cls in talg.TENSOR_CLASSES:
            h[cls] = self.tensor_ctor(cls)
        return h

    def isinstance_hook(self, sx, obj, cname):
        return None

    def make(self, model, what, extra_hooks=None, no_hooks=(), inline=None, **kw):
        hooks = self.hooks()
        for k in no_hooks:
            hooks.pop(k, None)
        hooks.update(extra_hooks or {})
        sx = Symex(model, inline=inline or (lambda q: True), hooks=hooks, what=what, attr_hook=self.attr, assume_asserts=False,
                   **kw)
        sx.binop_hook = self.binop
        sx.compare_hook = self.compare
        return sx
