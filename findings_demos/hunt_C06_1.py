"""
C06 / defect 1: a tensor with bra-ket ANTIsymmetry (bra_ket_sym=-1) whose upper
and lower index groups coincide is forced to zero by the declared symmetry
(d^{I}_{I} = - d^{I}_{I}), but the library returns a non-zero tensor object.

Run from the worktree root:  /venv/bin/python hunt_out/1/demo.py
exit 1: defect present, exit 0: fixed
"""
import os
import sys
sys.path.insert(0, os.getcwd())

import itertools  # noqa E402
from fractions import Fraction  # noqa E402
import random  # noqa E402

from sympy import S  # noqa E402
import adcgen  # noqa E402
from adcgen.sympy_objects import (  # noqa E402
    AntiSymmetricTensor, SymmetricTensor, Amplitude, KroneckerDelta
)
from adcgen.indices import get_symbols  # noqa E402
from adcgen.expr_container import Expr  # noqa E402
from adcgen.func import evaluate_deltas  # noqa E402

print("using", adcgen.__file__)
bad = []

i, j, k = get_symbols("ijk")
a, b = get_symbols("ab")
p, q = get_symbols("pq")
ia, ja = get_symbols("ij", "aa")

# ---------------------------------------------------------------- 1) objects
cases = [
    (AntiSymmetricTensor, (i,), (i,)),
    (AntiSymmetricTensor, (p,), (p,)),
    (AntiSymmetricTensor, (ia,), (ia,)),
    (AntiSymmetricTensor, (i, j), (i, j)),
    (AntiSymmetricTensor, (i, j), (j, i)),
    (AntiSymmetricTensor, (a, i, p), (p, a, i)),
    (Amplitude, (a, b), (b, a)),
    (SymmetricTensor, (i,), (i,)),
    (SymmetricTensor, (i, j), (j, i)),
    (SymmetricTensor, (i, i), (i, i)),
]
for cls, upper, lower in cases:
    t = cls("d", upper, lower, -1)
    # the library itself proves that the object equals its own negative:
    # swapping bra and ket is a declared symmetry with sign -1
    swapped = cls("d", lower, upper, -1)
    if t is not S.Zero:
        bad.append(f"{cls.__name__}('d', {upper}, {lower}, -1) = {t} "
                   f"(expected 0; bra<->ket swapped construction gives "
                   f"{swapped}, the declared sign is -1)")

# --------------------------------------- 2) brute force model of the symmetry
# random rational matrix with d[p][q] = -d[q][p] (the declared bra-ket
# antisymmetry of a one particle tensor): every diagonal element vanishes.
random.seed(1)
n = 4
d = [[Fraction(0)] * n for _ in range(n)]
for x, y in itertools.combinations(range(n), 2):
    d[x][y] = Fraction(random.randint(-9, 9), random.randint(1, 9))
    d[y][x] = -d[x][y]
assert all(d[x][x] == 0 for x in range(n))
trace = sum(d[x][x] for x in range(n))  # sum_i d^i_i in every model: 0
lib_trace = AntiSymmetricTensor("d", (i,), (i,), -1)
if lib_trace is not S.Zero:
    bad.append(f"sum_i d^i_i = {trace} in every antisymmetric model, "
               f"library keeps the term {lib_trace}")

# ------------------------- 3) declaring the assumption / index substitution
e = Expr(AntiSymmetricTensor("d", (i,), (i,)), antisym_tensors=["d"])
if e.sympy is not S.Zero:
    bad.append(f"Expr(d^i_i, antisym_tensors=['d']) = {e.sympy} (expected 0)")
# off diagonal element: handled correctly (d^i_j + d^j_i = 0) ...
e = Expr(AntiSymmetricTensor("d", (i,), (j,))
         + AntiSymmetricTensor("d", (j,), (i,)), antisym_tensors=["d"])
assert e.sympy is S.Zero
# ... but substituting j -> i (e.g. evaluating delta_ij) gives a non-zero obj
t = AntiSymmetricTensor("d", (i,), (j,), -1)
sub = t.subs(j, i)
if sub is not S.Zero:
    bad.append(f"d^i_j (bra_ket_sym=-1) with j -> i gives {sub} (expected 0)")
contracted = evaluate_deltas(KroneckerDelta(i, j) * t)
if contracted is not S.Zero:
    bad.append(f"delta_ij * d^i_j (bra_ket_sym=-1) evaluates to {contracted} "
               "(expected 0)")
# for comparison: the zero forced by the permutational antisymmetry is found
assert AntiSymmetricTensor("d", (i, i), (a, b), -1) is S.Zero

if bad:
    print("DEFECT: bra-ket antisymmetric tensors with identical bra and ket "
          "indices do not vanish:")
    for line in bad:
        print("  -", line)
    sys.exit(1)
print("OK: all bra-ket antisymmetric diagonal elements vanish")
sys.exit(0)
