"""C19 history, hash seed and configuration independence."""
from __future__ import annotations

import ast

from ..model import (AnalysisError, U, Defs, FuncNode, calls_in, call_name, walk_fn, kwarg, enclosing,
                     enclosing_stmt, parents, short, fn_of, always_exits as common_always_exits)
from ..symex import Symex, Obj, ClassRef, Ext, _freeze
from ..terms import T, sym, show, subterms, calls, strip, expand_products, args_of, t_cmp, t_not
from . import common
from . import c08
from . import dx
from .deriv import reaching_assignments

EXPLANATION = (
    "R19a: no hash()/id() inside any function used as a sort key; every iteration over a set (set(...), "
    "set displays, .atoms(...), set operators) is followed to its consumers: membership/any/all/len/"
    "sum/sorted/set/dict-keyed stores/commutative Add/Mul/same-origin zip are order-insensitive, "
    "anything else must be a frozen, reasoned exception, otherwise it is reported. R19g: the canonical "
    "sort key starts with space, spin, number and letter of the name before any tie-break. R19b (=D4): "
    "wavefunctions, overlaps and norm factors are uncached and draw their summation indices from "
    "get_generic_indices; cached derivation methods request named indices only for the caller-supplied "
    "target strings; multiplicative accumulation of a method in a loop only for the uncached methods "
    "(+ the frozen s_root case whose index argument advances). R19c: no literal equal to a TensorNames "
    "default reaches a tensor constructor name or a comparison with .name. R19d: TensorNames is a "
    "frozen, slotted singleton built once from the JSON file; no attribute store on it. R19e: index "
    "registry ownership and pairing (R08c/R08d). R19f: values handed out by cached_member/"
    "cached_property whose return expression is a mutable container are never mutated by a caller.")
ASSUMPTIONS = [
    "equality of text across histories needs executions and is not decided",
    "set iteration over small ints is treated as seed independent (CPython int hashing)",
]

CACHE_DECOS = ("cached_member", "cached_property")
MUTATORS = {"append", "extend", "update", "pop", "clear", "add", "remove", "insert", "sort", "reverse", "setdefault",
            "popitem", "discard", "expand", "subs", "doit", "make_real", "substitute_contracted", "substitute_with_generic",
            "factor", "set_sym_tensors", "set_antisym_tensors", "set_target_idx", "rename_tensor", "diagonalize_fock",
            "block_diagonalize_fock", "expand_antisym_eri", "use_symbolic_denominators", "use_explicit_denominators",
            "expand_intermediates", "permute"}
DEFAULT_NAMES = None


# ====================================================================== R19a (1): sort keys
# Every function that can be reached from a sort key (call graph closure over the repository) is free of hash()/id().

SEED_CALLS = ("hash", "id", "__hash__")


def _scope_chain(node):
    out = []
    for p in [node] + list(parents(node)):
        if isinstance(p, FuncNode):
            out.append(p)
    return out


class CallGraph:
    def __init__(self, model):
        self.model = model
        self.by_short = {}
        for ref, fn in model.all_functions():
            self.by_short.setdefault(fn.name, []).append(fn)
        self._direct = {}
        self._defs = {}
        self._busy = set()

    def defs(self, fn):
        if id(fn) not in self._defs:
            self._defs[id(fn)] = Defs(fn)
        return self._defs[id(fn)]

    def resolve_name(self, name, at):
        """repository functions a bare name may denote at ``at`` (nested defs, local lambdas, module level, imports)"""
        out = []
        mod = at._module
        for sc in _scope_chain(at):
            q = f"{sc._qual}.{name}"
            if q in mod.functions:
                return [mod.functions[q]]
            b = self.defs(sc).all_defs(name)
            if b:
                if (name, id(sc)) in self._busy:
                    return out
                self._busy.add((name, id(sc)))
                try:
                    for kind, v in b:
                        if kind in ("assign",) and v is not None:
                            out.extend(self.functions_of_expr(v, v if hasattr(v, "_module") else at))
                finally:
                    self._busy.discard((name, id(sc)))
                return out
        if name in mod.functions:
            return [mod.functions[name]]
        if name in mod.classes:
            return [f for q, f in mod.functions.items() if q.rsplit(".", 1)[0] == name and f.name in ("__init__", "__new__", "__post_init__", "__call__")]
        if name in mod.imports:
            origin = mod.imports[name]
            modp, _, obj = origin.partition(":")
            if _ and modp.startswith("."):
                tgt = modp.lstrip(".")
                base = mod.name.split(".")[:-1]
                lvl = len(modp) - len(tgt)
                if lvl > 1:
                    base = base[:len(base) - (lvl - 1)]
                full = ".".join(base + ([tgt] if tgt else []))
                m2 = self.model.modules.get(full)
                if m2 is not None:
                    if obj in m2.functions:
                        return [m2.functions[obj]]
                    if obj in m2.classes:
                        return [f for q, f in m2.functions.items() if q.rsplit(".", 1)[0] == obj and
                                f.name in ("__init__", "__new__", "__post_init__", "__call__")]
        return out

    def functions_of_expr(self, e, at):
        """function bodies an expression used as a callable may denote"""
        if isinstance(e, ast.Lambda):
            return [e]
        if isinstance(e, ast.Name):
            return self.resolve_name(e.id, at)
        if isinstance(e, ast.Attribute):
            return list(self.by_short.get(e.attr, []))
        if isinstance(e, ast.Call):      # partial(f, ..), cmp_to_key(f), attrgetter(..)
            out = []
            for a in list(e.args) + [k.value for k in e.keywords]:
                if isinstance(a, (ast.Lambda, ast.Name, ast.Attribute)):
                    out.extend(self.functions_of_expr(a, at))
            return out
        if isinstance(e, ast.IfExp):
            return self.functions_of_expr(e.body, at) + self.functions_of_expr(e.orelse, at)
        return []

    def direct(self, f):
        """(seed calls, callees) of one function body / lambda"""
        if id(f) in self._direct:
            return self._direct[id(f)]
        seeds, callees = [], []
        body = [f.body] if isinstance(f, ast.Lambda) else f.body
        for st in body:
            for n in ast.walk(st):
                if not isinstance(n, ast.Call):
                    # a function passed on as a key / callback inside the body
                    continue
                fu = n.func
                if isinstance(fu, ast.Name) and fu.id in SEED_CALLS and not self._shadowed(fu.id, n):
                    seeds.append(n)
                elif isinstance(fu, ast.Attribute) and fu.attr in SEED_CALLS:
                    seeds.append(n)
                else:
                    callees.extend(self.functions_of_expr(fu, n))
                for a in list(n.args) + [k.value for k in n.keywords]:
                    if isinstance(a, ast.Lambda):
                        callees.append(a)
                    elif isinstance(a, ast.Name):
                        if a.id in SEED_CALLS and not self._shadowed(a.id, n):
                            seeds.append(n)
                        else:
                            callees.extend(self.resolve_name(a.id, n))
        self._direct[id(f)] = (seeds, callees)
        return seeds, callees

    def _shadowed(self, name, at):
        for sc in _scope_chain(at):
            if self.defs(sc).all_defs(name):
                return True
        return name in at._module.functions

    def reachable_seeds(self, roots):
        """seed calls reachable from the given bodies: list of (seed call node, chain of function names)"""
        out, seen = [], set()
        stack = [(r, ()) for r in roots]
        while stack:
            f, chain = stack.pop()
            if id(f) in seen:
                continue
            seen.add(id(f))
            seeds, callees = self.direct(f)
            nm = getattr(f, "name", "<lambda>")
            for s in seeds:
                out.append((s, chain + (nm,)))
            for c in callees:
                stack.append((c, chain + (nm,)))
        return out, len(seen)


def call_graph(ctx):
    if getattr(ctx, "_c19_cg", None) is None:
        ctx._c19_cg = CallGraph(ctx.model)
    return ctx._c19_cg


def _key_sites(ctx, cg):
    """(call node, key expression) for every call that passes a sort key: ``key=`` keyword of any callee and positional
    arguments bound to a parameter named ``key`` of a repository function"""
    out = []
    for mname, m in ctx.model.modules.items():
        ctx.model.used_modules.add(mname)
        for n in ast.walk(m.tree):
            if not isinstance(n, ast.Call):
                continue
            k = kwarg(n, "key")
            if k is None and n.args and not any(isinstance(a, ast.Starred) for a in n.args):
                for f in cg.functions_of_expr(n.func, n) if isinstance(n.func, ast.Name) else []:
                    if isinstance(f, ast.Lambda):
                        continue
                    params = [a.arg for a in f.args.posonlyargs + f.args.args]
                    if "key" in params and params.index("key") < len(n.args):
                        k = n.args[params.index("key")]
            if k is not None and not (isinstance(k, ast.Constant) and k.value is None):
                out.append((n, k))
    return out


def r19a_keys(ctx):
    rule = "R19a"
    cg = call_graph(ctx)
    sites = _key_sites(ctx, cg)
    ctx.floor(rule, "calls that pass a sort key", len(sites), 20)
    n_fn = 0
    for call, k in sites:
        ref = fn_of(call)
        roots = cg.functions_of_expr(k, call)
        direct = isinstance(k, ast.Name) and k.id in SEED_CALLS and not cg._shadowed(k.id, call)
        seeds, n = cg.reachable_seeds(roots)
        n_fn += n
        if direct:
            ctx.bad(rule, call, f"`{short(call, 70)}` sorts by {k.id}(): the order depends on the interpreter's hash seed / addresses",
                    fn=ref, key=f"key {k.id}")
            continue
        for s, chain in seeds:
            ctx.bad(rule, s, f"`{U(s)}` is evaluated for the sort key of `{short(call, 60)}` (via {' -> '.join(chain)}): the order of the "
                    "sorted elements (and with it the printed text and the term count) depends on PYTHONHASHSEED / object addresses",
                    fn=fn_of(s), key=f"{U(s.func)} in key {chain[-1]}")
        if not seeds:
            ctx.ok(rule, k, f"sort key of `{call_name(call)}` and the {n} function(s) it reaches are free of hash()/id()", fn=ref,
                   key=f"key site {ref} {call.lineno - getattr(enclosing(call, FuncNode), 'lineno', 0)}")
    ctx.floor(rule, "function bodies reached from sort keys", n_fn, 20)


# ====================================================================== R19a (2): iteration order of sets
# Order taint: every ordered read of an unordered collection (loop, comprehension, list()/tuple()/unpacking/join/pop) is
# followed through names, containers and derived sequences to its consumers.  Order-free consumers (membership, any/all/
# len/sum/min/max/sorted/set/Counter, commutative Add/Mul, set.add, keyed stores, commutative accumulation, diagnostics)
# end the taint; a return/yield, an argument of another function, indexing, an effect performed per element ... is a
# sink.  Sinks are violations unless the site is a frozen, reasoned exception keyed by function and origin of the set.

ORDER_FREE_CALLS = {"sorted", "set", "frozenset", "any", "all", "sum", "len", "min", "max", "Mul", "Add", "Counter", "bool"}
PASS_THROUGH_CALLS = {"list", "tuple", "enumerate", "zip", "reversed", "iter", "map", "filter", "chain", "from_iterable",
                      "product", "permutations", "combinations", "combinations_with_replacement", "islice", "deque"}
SET_METHODS = {"atoms", "intersection", "union", "difference", "symmetric_difference", "free_symbols"}
ORDER_FREE_EFFECTS = {"add", "update", "discard", "setdefault", "debug", "info", "warning", "error", "critical", "warn"}
SEQ_GROW = {"append", "extend", "insert", "appendleft", "extendleft"}
COMMUTATIVE_AUG = (ast.Add, ast.Mult, ast.BitOr, ast.BitAnd, ast.BitXor, ast.Sub)
# (function, origin of the set with local names resolved) -> reason
SET_ORDER_FROZEN = {
    ("func:evaluate_deltas", "dict filled per element of atoms() over .args .atoms Index expr"):
        "occurrence counter; the derived list of target indices is only used for membership tests (also in the recursion)",
    ("spatial_orbitals:transform_to_spatial_orbitals", "set() over .idx .terms expr set"):
        "old/new index lists are built from one iteration (same-origin zip) and applied through order_substitutions",
    ("tensor_names:TensorNames.rename_tensors", "atoms() over .atoms .sympy Symbol expr"):
        "renames of distinct default names to distinct configured names commute",
    ("generate_code.optimize_contractions:_group_objects",
     "set display over  | set display over ._split_contracted_and_target Contraction obj_indices target_indices"):
        "set of small ints (object positions): CPython iterates them independently of the hash seed; the derived index "
        "tuples are only split into contracted/target sets",
}


class _Scope:
    """Name bindings of one function body including its comprehensions (nested defs/lambdas read them as closures)."""

    def __init__(self, fn, defs=None):
        self.fn = fn
        self.defs = defs or Defs(fn)
        self.loads = {}
        self.subscript_stores = {}
        for n in walk_fn(fn, nested=True):
            if isinstance(n, ast.Name) and isinstance(n.ctx, ast.Load):
                self.loads.setdefault(n.id, []).append(n)
        self.params = {a.arg: a for a in fn.args.posonlyargs + fn.args.args + fn.args.kwonlyargs}

    def values(self, name):
        return [v for k, v in self.defs.all_defs(name) if k == "assign" and v is not None]

    def is_local(self, name):
        return bool(self.defs.all_defs(name))


class SetOrder:
    def __init__(self, ctx):
        self.ctx = ctx
        self.model = ctx.model
        self.cg = call_graph(ctx)
        self._scopes = {}
        self._ret_unordered = {}

    def scope(self, fn):
        if id(fn) not in self._scopes:
            self._scopes[id(fn)] = _Scope(fn, self.cg.defs(fn))
        return self._scopes[id(fn)]

    # ------------------------------------------------------------ typing
    def unordered(self, e, sc, depth=5, seen=None):
        """The value of ``e`` is a set/frozenset (or a dict filled in the order of one)."""
        seen = set() if seen is None else seen
        if id(e) in seen or depth < 0:
            return False
        seen.add(id(e))
        if isinstance(e, (ast.Set, ast.SetComp)):
            return True
        if isinstance(e, ast.DictComp):
            return any(self.unordered(self._unwrap(g.iter), sc, depth - 1, seen) for g in e.generators)
        if isinstance(e, ast.Call):
            f = e.func
            if isinstance(f, ast.Name):
                if f.id in ("set", "frozenset"):
                    return True
                if f.id in ("dict", "list", "tuple", "sorted"):
                    return False
                for g in self.cg.resolve_name(f.id, e):
                    if isinstance(g, FuncNode) and self.returns_unordered(g):
                        return True
                return False
            if isinstance(f, ast.Attribute):
                if f.attr in SET_METHODS:
                    return True
                if f.attr in ("copy", "keys", "values", "items"):
                    return self.unordered(f.value, sc, depth - 1, seen)
                return False
        if isinstance(e, ast.BinOp) and isinstance(e.op, (ast.BitAnd, ast.BitOr, ast.BitXor, ast.Sub)):
            return self.unordered(e.left, sc, depth - 1, seen) or self.unordered(e.right, sc, depth - 1, seen)
        if isinstance(e, ast.IfExp):
            return self.unordered(e.body, sc, depth - 1, seen) or self.unordered(e.orelse, sc, depth - 1, seen)
        if isinstance(e, ast.NamedExpr):
            return self.unordered(e.value, sc, depth - 1, seen)
        if isinstance(e, ast.Name):
            if e.id in sc.params:
                ann = sc.params[e.id].annotation
                if ann is not None and U(ann).split("[")[0].split(".")[-1] in ("set", "frozenset", "Set", "FrozenSet", "AbstractSet"):
                    return True
            if any(self.unordered(v, sc, depth - 1, seen) for v in sc.values(e.id)):
                return True
            return e.id in self.tainted_dicts(sc)
        if isinstance(e, ast.Attribute) and e.attr in SET_METHODS:
            return True
        return False

    def returns_unordered(self, fn):
        if id(fn) not in self._ret_unordered:
            self._ret_unordered[id(fn)] = False
            sc = self.scope(fn)
            rets = [r.value for r in walk_fn(fn, nested=False) if isinstance(r, ast.Return) and r.value is not None]
            self._ret_unordered[id(fn)] = bool(rets) and all(self.unordered(r, sc, 3) for r in rets)
        return self._ret_unordered[id(fn)]

    def tainted_dicts(self, sc):
        """Dicts that receive new keys inside a loop over an unordered collection (their key order is tainted):
        name -> the unordered collection"""
        if not hasattr(sc, "_tdicts"):
            sc._tdicts = {}
            for n in walk_fn(sc.fn, nested=False):
                if not isinstance(n, ast.For):
                    continue
                srcs = [s for s in self._sources(n.iter) if self.unordered(s, sc, 3)]
                if not srcs:
                    continue
                for x in ast.walk(ast.Module(body=n.body, type_ignores=[])):
                    tg = []
                    if isinstance(x, ast.Assign):
                        tg = x.targets
                    elif isinstance(x, ast.AugAssign):
                        tg = [x.target]
                    for t in tg:
                        if isinstance(t, ast.Subscript) and isinstance(t.value, ast.Name) and \
                                any(isinstance(v, (ast.Dict, ast.DictComp)) or (isinstance(v, ast.Call) and
                                    call_name(v) in ("dict", "defaultdict", "OrderedDict")) for v in sc.values(t.value.id)):
                            sc._tdicts.setdefault(t.value.id, srcs[0])
        return sc._tdicts

    @staticmethod
    def _unwrap(e):
        """enumerate(S), zip(S, ..), map(f, S), list(S) ... read S in order"""
        while isinstance(e, ast.Call) and call_name(e) in PASS_THROUGH_CALLS and e.args:
            nxt = None
            for a in e.args:
                if not isinstance(a, (ast.Lambda, ast.Constant)):
                    nxt = a
                    break
            if nxt is None:
                break
            e = nxt
        return e

    def _sources(self, e):
        """the iterables read by an iteration expression (all arguments of zip/chain/product ...)"""
        if isinstance(e, ast.Call) and call_name(e) in PASS_THROUGH_CALLS and e.args:
            out = []
            for a in e.args:
                if isinstance(a, ast.Starred):
                    a = a.value
                if not isinstance(a, (ast.Lambda, ast.Constant)):
                    out.extend(self._sources(a))
            return out
        return [e]

    # ------------------------------------------------------------ sites
    def sites(self, fn):
        """(expression that is the unordered collection, node that reads it in order)"""
        sc = self.scope(fn)
        out = []
        for n in walk_fn(fn, nested=True):
            if isinstance(n, FuncNode):
                continue
            reads = []
            if isinstance(n, (ast.For, ast.comprehension)):
                reads = [(s, n) for s in self._sources(n.iter)]
            elif isinstance(n, ast.Call):
                f = n.func
                par = getattr(n, "_parent", None)
                if isinstance(par, (ast.For, ast.comprehension)) and par.iter is n:
                    continue
                if isinstance(par, ast.Call) and call_name(par) in PASS_THROUGH_CALLS and n in par.args:
                    continue    # read by the outer wrapper
                if isinstance(f, ast.Name) and f.id in PASS_THROUGH_CALLS | {"next", "str", "repr"} and n.args:
                    reads = [(s, n) for s in self._sources(n)] if f.id in PASS_THROUGH_CALLS else [(self._unwrap(n.args[0]), n)]
                elif isinstance(f, ast.Attribute) and f.attr == "join" and n.args:
                    reads = [(s, n) for s in self._sources(n.args[0])]
                elif isinstance(f, ast.Attribute) and f.attr == "pop" and not n.args:
                    reads = [(f.value, n)]
                for a in n.args:
                    if isinstance(a, ast.Starred) and not (isinstance(f, ast.Name) and f.id in PASS_THROUGH_CALLS):
                        reads.append((a.value, a))
            elif isinstance(n, (ast.List, ast.Tuple)) and isinstance(n.ctx, ast.Load):
                reads = [(x.value, x) for x in n.elts if isinstance(x, ast.Starred)]
            elif isinstance(n, ast.Assign) and len(n.targets) == 1 and isinstance(n.targets[0], (ast.Tuple, ast.List)):
                reads = [(n.value, n)]      # unpacking
            for src, node in reads:
                owner = self.scope(enclosing(src, FuncNode) or fn)
                if self.unordered(src, owner):
                    out.append((src, node, owner))
        return out

    # ------------------------------------------------------------ consumers
    def sinks_of_read(self, src, node, sc):
        """order-sensitive consumers reached from one ordered read; [] means the order cannot be observed"""
        self.seen = set()
        self.sc = sc
        if isinstance(node, ast.For):
            return self.loop_sinks(node)
        if isinstance(node, ast.comprehension):
            comp = node._parent
            if isinstance(comp, ast.SetComp):
                return []
            if isinstance(comp, ast.DictComp):
                return self.value_sinks(comp)       # key order follows the set; followed like a sequence
            return self.value_sinks(comp)
        if isinstance(node, ast.Starred):
            return self.value_sinks(node)
        if isinstance(node, ast.Assign):
            return [] if self.singleton(src, node) else [(node, "unpacked into names")]
        if isinstance(node, ast.Call) and call_name(node) in ("next", "pop"):
            return [] if self.singleton(src, node) else [(node, "one element selected")]
        if isinstance(node, ast.Call) and call_name(node) in ("str", "repr"):
            return self.value_sinks(node)
        return self.value_sinks(node)

    def singleton(self, src, at):
        """``len(src) == 1`` is established (assert / enclosing branch) where ``at`` is evaluated"""
        if not isinstance(src, ast.Name):
            return False
        sx = Symex(self.model, what="guard")
        sx.prefix, sx.decisions, sx.facts, sx.path, sx.effects, sx.steps, sx.depth = [], [], {}, [], [], 0, 0
        names = {n.id for n in ast.walk(self.sc.fn) if isinstance(n, ast.Name)} - {"len"}
        sx.frames, sx.module = [{n: sym(n) for n in names if self.sc.is_local(n) or n in self.sc.params}], self.sc.fn._module
        want = t_cmp("==", T("call", "len", (sym(src.id),), ()), 1)

        def holds(test, pol):
            try:
                t = sx.ev(test)
            except AnalysisError:
                return False
            if not pol:
                t = t_not(t) if isinstance(t, T) else (not t)
            return isinstance(t, T) and (t == want or (t.op == "and" and want in t.args))
        child = at
        for p in parents(at):
            if isinstance(p, ast.If):
                if any(child is s for s in p.body) and holds(p.test, True):
                    return True
                if any(child is s for s in p.orelse) and holds(p.test, False):
                    return True
            if isinstance(p, ast.IfExp) and ((child is p.body and holds(p.test, True)) or (child is p.orelse and holds(p.test, False))):
                return True
            for field in ("body", "orelse", "finalbody"):
                lst = getattr(p, field, None)
                if isinstance(lst, list) and any(child is s for s in lst):
                    for s in lst:
                        if s is child:
                            break
                        if isinstance(s, ast.Assert) and holds(s.test, True):
                            return True
                        if isinstance(s, ast.If) and not s.orelse and common_always_exits(s.body) and holds(s.test, False):
                            return True
                        if any(isinstance(b, ast.Name) and isinstance(b.ctx, ast.Store) and b.id == src.id for b in ast.walk(s)) \
                                and not isinstance(s, ast.Assert):
                            pass
            if isinstance(p, FuncNode):
                break
            child = p
        return False

    def _diagnostic(self, n):
        """inside a raise statement / logging call: text of a message only"""
        for p in [n] + list(parents(n)):
            if isinstance(p, ast.Raise):
                return True
            if isinstance(p, ast.Call) and call_name(p) in ("debug", "info", "warning", "error", "critical", "warn", "print"):
                return True
            if isinstance(p, ast.Assert) and p.msg is not None and any(x is n for x in ast.walk(p.msg)):
                return True
            if isinstance(p, ast.stmt):
                return False
        return False

    def value_sinks(self, v, nested=False):
        """Consumers of an order-tainted value: a sequence/string whose order follows the set, or (``nested``) a container
        whose elements are such sequences."""
        if (id(v), nested) in self.seen:
            return []
        self.seen.add((id(v), nested))
        p = getattr(v, "_parent", None)
        if p is None:
            return [(v, "escapes")]
        if self._diagnostic(v):
            return []
        if isinstance(p, ast.Starred):
            return self.value_sinks(p, nested)
        if isinstance(p, ast.keyword):
            call = p._parent
            return [] if call_name(call) in ORDER_FREE_CALLS and not nested else [(call, f"passed to {call_name(call)}(..)")]
        if isinstance(p, ast.Call):
            nm = call_name(p)
            if nm in ORDER_FREE_CALLS and not nested:
                return []
            if nm in PASS_THROUGH_CALLS or nm in ("str", "repr", "join", "dict", "OrderedDict", "array"):
                return self.value_sinks(p, nested)
            if isinstance(p.func, ast.Attribute) and nm in ("add", "update", "discard", "difference_update", "intersection_update",
                                                             "issubset", "issuperset", "isdisjoint", "intersection", "union", "difference") \
                    and not nested:
                return []
            if isinstance(p.func, ast.Attribute) and nm in SEQ_GROW | {"add", "update", "setdefault"}:
                return self.container_sinks(p.func.value, p, nested=True)
            return [(p, f"passed to {nm}(..)")]
        if isinstance(p, ast.Attribute):        # v.method(...) / v.attr
            call = getattr(p, "_parent", None)
            if not (isinstance(call, ast.Call) and call.func is p):
                return [(p, f"attribute .{p.attr} of the ordered value")]
            m = p.attr
            if m in ("items", "values", "keys", "copy"):
                return self.value_sinks(call, nested)
            if m in ("get", "pop", "setdefault", "__getitem__"):
                return self.value_sinks(call, False) if nested else ([(call, f".{m}() of the ordered value")] if m == "pop" else [])
            if m in ("count", "__contains__", "issubset", "issuperset", "isdisjoint", "add", "update", "discard", "clear", "remove",
                     "sort", "startswith", "endswith") or m in SEQ_GROW:
                return []
            return [(call, f"method .{m}() of the ordered value")]
        if isinstance(p, ast.Compare):
            ops = p.ops
            if len(ops) == 1 and isinstance(ops[0], (ast.In, ast.NotIn)):
                return [] if p.comparators[0] is v else self.value_sinks(p, nested)
            if any(isinstance(o, (ast.Is, ast.IsNot)) for o in ops):
                return []
            return [(p, "order-sensitive comparison")]
        if isinstance(p, ast.UnaryOp) and isinstance(p.op, ast.Not):
            return []
        if isinstance(p, (ast.BoolOp, ast.UnaryOp)):
            return self.value_sinks(p, nested)
        if isinstance(p, (ast.If, ast.While, ast.Assert)):
            return []
        if isinstance(p, ast.IfExp):
            return [] if p.test is v else self.value_sinks(p, nested)
        if isinstance(p, ast.Expr):
            return []
        if isinstance(p, (ast.Return, ast.Yield, ast.YieldFrom)):
            return [(p, "returned" if isinstance(p, ast.Return) else "yielded")]
        if isinstance(p, ast.Lambda):
            return [(p, "result of a lambda")]
        if isinstance(p, (ast.JoinedStr, ast.FormattedValue)):
            return self.value_sinks(p, nested)
        if isinstance(p, ast.BinOp):
            return self.value_sinks(p, nested)
        if isinstance(p, (ast.Tuple, ast.List, ast.Set)):
            if isinstance(getattr(p, "ctx", None), ast.Store):
                return [(p, "unpacked")]
            return self.value_sinks(p, True)
        if isinstance(p, ast.Dict):
            return self.value_sinks(p, True)
        if isinstance(p, ast.Subscript):
            if p.value is v:
                if isinstance(p.ctx, (ast.Store, ast.Del)):
                    return []
                return self.value_sinks(p, False) if nested else [(p, "indexed")]
            return self.value_sinks(p, nested) if isinstance(p.ctx, ast.Load) else []
        if isinstance(p, ast.comprehension):
            if p.iter is v or any(v is s for s in self._sources(p.iter)):
                comp = p._parent
                out = []
                if nested:
                    for t in ast.walk(p.target):
                        if isinstance(t, ast.Name):
                            out.extend(self.comp_name_sinks(t.id, comp))
                return out + ([] if isinstance(comp, ast.SetComp) else self.value_sinks(comp, False))
            return []       # used in a condition
        if isinstance(p, (ast.ListComp, ast.GeneratorExp, ast.SetComp, ast.DictComp)):
            # element expression of a comprehension: the result holds the tainted value
            return self.value_sinks(p, True)
        if isinstance(p, ast.For):
            if p.iter is v:
                out = self.loop_sinks(p)
                if nested:
                    for t in ast.walk(p.target):
                        if isinstance(t, ast.Name):
                            out.extend(self.name_sinks(t.id, p.target, False))
                return out
            return []
        if isinstance(p, ast.NamedExpr):
            return self.name_sinks(p.target.id, p, nested) + self.value_sinks(p, nested)
        if isinstance(p, (ast.Assign, ast.AnnAssign, ast.AugAssign)):
            tgts = p.targets if isinstance(p, ast.Assign) else [p.target]
            out = []
            for t in tgts:
                if isinstance(t, ast.Name):
                    out.extend(self.name_sinks(t.id, p, nested))
                elif isinstance(t, ast.Subscript):
                    out.extend(self.container_sinks(t.value, p, nested=True))
                elif isinstance(t, ast.Attribute):
                    out.append((p, f"stored in .{t.attr}"))
                else:
                    out.append((p, "unpacked into names"))
            return out
        if isinstance(p, (ast.withitem, ast.With)):
            return [(p, "context manager")]
        if isinstance(p, ast.Raise):
            return []
        return [(p, f"used in {type(p).__name__}")]

    def container_sinks(self, recv, at, nested=False):
        """an element was put into the container ``recv`` in tainted order (``nested``: the element itself is an ordered
        value): follow the container"""
        depth = 0
        base = recv
        while isinstance(base, (ast.Subscript, ast.Attribute)) and not (isinstance(base, ast.Attribute) and isinstance(base.value, ast.Name) and base.value.id in ("self", "cls")):
            depth += isinstance(base, ast.Subscript)
            base = base.value
        if isinstance(base, ast.Name) and base.id not in ("self", "cls"):
            return self.name_sinks(base.id, at, nested or depth > 0)
        return [(at, f"stored in {short(recv, 40)}")]

    def name_sinks(self, name, at, nested=False):
        """all reads of a local name that holds an order-tainted value"""
        key = ("name", name, id(self.sc), nested)
        if key in self.seen:
            return []
        self.seen.add(key)
        out = []
        if name in self.sc.params and not self.sc.values(name) and isinstance(at, ast.Call):
            out.append((at, f"the caller's `{name}` is filled in iteration order"))
        inside = {id(x) for x in ast.walk(at)}
        for use in self.sc.loads.get(name, []):
            if id(use) in inside:
                continue
            out.extend(self.value_sinks(use, nested))
        return out

    def comp_name_sinks(self, name, comp):
        out = []
        for use in ast.walk(comp):
            if isinstance(use, ast.Name) and isinstance(use.ctx, ast.Load) and use.id == name:
                out.extend(self.value_sinks(use, False))
        return out

    def loop_sinks(self, loop):
        """effects of a loop whose iteration order is tainted"""
        if id(loop) in self.seen:
            return []
        self.seen.add(id(loop))
        out = []
        stored = set()
        for t in ast.walk(loop.target):
            if isinstance(t, ast.Name):
                stored.add(t.id)
        body = ast.Module(body=list(loop.body) + list(loop.orelse), type_ignores=[])
        for n in ast.walk(body):
            if isinstance(n, ast.Name) and isinstance(n.ctx, ast.Store):
                stored.add(n.id)
        for n in ast.walk(body):
            if isinstance(n, ast.Return):
                if n.value is not None and not isinstance(n.value, ast.Constant) and ({x.id for x in ast.walk(n.value) if isinstance(x, ast.Name)} & stored):
                    out.append((n, "value of one element returned from the loop"))
            elif isinstance(n, (ast.Yield, ast.YieldFrom)):
                out.append((n, "yielded per element"))
            elif isinstance(n, ast.Break):
                if enclosing(n, (ast.For, ast.While)) is loop and self._used_after(loop, stored):
                    out.append((n, "loop left at the first matching element and its value is used afterwards"))
            elif isinstance(n, ast.Expr) and isinstance(n.value, ast.Call):
                c = n.value
                nm = call_name(c)
                if self._diagnostic(c) or nm in ORDER_FREE_EFFECTS:
                    continue
                if isinstance(c.func, ast.Attribute) and nm in SEQ_GROW | {"remove", "pop", "clear", "sort", "reverse"}:
                    if nm in SEQ_GROW:
                        out.extend(self.container_sinks(c.func.value, c))
                    elif nm in ("remove", "clear", "sort"):
                        continue
                    else:
                        out.append((c, f".{nm}() per element"))
                    continue
                out.append((c, f"effect {nm}(..) performed per element"))
            elif isinstance(n, ast.AugAssign):
                t = n.target
                if isinstance(n.op, COMMUTATIVE_AUG) or (isinstance(n.op, ast.Sub)):
                    if isinstance(t, ast.Name) and self._sequence_like(t.id):
                        out.extend(self.name_sinks(t.id, n))
                    continue
                out.append((n, "non-commutative accumulation"))
            elif isinstance(n, ast.Assign):
                for t in n.targets:
                    for x in ast.walk(t):
                        if isinstance(x, ast.Attribute) and isinstance(x.ctx, ast.Store):
                            out.append((n, f"attribute .{x.attr} overwritten per element"))
        # a plain local assigned in the body and read after the loop holds the value of the last element
        last = self._used_after(loop, stored - {x.id for x in ast.walk(loop.target) if isinstance(x, ast.Name)}, plain_only=True)
        if last:
            out.append((loop, f"`{sorted(last)[0]}` holds the value of the last iteration after the loop"))
        return out

    def _sequence_like(self, name):
        for v in self.sc.values(name):
            if isinstance(v, (ast.List, ast.Tuple, ast.ListComp, ast.JoinedStr)) or (isinstance(v, ast.Constant) and isinstance(v.value, str)) \
                    or (isinstance(v, ast.Call) and call_name(v) in ("list", "tuple", "str")):
                return True
        return False

    def _used_after(self, loop, names, plain_only=False):
        """names bound inside the loop that are read after it before any other binding"""
        end = getattr(loop, "end_lineno", loop.lineno)
        inside = {id(x) for x in ast.walk(loop)}
        hit = set()
        for nm in names:
            binds = [b for b in ast.walk(loop) if isinstance(b, ast.Name) and isinstance(b.ctx, ast.Store) and b.id == nm]
            if plain_only:
                binds = [b for b in binds if isinstance(enclosing_stmt(b), (ast.Assign, ast.AnnAssign)) and
                         not isinstance(getattr(b, "_parent", None), ast.comprehension)]
            if not binds:
                continue
            later = min((b.lineno for b in ast.walk(self.sc.fn) if isinstance(b, ast.Name) and isinstance(b.ctx, ast.Store)
                            and b.id == nm and id(b) not in inside and b.lineno > end), default=None)
            for use in self.sc.loads.get(nm, []):
                if id(use) in inside or use.lineno <= end:
                    continue
                if later is None or use.lineno < later or (use.lineno == later and isinstance(enclosing_stmt(use), ast.AugAssign)):
                    hit.add(nm)
        return hit


def _origin(so, src, sc, depth=3):
    """Where the unordered collection comes from: the expression with singly-defined local names resolved, a name with
    several definitions replaced by the origins of its set-valued definitions, the other local names blanked."""
    if isinstance(src, ast.Name) and src.id in so.tainted_dicts(sc) and not so.unordered(src, sc, 3, {id(src)}) is False and depth:
        vals = [v for v in sc.values(src.id) if so.unordered(v, sc, 3)]
        if not vals:
            return "dict filled per element of " + _origin(so, so.tainted_dicts(sc)[src.id], sc, depth - 1)
    if isinstance(src, ast.Call) and isinstance(src.func, ast.Attribute) and src.func.attr in ("items", "keys", "values") \
            and isinstance(src.func.value, ast.Name) and src.func.value.id in so.tainted_dicts(sc) and depth:
        return "dict filled per element of " + _origin(so, so.tainted_dicts(sc)[src.func.value.id], sc, depth - 1)
    if isinstance(src, ast.Name) and len(sc.values(src.id)) > 1 and depth:
        alts = sorted({_origin(so, v, sc, depth - 1) for v in sc.values(src.id) if so.unordered(v, sc, 3)})
        if alts:
            return " | ".join(alts)
    r = sc.defs.resolve(src, depth=4, loops=True)
    vocab = set()
    for n in ast.walk(r):
        if isinstance(n, ast.Attribute):
            vocab.add("." + n.attr)
        elif isinstance(n, ast.Name) and n.id != "__elem__" and (n.id in sc.params or not sc.is_local(n.id)):
            vocab.add(n.id)
    kind = "set display" if isinstance(r, (ast.Set, ast.SetComp)) else "dict" if isinstance(r, (ast.Dict, ast.DictComp)) else \
        (call_name(r) + "()") if isinstance(r, ast.Call) else type(r).__name__
    return f"{kind} over {' '.join(sorted(vocab))}"


def r19a_sets(ctx):
    rule = "R19a"
    so = SetOrder(ctx)
    n_sites = 0
    for ref, fn in ctx.model.all_functions():
        if getattr(fn, "_fn", None) is not None:
            continue
        for src, node, sc in so.sites(fn):
            n_sites += 1
            oref = f"{ref.split(':')[0]}:{sc.fn._qual}"
            origin = _origin(so, src, sc)
            sinks = so.sinks_of_read(src, node, sc)
            frozen = SET_ORDER_FROZEN.get((oref, origin))
            key = f"{oref} {origin}"
            if not sinks:
                ctx.ok(rule, src, f"order of the set `{short(src, 40)}` is not observable: all consumers are order-free", fn=oref, key=key)
            elif frozen:
                ctx.ok(rule, src, f"set `{short(src, 40)}` read in order: triaged - {frozen}", fn=oref, key=key)
            else:
                s, why = sinks[0]
                ctx.bad(rule, src, f"the set `{short(src, 50)}` (origin `{origin}`) is read in iteration order and that order reaches "
                        f"`{short(s, 70)}` ({why}; {len(sinks)} order-sensitive consumer(s)): the result depends on the hash seed",
                        fn=oref, key=f"set order {origin[:60]}")
    ctx.floor(rule, "ordered reads of sets examined", n_sites, 15)


# ====================================================================== R19g
# canonical sort key: decision table over a sample of indices (evaluated, not read)

_SAMPLE_NAMES = {"occ": ("i", "j", "o", "i1", "j1", "i2", "k2", "i10", "j3"), "virt": ("a", "b", "h", "a1", "b1", "a2", "c10"),
                 "general": ("p", "q", "p1", "q2", "p10")}


def _index_obj(name, space, spin, tag):
    o = Obj("indices:Index", f"{name}_{spin}#{tag}")
    o.attrs.update(name=name, space=space, spin=spin, dummy_index=sym(f"dummy#{tag}"), space_and_spin=(space, spin))
    return o


def _expected_key(name, space, spin):
    return (space[0], spin, int(name[1:]) if name[1:] else 0, name[0])


def r19g(ctx):
    rule = "R19g"
    fn = ctx.model.fn("indices:sort_idx_canonical")
    sx = Symex(ctx.model, inline=lambda q: True, what="sort_idx_canonical")
    sample = [(n, sp, s) for sp, names in _SAMPLE_NAMES.items() for n in names for s in ("", "a", "b")]
    keys = {}
    for k, (n, sp, s) in enumerate(sample):
        outs = sx.run(fn, lambda: dict(idx=_index_obj(n, sp, s, k)))
        if len(outs) != 1 or outs[0].kind != "return":
            ctx.bad(rule, fn, f"sort_idx_canonical(Index {n}, {sp}, '{s}') does not return one key: {outs}", key=f"key shape {n} {sp} {s}")
            return
        keys[(n, sp, s)] = outs[0].value
    wrong, tied = [], []
    n_pairs = 0
    for x in sample:
        for y in sample:
            ex, ey = _expected_key(*x), _expected_key(*y)
            if not ex < ey:
                continue
            n_pairs += 1
            try:
                lt = keys[x] < keys[y]
            except TypeError:
                tied.append((x, y))
                continue
            if lt is not True:
                wrong.append((x, y))
    ctx.floor(rule, "ordered pairs of sample indices", n_pairs, 500)
    ctx.check(rule, fn, not wrong, f"{n_pairs} pairs of indices are ordered by (space, spin, number, letter)",
              f"canonical key orders {len(wrong)} of {n_pairs} index pairs differently from (space, spin, number, letter), e.g. "
              f"{wrong[0][0] if wrong else ''} is not sorted before {wrong[0][1] if wrong else ''}: keys "
              f"{show(keys[wrong[0][0]]) if wrong else ''} / {show(keys[wrong[0][1]]) if wrong else ''}", key="key prefix")
    ctx.check(rule, fn, not tied, "space, spin, number and letter decide the order before any tie-break",
              f"{len(tied)} pairs of indices with different (space, spin, number, letter) are only separated by the tie-break "
              f"(e.g. {tied[0][0] if tied else ''} / {tied[0][1] if tied else ''}): their order depends on the creation history",
              key="prefix decides")
    # the tie-break part of an Index key and the key of a non-Index are free of hash()/id() on every path
    bad = []
    for arg in (_index_obj("i3", "occ", "", "t"), sym("X")):
        for o in sx.run(fn, lambda: dict(idx=arg)):
            for c in calls([o.value] + list(o.effects)):
                nm = c.args[0] if c.op == "call" else c.args[1]
                if nm in SEED_CALLS:
                    bad.append(show(c))
    ctx.check(rule, fn, not bad, "evaluated key free of hash()/id()", f"the evaluated sort key contains {bad[:2]}: "
              "it depends on PYTHONHASHSEED / object addresses", key="prefix hash free")


# ====================================================================== R19b
# The derivation layer evaluated with a model of the index registry: generic requests hand out fresh index objects, named
# requests hand out one object per name, every call of an uncached wavefunction method is a distinguishable instance.

GS, IS, SM, PR, OP = dx.GS, dx.IS, dx.SM, dx.PR, dx.OP
UNCACHED = (GS + ".psi", GS + ".overlap", GS + ".norm_factor")
PURE_NUMBER_CALLS = {"Rational", "sqrt", "factorial", "sympify", "len", "Integer", "nsimplify"}
TENSOR_CTORS = ("AntiSymmetricTensor", "SymmetricTensor", "Amplitude", "NonSymmetricTensor")


def is_cached(fn):
    return any(d in CACHE_DECOS for d in common.decorators(fn))


def _split_names(s):
    out = []
    for ch in s:
        if ch.isdigit() and out:
            out[-1] += ch
        elif ch != ",":
            out.append(ch)
    return out


class IndexModel:
    """Reference model of ``Indices``: one object per (name, spin); generic requests never repeat a name."""

    def __init__(self):
        self.n = 0
        self.objs = {}

    def reset(self):
        self.n = 0
        self.objs = {}

    def named(self, name, spin=""):
        space = "occ" if name[0] in "ijklmno" else "virt" if name[0] in "abcdefgh" else "general"
        if (name, spin) not in self.objs:
            o = Obj("indices:Index", name + (f"_{spin}" if spin else ""))
            o.attrs.update(name=name, space=space, spin=spin, space_and_spin=(space, spin))
            self.objs[(name, spin)] = o
        return self.objs[(name, spin)]

    def fresh(self, space, spin=""):
        self.n += 1
        name = {"occ": "i", "virt": "a", "general": "p"}[space] + str(100 + self.n)
        return self.named(name, spin)

    def hooks(self):
        def names_arg(a, kw, pname):
            a = [x for x in a if not isinstance(x, T) and not (isinstance(x, Obj) and x.cls != "indices:Index")]
            v = a[0] if a else kw.get(pname)
            sp = a[1] if len(a) > 1 else kw.get("spins")
            return v, sp

        def get_indices(sx, a, kw):
            ind, spins = names_arg(a, kw, "indices")
            if isinstance(ind, str):
                ind = _split_names(ind)
            if not isinstance(ind, (list, tuple)) or not all(isinstance(x, str) for x in ind):
                return NotImplemented
            ret = {}
            for k, nm in enumerate(ind):
                sp = spins[k] if spins else ""
                sx.effects.append(T("named_request", nm))
                o = self.named(nm, sp)
                ret.setdefault((o.attrs["space"], sp), []).append(o)
            return ret

        def get_symbols(sx, a, kw):
            ind, spins = names_arg(a, kw, "indices")
            if isinstance(ind, Obj):
                return [ind]
            if isinstance(ind, (list, tuple)) and ind and all(isinstance(x, Obj) for x in ind):
                return list(ind)
            if isinstance(ind, str):
                ind = _split_names(ind)
            if not isinstance(ind, (list, tuple)) or not all(isinstance(x, str) for x in ind):
                return NotImplemented
            out = []
            for k, nm in enumerate(ind):
                sx.effects.append(T("named_request", nm))
                out.append(self.named(nm, spins[k] if spins else ""))
            return out

        def get_generic_indices(sx, a, kw):
            ret = {}
            for key, n in kw.items():
                if not isinstance(n, int):
                    return NotImplemented
                if n == 0:
                    continue
                space, _, spin = key.partition("_")
                if space not in ("occ", "virt", "general"):
                    return NotImplemented
                objs = [self.fresh(space, spin) for _ in range(n)]
                for o in objs:
                    sx.effects.append(T("generic_request", o.attrs["name"]))
                ret[(space, spin)] = objs
            return ret

        def generic_indices_from_space(sx, a, kw):
            s = a[0] if a else kw.get("space_str")
            if not isinstance(s, str):
                return NotImplemented
            r = get_generic_indices(sx, [], {"occ": s.count("h"), "virt": s.count("p")})
            return r.get(("occ", ""), []) + r.get(("virt", ""), [])

        return {"get_indices": get_indices, "Indices.get_indices": get_indices, "get_symbols": get_symbols,
                "get_generic_indices": get_generic_indices, "Indices.get_generic_indices": get_generic_indices,
                "generic_indices_from_space": generic_indices_from_space}


def _taylor(order, min_order, tag):
    """What expand_norm_factor / expand_S_taylor hand out: (coefficient, compositions of the order into e parts >= min_order)."""
    if order < min_order:
        return [(1, [(order,)])]
    return [(sym(f"{tag}{e}"), dx.compositions(order, e, lo=min_order)) for e in range(1, order // min_order + 1)]


class DerivEval:
    def __init__(self, ctx):
        self.ctx = ctx
        self.im = IndexModel()
        self.inst = 0
        self.uncached = [r for r in UNCACHED if not is_cached(ctx.model.fn(r))]

    def _fresh_hook(self, ref):
        fn = self.ctx.model.fn(ref)
        name = ref.split(".")[-1]

        def hook(sx, a, kw):
            b = sx.bind(fn, a, kw, False, True, True)
            b.pop("self", None)
            self.inst += 1
            return T("fresh", name, self.inst, tuple((k, _freeze(v)) for k, v in b.items()))
        return hook

    def sx(self, what, scen, variant="pp"):
        hk = self.im.hooks()
        for ref in self.uncached:
            hk[ref.split(":")[1].split(".", 1)[0] + "." + ref.split(".")[-1]] = self._fresh_hook(ref)

        def tay(tag):
            def h(sx, a, kw):
                a = [x for x in a if not isinstance(x, Obj)]
                order = kw.get("order", a[0] if a else None)
                mo = kw.get("min_order", a[1] if len(a) > 1 else 2)
                if not isinstance(order, int) or not isinstance(mo, int):
                    return NotImplemented
                return _taylor(order, mo, tag)
            return h
        hk["expand_norm_factor"] = tay("c")
        hk["expand_S_taylor"] = tay("s")
        sx = dx.make_sx(self.ctx, what, scen, extra_inline={SM + ".block_order", SM + ".max_ptorder_spaces"}, hooks=hk,
                        max_paths=20000)
        base = scen.reset

        def reset(s):
            base(s)
            self.im.reset()
            self.inst = 0
        sx.on_start = reset
        return sx

    def objects(self, scen):
        h, gs, isr = scen.objects()
        sm = Obj(SM, "sm", gs=gs, isr=isr, h=h, indices=Obj("indices:Indices", "sm.indices"))
        pr = Obj(PR, "pr", gs=gs, l_isr=isr, r_isr=isr, l_m=sm, r_m=sm, h=h)
        h.attrs["_indices"] = Obj("indices:Indices", "h.indices")
        return {GS: gs, IS: isr, SM: sm, PR: pr, OP: h}


def _scenarios(tier):
    S = []
    I1, I2, I3 = "k5c5", "l6d6", "k5l5c5d5"
    top = 3 if tier == "quick" else 4
    for o in range(0, top + 1):
        S.append((GS + ".energy", dict(order=o)))
        S.append((GS + ".overlap", dict(order=o)))
        S.append((GS + ".expectation_value", dict(order=o, n_particles=1)))
    for o in range(0, 7 if tier == "quick" else 9):
        S.append((GS + ".norm_factor", dict(order=o)))
        S.append((IS + ".s_root", dict(order=o, block="ph,ph", indices=f"{I1},{I2}")))
    for o in range(1, top + 1):
        S.append((GS + ".psi", dict(order=o, braket="ket")))
        S.append((GS + ".psi", dict(order=o, braket="bra")))
        S.append((GS + ".mp_amplitude", dict(order=o, space="ph", indices=I1)))
        S.append((GS + ".mp_amplitude", dict(order=o, space="pphh", indices=I3)))
        S.append((GS + ".amplitude_residual", dict(order=o, space="pphh", indices=I3)))
    for o in range(0, top + 1):
        for bk in ("bra", "ket"):
            S.append((IS + ".precursor", dict(order=o, space="ph", braket=bk, indices=I1)))
            if o <= (1 if tier == "quick" else 2):
                S.append((IS + ".precursor", dict(order=o, space="pphh", braket=bk, indices=I3)))
            S.append((IS + ".intermediate_state", dict(order=o, space="ph", braket=bk, indices=I1)))
        S.append((IS + ".overlap_precursor", dict(order=o, block="ph,ph", indices=f"{I1},{I2}")))
        S.append((IS + ".overlap_isr", dict(order=o, block="ph,ph", indices=f"{I1},{I2}")))
    S.append((IS + ".amplitude_vector", dict(indices=I1, lr="right")))
    S.append((IS + ".amplitude_vector", dict(indices=I3, lr="left")))
    for o in range(0, 3):
        S.append((SM + ".isr_matrix_block", dict(order=o, block="ph,ph", indices=f"{I1},{I2}", subtract_gs=True)))
        S.append((SM + ".precursor_matrix_block", dict(order=o, block="ph,pphh", indices=f"{I1},l6m6d6e6", subtract_gs=True)))
        S.append((SM + ".mvp_block_order", dict(order=o, space="ph", block="ph,ph", indices=I1, subtract_gs=True)))
        S.append((SM + ".expectation_value_block_order", dict(order=o, block="ph,ph", subtract_gs=True)))
        S.append((SM + ".mvp", dict(adc_order=o, space="ph", indices=I1, order=None, subtract_gs=True)))
        S.append((SM + ".expectation_value", dict(adc_order=o, order=None, subtract_gs=True)))
        S.append((PR + ".expec_block_contribution", dict(order=o, block="ph,ph", n_particles=1, subtract_gs=True)))
        S.append((PR + ".expectation_value", dict(adc_order=o, n_particles=1, order=None, subtract_gs=True)))
        S.append((PR + ".trans_moment_space", dict(order=o, space="ph", n_create=None, n_annihilate=None, lr_isr="left",
                                                  subtract_gs=True)))
        S.append((PR + ".trans_moment", dict(adc_order=o, n_create=None, n_annihilate=None, order=None, lr_isr="left",
                                            subtract_gs=True)))
        S.append((PR + ".operator", dict(order=o, n_create=1, n_annihilate=1, subtract_gs=True)))
    S.append((OP + ".operator", dict(n_create=1, n_annihilate=1)))
    S.append((OP + ".operator", dict(n_create=2, n_annihilate=2)))
    return S


def _carries_indices(f):
    """A factor that stands for an expression with (contracted) indices: contains a call that is not pure arithmetic."""
    for t in subterms(f):
        if t.op == "fresh":
            return True
        if t.op in ("call", "mcall"):
            nm = t.args[0] if t.op == "call" else t.args[1]
            if nm not in PURE_NUMBER_CALLS:
                return True
    return False


def _products(value):
    """Every product that occurs in an evaluated value (also inside the arguments of wicks etc.), fully distributed."""
    v = strip(value, dx.TRANSPARENT_CALLS + ("NO", "Dagger"), dx.TRANSPARENT_MCALLS, dx.TRANSPARENT_ATTRS)
    seen = set()
    for t in subterms(v):
        if t.op in ("mul", "pow") and t not in seen:
            seen.add(t)
            for c, fs in expand_products(t):
                yield fs


def _shared(fs):
    """Index sources that occur more than once in one product: identical index-carrying factors, powers of them and
    instances of uncached wavefunctions that sit in two factors."""
    out = []
    count = {}
    where = {}
    for k, f in enumerate(fs):
        if not isinstance(f, T):
            continue
        if f.op == "pow" and isinstance(f.args[1], int) and f.args[1] >= 2 and _carries_indices(f.args[0]):
            out.append(("power", f))
        if _carries_indices(f):
            count[f] = count.get(f, 0) + 1
        for t in set(x for x in subterms(f) if x.op == "fresh"):
            where.setdefault(t, set()).add(k)
    out.extend(("factor twice", f) for f, c in count.items() if c > 1)
    out.extend(("instance in two factors", t) for t, ks in where.items() if len(ks) > 1 and count.get(t, 0) <= 1)
    return out


def r19b(ctx, tier=None):
    rule = "R19b"
    tier = tier or ctx.tier
    # the wavefunctions / norm factors are requested afresh: no memoising decorator
    for ref in UNCACHED:
        fn = ctx.model.fn(ref)
        m = ref.split(".")[-1]
        ctx.check(rule, fn, not is_cached(fn), f"{m} is not cached",
                  f"GroundState.{m} is cached: repeated factors in one product would share their contracted indices",
                  key=f"{m} uncached")
    de = DerivEval(ctx)
    n_paths = n_prod = 0
    for ref, args in _scenarios(tier):
        fn = ctx.model.fn(ref)
        cls, meth = ref.rsplit(".", 1)
        lab = ref.split(":")[1]
        what = f"{lab}({', '.join(f'{k}={v}' for k, v in args.items() if k in ('order', 'adc_order', 'space', 'block', 'braket'))})"
        scen = dx.Scenario()
        sx = de.sx(what, scen)
        outs = sx.run(fn, lambda: dict(self=de.objects(scen)[cls], **args))
        rets = [o for o in outs if o.kind == "return"]
        if not rets:
            raise AnalysisError(f"R19b: {what} has no returning path ({outs[:2]})")
        supplied = set()
        for v in args.values():
            if isinstance(v, str) and v not in ("bra", "ket", "left", "right") and not set(v) <= set("ph,"):
                supplied.update(_split_names(v))
        shared, foreign, stale = [], [], []
        for o in rets:
            n_paths += 1
            generic = {e.args[0] for e in o.effects if e.op == "generic_request"}
            for e in o.effects:
                if e.op == "named_request" and e.args[0] not in supplied and e.args[0] not in generic:
                    foreign.append(e.args[0])
            for fs in _products(o.value):
                n_prod += 1
                shared.extend(_shared(fs))
            if not is_cached(fn) and meth in ("psi",):
                # every index of a wavefunction comes from the generic pool of this very call
                for t in subterms(o.value):
                    if t.op == "call" and t.args[0] in TENSOR_CTORS:
                        for s in subterms([v for k, v in t.args[2] if k != "name"] + list(t.args[1][1:])):
                            if s.op == "sym" and s.args[0] not in generic and not str(s.args[0]).startswith(("gs", "h", "$")):
                                stale.append(show(s))
        key = f"{lab} {' '.join(str(v) for v in args.values())}"
        kind = shared[0][0] if shared else ""
        ctx.check(rule, fn, not shared, f"{what}: no product contains an index-carrying factor twice",
                  f"{what}: a product contains the same index-carrying object twice ({kind}): {show(shared[0][1])[:300] if shared else ''}"
                  " - both factors are one object with the same contracted indices", key=f"shared {key}")
        if is_cached(fn) or meth == "psi":
            ctx.check(rule, fn, not foreign, f"{what}: named indices are only requested for the caller-supplied strings / generated names",
                      f"{what} requests the literally named indices {sorted(set(foreign))}: every later call returns an expression over the "
                      "same index objects, which collide with these names in the caller's expression", key=f"named {key}")
        if meth == "psi":
            ctx.check(rule, fn, not stale, f"{what}: all tensor indices are drawn from get_generic_indices by this call",
                      f"{what}: tensor indices {sorted(set(stale))} are not generic indices of this request", key=f"psi generic {key}")
    ctx.floor(rule, "evaluated paths of the derivation layer", n_paths, 300)
    ctx.floor(rule, "products examined for shared index sources", n_prod, 1000)


# ---------------------------------------------------------------------- R19c / R19d


def _defaults(ctx):
    cls = ctx.model.cls("tensor_names:TensorNames")
    out = {}
    for n in cls.body:
        if isinstance(n, ast.AnnAssign) and isinstance(n.value, ast.Constant):
            out[U(n.target)] = n.value.value
    if len(out) < 8:
        raise AnalysisError("TensorNames defaults not found")
    return out


def r19c(ctx):
    rule = "R19c"
    defaults = _defaults(ctx)
    vals = set(defaults.values())
    n = 0
    for mname, m in ctx.model.modules.items():
        ctx.model.used_modules.add(mname)
        if mname == "tensor_names":
            continue
        for node in ast.walk(m.tree):
            if isinstance(node, ast.Call) and isinstance(node.func, ast.Name) and node.func.id in c18_ctors() and node.args:
                n += 1
                a0 = node.args[0]
                lit = a0.value if isinstance(a0, ast.Constant) and isinstance(a0.value, str) else None
                if isinstance(a0, ast.JoinedStr) and a0.values and isinstance(a0.values[0], ast.Constant):
                    lit = a0.values[0].value.rstrip("0123456789") or None
                ctx.check(rule, node, not (lit in vals), "tensor name not a hard-coded default",
                          f"`{short(node, 70)}` hard-codes the default name '{lit}' instead of tensor_names.*; with another "
                          "configuration the tensor is no longer recognised", key=f"ctor literal {lit}")
            if isinstance(node, ast.Compare) and len(node.ops) == 1 and isinstance(node.ops[0], (ast.Eq, ast.NotEq, ast.In, ast.NotIn)):
                sides = [node.left] + node.comparators
                names = [s for s in sides if (isinstance(s, ast.Attribute) and s.attr == "name") or (isinstance(s, ast.Name) and s.id in ("name", "t_name"))]
                lits = []
                for s in sides:
                    if isinstance(s, ast.Constant) and isinstance(s.value, str):
                        lits.append(s.value)
                    elif isinstance(s, (ast.List, ast.Tuple, ast.Set)):
                        lits += [e.value for e in s.elts if isinstance(e, ast.Constant) and isinstance(e.value, str)]
                if names and lits:
                    n += 1
                    bad = [x for x in lits if x in vals and x not in ("a",)]
                    ctx.check(rule, node, not bad, "name comparison not against a hard-coded default",
                              f"`{U(node)}` compares a tensor name with the hard-coded default {bad}", key=f"cmp literal {bad}")
    ctx.floor(rule, "constructor/comparison sites examined", n, 40)
    # positive fixture
    fix = ast.parse("x = AntiSymmetricTensor('V', u, l)")
    c = fix.body[0].value
    if not (isinstance(c.args[0], ast.Constant) and c.args[0].value in vals):
        raise AnalysisError("R19c fixture")


def c18_ctors():
    return ("AntiSymmetricTensor", "SymmetricTensor", "Amplitude", "NonSymmetricTensor")


# ====================================================================== R19c (registry look-ups) / R19d


def _self_args(fn, mod):
    cls = getattr(fn, "_cls", None)

    def make():
        d = {}
        a = fn.args
        for p in a.posonlyargs + a.args + a.kwonlyargs:
            if p.arg in ("self", "cls") and cls:
                d[p.arg] = Obj(f"{mod}:{cls}", "self")
            else:
                d[p.arg] = sym(p.arg)
        return d
    return make


def r19h(ctx):
    """look-ups in the registry of intermediates (keyed by default names) use default names"""
    rule = "R19c"
    n = 0
    for ref, fn in ctx.model.all_functions():
        if getattr(fn, "_fn", None) is not None:
            continue
        if not any(isinstance(x, ast.Attribute) and x.attr == "available" for x in walk_fn(fn)):
            continue
        mod = ref.split(":")[0]
        sx = Symex(ctx.model, inline=lambda q: False, what=ref, max_paths=4096)
        outs = sx.run(fn, _self_args(fn, mod))
        keys = set()
        for o in outs:
            for t in subterms(list(o.effects) + [o.value] + [a for a, _ in o.path]):
                k = None
                if t.op == "mcall" and t.args[1] in ("get", "pop", "__getitem__", "__contains__") and t.args[2]:
                    recv, k = t.args[0], t.args[2][0]
                elif t.op == "item":
                    recv, k = t.args[0], t.args[1]
                elif t.op == "cmp" and t.args[0] in ("in", "not in"):
                    recv, k = t.args[2], t.args[1]
                if k is None or not isinstance(recv, T):
                    continue
                if not any(s.op == "attr" and s.args[1] == "available" for s in subterms(recv)):
                    continue
                for c in subterms(k):
                    if c.op == "mcall" and c.args[1] == "longname":
                        keys.add(c)
        for c in sorted(keys, key=show):
            n += 1
            flag = args_of(c).get("use_default_names", args_of(c).get(0))
            ctx.check(rule, fn, flag is True, f"{ref.split(':')[1]}: intermediates looked up by their default long name",
                      f"`{show(c)}` is used as key of the registry of intermediates, which is keyed by default names; looking up the "
                      "configured long name misses every intermediate as soon as tensor_names.json renames amplitudes/densities",
                      fn=ref, key=f"lookup {ref}")
    ctx.floor(rule, "registry look-ups by long name", n, 3)


def _deco_call(cls, name):
    for d in cls.decorator_list:
        f = d.func if isinstance(d, ast.Call) else d
        if (isinstance(f, ast.Name) and f.id == name) or (isinstance(f, ast.Attribute) and f.attr == name):
            return d
    return None


def r19d(ctx):
    rule = "R19d"
    cls = ctx.model.cls("tensor_names:TensorNames")
    mod = ctx.model.module("tensor_names")
    sx = Symex(ctx.model, inline=lambda q: False, what="TensorNames")
    sx.frames, sx.module, sx.prefix, sx.decisions, sx.facts, sx.path, sx.effects, sx.steps, sx.depth = [{}], mod, [], [], {}, [], [], 0, 0
    d = _deco_call(cls, "dataclass")
    opts = {}
    if isinstance(d, ast.Call):
        for k in d.keywords:
            if k.arg is not None:
                opts[k.arg] = sx.ev(k.value)
    ctx.check(rule, cls, d is not None and opts.get("frozen") is True and opts.get("slots") is True,
              "TensorNames is a frozen slotted dataclass", f"TensorNames is declared with dataclass options {opts}: its fields can be "
              "rebound at run time", key="frozen")
    meta = [sx.ev(k.value) for k in cls.keywords if k.arg == "metaclass"]
    ctx.check(rule, cls, len(meta) == 1 and isinstance(meta[0], (ClassRef, Ext)) and repr(meta[0]).rstrip(">").split()[-1].split(".")[-1] == "Singleton",
              "TensorNames is a singleton", "TensorNames lost the Singleton metaclass", key="singleton")
    inst = sx.global_name(mod, "tensor_names")
    ok = isinstance(inst, T) and inst.op == "call" and inst.args[0] in ("_from_config", "TensorNames._from_config") and not args_of(inst)
    n_bind = sum(1 for st in mod.tree.body for t in (st.targets if isinstance(st, ast.Assign) else [st.target] if isinstance(st, (ast.AnnAssign, ast.AugAssign)) else [])
                 for x in ast.walk(t) if isinstance(x, ast.Name) and x.id == "tensor_names")
    ctx.check(rule, mod.tree, ok and n_bind == 1, "one instance built from the config file",
              f"the module level instance is {show(inst)} (bound {n_bind} times)", key="instance")
    fc = ctx.model.fn("tensor_names:TensorNames._from_config")
    outs = Symex(ctx.model, inline=lambda q: False, what="_from_config").run(fc, lambda: {})
    ok = len(outs) == 1 and outs[0].kind == "return"
    v = outs[0].value if ok else None
    a = args_of(v) if isinstance(v, T) and v.op == "call" and v.args[0] == "TensorNames" else None
    src = a.get("**") if a else None
    loads = [c for c in calls(src)] if src is not None else []
    ok = a is not None and set(a) == {"**"} and any((c.args[0] if c.op == "call" else c.args[1]) in ("load", "json.load", "loads") for c in loads)
    ctx.check(rule, fc, ok, "all fields taken from the JSON file", f"_from_config returns {show(v)}: not TensorNames(**<loaded json>)",
              key="from config")
    df = ctx.model.fn("tensor_names:TensorNames.defaults")

    def fields_hook(s, a_, kw_):
        out = []
        for nm in ("eri", "gs_amplitude", "orb_energy"):
            f = Obj(None, "field_" + nm)
            f.attrs.update(name=nm, default=sym("default_" + nm))
            out.append(f)
        return out
    outs = Symex(ctx.model, inline=lambda q: False, what="defaults", hooks={"fields": fields_hook}).run(df, lambda: {})
    want = {nm: sym("default_" + nm) for nm in ("eri", "gs_amplitude", "orb_energy")}
    ok = len(outs) == 1 and outs[0].kind == "return" and outs[0].value == want
    ctx.check(rule, df, ok, "defaults read from the field table", f"defaults() returns {show(outs[0].value) if outs else '?'} for the fields "
              "eri, gs_amplitude, orb_energy; expected their default values by name", key="defaults")
    # no store on the instance anywhere in the package
    n = 0
    for mname, m in ctx.model.modules.items():
        ctx.model.used_modules.add(mname)
        aliases = {loc for loc, origin in m.imports.items() if origin.endswith(":tensor_names") and "tensor_names" in origin.split(":")[0]}
        if mname == "tensor_names":
            aliases.add("tensor_names")

        def is_inst(e):
            return (isinstance(e, ast.Name) and e.id in aliases) or \
                (isinstance(e, ast.Attribute) and e.attr == "tensor_names" and isinstance(e.value, (ast.Name, ast.Attribute)) and
                 (e.value.id if isinstance(e.value, ast.Name) else e.value.attr) == "tensor_names")
        for node in ast.walk(m.tree):
            tgt = []
            if isinstance(node, ast.Assign):
                tgt = node.targets
            elif isinstance(node, (ast.AugAssign, ast.AnnAssign)):
                tgt = [node.target]
            elif isinstance(node, ast.Delete):
                tgt = node.targets
            for t in tgt:
                for x in ast.walk(t):
                    if isinstance(x, ast.Attribute) and isinstance(x.ctx, (ast.Store, ast.Del)) and is_inst(x.value):
                        n += 1
                        ctx.bad(rule, node, f"`{short(node, 60)}` changes a configured tensor name at run time", key=f"store .{x.attr}")
            if isinstance(node, ast.Call) and call_name(node) in ("__setattr__", "setattr", "__delattr__", "delattr") and \
                    any(is_inst(a) for a in node.args[:2]):
                n += 1
                ctx.bad(rule, node, f"`{short(node, 60)}` rebinds a field of the TensorNames instance", key="setattr")
    if not n:
        ctx.ok(rule, None, "no attribute store on tensor_names in the package", fn="package", key="no store")


# ---------------------------------------------------------------------- R19f


def _mutable_return(fn):
    for r in common.returns_of(fn):
        v = r.value
        if isinstance(v, (ast.Dict, ast.List, ast.Set, ast.DictComp, ast.ListComp, ast.SetComp)):
            return True
        if isinstance(v, ast.Call) and call_name(v) in ("Expr", "LazyTermMap", "dict", "list", "set", "defaultdict"):
            return True
        if isinstance(v, ast.Name):
            for a in common.assigns_to(fn, v.id):
                val = getattr(a, "value", None)
                if isinstance(val, (ast.Dict, ast.List, ast.Set, ast.DictComp, ast.ListComp, ast.SetComp)):
                    return True
                if isinstance(val, ast.Call) and call_name(val) in ("Expr", "LazyTermMap", "dict", "list", "set", "defaultdict"):
                    return True
    return False


def r19f(ctx):
    rule = "R19f"
    cached = {}
    for ref, fn in ctx.model.all_functions():
        decos = common.decorators(fn)
        if any(d in CACHE_DECOS for d in decos) and _mutable_return(fn):
            cached.setdefault(fn.name, []).append((ref, "cached_property" in decos))
    ctx.floor(rule, "cached methods with mutable results", len(cached), 6)
    n_sites = 0
    for ref, fn in ctx.model.all_functions():
        if getattr(fn, "_fn", None) is not None:
            continue
        for a in walk_fn(fn):
            if not (isinstance(a, ast.Assign) and len(a.targets) == 1 and isinstance(a.targets[0], ast.Name)):
                continue
            v = a.value
            src = None
            if isinstance(v, ast.Call) and isinstance(v.func, ast.Attribute) and v.func.attr in cached \
                    and not any(p for _, p in cached[v.func.attr]):
                src = v.func.attr
            elif isinstance(v, ast.Attribute) and v.attr in cached and any(p for _, p in cached[v.attr]):
                src = v.attr
            if src is None:
                continue
            name = a.targets[0].id
            n_sites += 1
            scope = enclosing(a, FuncNode) or fn
            bad = None
            for m in ast.walk(scope):
                if getattr(m, "lineno", 0) <= a.lineno:
                    continue
                if isinstance(m, ast.Call) and isinstance(m.func, ast.Attribute) and isinstance(m.func.value, ast.Name) \
                        and m.func.value.id == name and m.func.attr in MUTATORS:
                    bad = m
                if isinstance(m, (ast.Assign, ast.AugAssign)):
                    ts = m.targets if isinstance(m, ast.Assign) else [m.target]
                    for t in ts:
                        if isinstance(t, ast.Subscript) and isinstance(t.value, ast.Name) and t.value.id == name:
                            bad = m
                        if isinstance(m, ast.AugAssign) and isinstance(t, ast.Name) and t.id == name:
                            bad = m
                if isinstance(m, ast.Assign) and any(isinstance(t, ast.Name) and t.id == name for t in m.targets):
                    break  # re-bound
            ctx.check(rule, a, bad is None, f"{ref.split(':')[1]}: value of cached `{src}` only read",
                      f"`{name}` holds the object handed out by the cache of `{src}`; `{short(bad, 60) if bad is not None else ''}` "
                      "mutates it, so every later caller sees the modified value", fn=ref, key=f"{name} <- {src}")
    ctx.floor(rule, "uses of cached mutable values examined", n_sites, 5)
    # the derivation layer hands out immutable sympy objects
    for mod in ("groundstate", "intermediate_states", "secular_matrix", "properties"):
        for q, fn in ctx.model.module(mod).functions.items():
            if any(d in CACHE_DECOS for d in common.decorators(fn)):
                ctx.check(rule, fn, not _mutable_return(fn), f"{q}: cached result is an immutable sympy object",
                          f"{q} caches and returns a mutable container", fn=f"{mod}:{q}", key=f"{q} immutable")



def run(ctx):
    if ctx.want("R19g"):
        r19g(ctx)
    if ctx.want("R19c"):
        r19c(ctx)
        r19h(ctx)
    if ctx.want("R19d"):
        r19d(ctx)
    if ctx.want("R19e") or ctx.want("R08c"):
        c08.r08c(ctx)
    if ctx.want("R19a"):
        r19a_keys(ctx)
        r19a_sets(ctx)
    if ctx.want("R19b"):
        r19b(ctx)
    if ctx.want("R08d"):
        c08.r08d(ctx)
    if ctx.want("R19f"):
        r19f(ctx)


def run_thorough(ctx):
    if ctx.want("R19b"):
        r19b(ctx, "thorough")
