"""
C20 / defect 1: simplify_unitary(..., evaluate_deltas=True) looses the
dimension of the space when the generated delta carries two contracted
indices that occur nowhere else (only possible with provided target indices):
    sum_{pqr} U_pq U_pr Y_i = sum_{qr} delta_qr Y_i = N * Y_i
but the library returns Y_i.
Run from the worktree root: /venv/bin/python hunt_out/1/demo.py
"""
import sys
import os
import itertools
sys.path.insert(0, os.getcwd())

from sympy import Mul, Pow, Rational, S, Add  # noqa: E402
from adcgen.simplify import simplify_unitary  # noqa: E402
from adcgen.sympy_objects import NonSymmetricTensor as T  # noqa: E402
from adcgen.expr_container import Expr  # noqa: E402
from adcgen.indices import get_symbols  # noqa: E402

DIM = 2  # number of orbitals per space


# --- independent brute-force evaluation (no adcgen logic involved) ---------
def factors(term):
    res = []
    for f in Mul.make_args(term):
        if isinstance(f, Pow) and f.exp.is_Integer:
            res.append((f.base, int(f.exp)))
        else:
            res.append((f, 1))
    return res


def value(expr, targets, assignment, tensors):
    """sum over the terms; in each term all non-target indices are summed"""
    total = S.Zero
    for term in Add.make_args(expr):
        idx = sorted({s for o, _ in factors(term) if not o.is_number
                      for s in o.idx}, key=str)
        contracted = [s for s in idx if s not in targets]
        for vals in itertools.product(range(DIM), repeat=len(contracted)):
            asg = dict(assignment)
            asg.update(zip(contracted, vals))
            prod = S.One
            for o, n in factors(term):
                if o.is_number:
                    prod *= o**n
                elif type(o).__name__ == "KroneckerDelta":
                    a, b = o.idx
                    prod *= 1 if asg[a] == asg[b] else 0
                else:
                    prod *= tensors[o.name][tuple(asg[s] for s in o.idx)]**n
            total += prod
    return total


# orthogonal 2x2 matrix (rotation with cos = 3/5, sin = 4/5)
c, s = Rational(3, 5), Rational(4, 5)
tensors = {
    "U": {(0, 0): c, (0, 1): -s, (1, 0): s, (1, 1): c},
    "X": {(0,): Rational(2), (1,): Rational(-7, 3)},
    "Y": {(0,): Rational(5, 2), (1,): Rational(3)},
}

i, j, k, l = get_symbols("ijkl")
U = lambda *idx: T("U", idx)  # noqa: E731
X = lambda *idx: T("X", idx)  # noqa: E731
Y = lambda *idx: T("Y", idx)  # noqa: E731

cases = [
    # (description, sympy expression, provided target indices)
    ("sum_jkl U_jk U_jl Y_i (target i)", U(j, k) * U(j, l) * Y(i), [i]),
    ("X_i + sum_jkl U_jk U_jl Y_i (target i)",
     X(i) + U(j, k) * U(j, l) * Y(i), [i]),
    ("2 sum_ijk U_ij U_ik  = 2 tr(U^T U) (scalar, no target)",
     2 * U(i, j) * U(i, k), []),
    ("sum U_ij U_ik U_lj U_lk / 3 = tr(U^T U U^T U) / 3 (scalar, no target)",
     U(i, j) * U(i, k) * U(l, j) * U(l, k) / 3, []),
]

failed = False
for descr, sym, target in cases:
    expr = Expr(sym, target_idx=target)
    plain = simplify_unitary(expr, "U")
    evaluated = simplify_unitary(expr, "U", evaluate_deltas=True)
    for vals in itertools.product(range(DIM), repeat=len(target)):
        asg = dict(zip(target, vals))
        ref = value(expr.sympy, target, asg, tensors)
        v_plain = value(plain.sympy, target, asg, tensors)
        v_eval = value(evaluated.sympy, target, asg, tensors)
        if ref != v_plain or ref != v_eval:
            failed = True
            print(f"MISMATCH  {descr}, targets {asg}")
            print(f"   input                          : {expr}  = {ref}")
            print(f"   simplify_unitary               : {plain}  = {v_plain}")
            print(f"   simplify_unitary(eval. deltas) : {evaluated}  = "
                  f"{v_eval}")
if failed:
    print("DEFECT: evaluating the generated delta changed the value")
    sys.exit(1)
print("OK: all values preserved")
sys.exit(0)
