"""A3: path conditions (guard dominance) by a syntax-directed walk.

``conditions(node)`` returns the atoms known to hold on every path that
reaches ``node`` inside its function: tests of enclosing ``if``/``while``/
conditional expressions/comprehension filters/short-circuit operators,
negated tests of earlier ``elif`` arms, ``assert`` statements and negated
tests of preceding early exits (``if c: continue|break|return|raise``).

Atoms are ``(text, polarity)`` with the text of the *positive* form of the
test (``a in b`` for ``a not in b``; ``a == b`` for ``a != b``; ``a is b`` for
``a is not b``; ``x`` for ``not x``) after optional alias expansion.
A condition is dropped when one of its names is re-bound between the test
and the node (so a stale guard never counts).
"""
from __future__ import annotations

import ast

from .model import (U, FuncNode, always_exits, stored_names, names_in,
                    stmt_lists)


_POS = {ast.NotIn: ast.In, ast.NotEq: ast.Eq, ast.IsNot: ast.Is}


def atoms(test, pol: bool = True, resolve=None) -> list[tuple[str, bool]]:
    """Decompose a test into atoms that are known given ``test == pol``."""
    out: list[tuple[str, bool]] = []
    if isinstance(test, ast.UnaryOp) and isinstance(test.op, ast.Not):
        return atoms(test.operand, not pol, resolve)
    if isinstance(test, ast.BoolOp):
        if isinstance(test.op, ast.And) and pol:
            for v in test.values:
                out += atoms(v, True, resolve)
            return out
        if isinstance(test.op, ast.Or) and not pol:
            for v in test.values:
                out += atoms(v, False, resolve)
            return out
        # a disjunction that is true / conjunction that is false: keep whole
        return [(_txt(test, resolve), pol)]
    if isinstance(test, ast.NamedExpr):
        return atoms(test.value, pol, resolve) + [(_txt(test.target, resolve), pol)]
    if isinstance(test, ast.Compare) and len(test.ops) == 1:
        op = test.ops[0]
        if type(op) in _POS:
            pos = ast.Compare(left=test.left, ops=[_POS[type(op)]()],
                              comparators=test.comparators)
            return [(_txt(pos, resolve), not pol)]
    return [(_txt(test, resolve), pol)]


def _txt(node, resolve) -> str:
    if resolve is not None:
        node = resolve(node)
    return U(node)


def _rebound_between(stmts, names: set[str]) -> bool:
    for s in stmts:
        if stored_names(s) & names:
            return True
    return False


def raw_conditions(node, stop=None) -> list[tuple[ast.AST, bool]]:
    """List of (test, polarity) that hold at ``node`` (innermost last)."""
    conds: list[tuple[ast.AST, bool]] = []
    child = node
    parent = getattr(node, "_parent", None)
    while parent is not None and child is not stop:
        # ---------------------------------------------------------- expressions
        if isinstance(parent, ast.IfExp):
            if child is parent.body:
                conds.append((parent.test, True))
            elif child is parent.orelse:
                conds.append((parent.test, False))
        elif isinstance(parent, ast.BoolOp):
            k = next((i for i, v in enumerate(parent.values) if v is child), 0)
            for v in parent.values[:k]:
                conds.append((v, isinstance(parent.op, ast.And)))
        elif isinstance(parent, (ast.ListComp, ast.SetComp, ast.GeneratorExp,
                                 ast.DictComp)):
            gens = parent.generators
            if child in gens:
                k = gens.index(child)
                for g in gens[:k]:
                    for t in g.ifs:
                        conds.append((t, True))
            else:
                for g in gens:
                    for t in g.ifs:
                        conds.append((t, True))
        elif isinstance(parent, ast.comprehension):
            if child in parent.ifs:
                k = parent.ifs.index(child)
                for t in parent.ifs[:k]:
                    conds.append((t, True))
        # ----------------------------------------------------------- statements
        if isinstance(parent, (ast.If, ast.While)) and child is not parent.test:
            in_body = any(child is s for s in parent.body)
            in_else = any(child is s for s in parent.orelse)
            lst = parent.body if in_body else parent.orelse
            k = next((i for i, s in enumerate(lst) if s is child), 0)
            names = names_in(parent.test)
            if not _rebound_between(lst[:k], names):
                if in_body:
                    conds.append((parent.test, True))
                elif in_else and isinstance(parent, ast.If):
                    conds.append((parent.test, False))
        if isinstance(child, ast.stmt):
            for _, lst in stmt_lists(parent) if not isinstance(
                    parent, ast.Module) else [("body", parent.body)]:
                idx = next((i for i, s in enumerate(lst) if s is child), None)
                if idx is None:
                    continue
                for j in range(idx - 1, -1, -1):
                    s = lst[j]
                    between = lst[j + 1:idx]
                    if isinstance(s, ast.Assert):
                        if not _rebound_between(between, names_in(s.test)):
                            conds.append((s.test, True))
                    elif isinstance(s, ast.If):
                        body_exit = always_exits(s.body)
                        else_exit = bool(s.orelse) and always_exits(s.orelse)
                        # names re-bound inside the surviving arm also stale it
                        survivors = (s.orelse if body_exit else s.body)
                        stale = _rebound_between(
                            list(between) + list(survivors), names_in(s.test))
                        if body_exit and not else_exit and not stale:
                            conds.append((s.test, False))
                        elif else_exit and not body_exit and not stale:
                            conds.append((s.test, True))
                break
        if isinstance(parent, FuncNode + (ast.Lambda,)):
            break
        child, parent = parent, getattr(parent, "_parent", None)
    conds.reverse()
    return conds


def conditions(node, resolve=None, stop=None) -> set[tuple[str, bool]]:
    out: set[tuple[str, bool]] = set()
    for test, pol in raw_conditions(node, stop):
        out.update(atoms(test, pol, resolve))
    return out


def holds(conds: set[tuple[str, bool]], text: str, pol: bool = True) -> bool:
    return (text, pol) in conds


def holds_any(conds, texts, pol: bool = True) -> bool:
    return any((t, pol) in conds for t in texts)


def sym_eq_texts(a: str, b: str) -> list[str]:
    return [f"{a} == {b}", f"{b} == {a}"]
