#!/usr/bin/env python3
"""False-alarm measurement: applies behaviour-preserving refactorings (patch files) to a scratch
worktree of /repo's HEAD, runs every check (quick tier, no evidence written) against the scratch
tree, and prints which rules fire.  Any VIOLATION or ANALYSIS-ERROR here is a false alarm of the
machinery (the refactoring passes the suite and preserves behaviour).
Usage: tools/refac_eval.py [--props=C03,C04] [--thorough] [<patch.diff>...]   (default: every refactors/*/patch.diff;
scratch worktree under /tmp, removed afterwards)"""
import os
import subprocess
import sys
import tempfile
from concurrent.futures import ThreadPoolExecutor

HERE = os.path.dirname(os.path.dirname(os.path.abspath(__file__)))
REPO = "/repo"
PROPS = [f"C{n:02d}" for n in range(1, 21)]


def sh(*a, **k):
    return subprocess.run(a, capture_output=True, text=True, **k)


def run_prop(prop, tree, tier):
    c = sh("/venv/bin/python", "-m", "sa.main", prop, "--tier", tier, "--repo", tree, cwd=HERE,
           env={**os.environ, "PYTHONDONTWRITEBYTECODE": "1", "VERIF_NO_EVIDENCE": "1", "VERIF_NO_WITNESS": "1", "PYTHONHASHSEED": "0"})
    lines = [ln for ln in c.stdout.splitlines() + c.stderr.splitlines()
             if " rule=" in ln or "ANALYSIS-ERROR" in ln or "VIOLATION" in ln]
    return prop, c.returncode, lines


def main():
    tier = "quick"
    patches = [a for a in sys.argv[1:] if not a.startswith("--")]
    props = PROPS
    for a in sys.argv[1:]:
        if a.startswith("--props="):
            props = a.split("=", 1)[1].upper().split(",")
    if not patches:
        import glob
        patches = sorted(glob.glob(os.path.join(HERE, "refactors", "*", "patch.diff")))
    if "--thorough" in sys.argv:
        tier = "thorough"
    tree = tempfile.mkdtemp(prefix="refac_eval_", dir="/tmp")
    os.rmdir(tree)
    assert sh("git", "-C", REPO, "worktree", "add", "--detach", tree, "HEAD").returncode == 0
    bad = 0
    md = []
    try:
        for p in patches:
            r = sh("git", "-C", tree, "apply", p)
            if r.returncode != 0:
                print(p, "PATCH-DOES-NOT-APPLY", r.stderr.strip()[:200])
                continue
            try:
                with ThreadPoolExecutor(16) as ex:
                    res = list(ex.map(lambda pr: run_prop(pr, tree, tier), props))
                alarms = [(pr, rc, ls) for pr, rc, ls in res if rc != 0]
                rid = os.path.basename(os.path.dirname(p))
                note = os.path.join(os.path.dirname(p), "note.txt")
                files = sorted({ln[6:].strip() for ln in open(p) if ln.startswith("+++ b/")})
                md.append((rid, ", ".join(f.replace("adcgen/", "") for f in files),
                           " ".join(open(note).read().split())[:260] if os.path.exists(note) else "",
                           "SILENT" if not alarms else "ALARM " + ", ".join(f"{pr} exit {rc}" for pr, rc, _ in alarms)))
                if not alarms:
                    print(p, "SILENT")
                else:
                    bad += 1
                    print(p, "FALSE-ALARM")
                    for pr, rc, ls in alarms:
                        print("   ", pr, "exit", rc)
                        for ln in ls[:12]:
                            print("       ", ln[:400])
            finally:
                sh("git", "-C", tree, "checkout", "--", ".")
    finally:
        sh("git", "-C", REPO, "worktree", "remove", "--force", tree)
    print(f"{len(patches)} refactorings, {bad} with alarms")
    if "--md" in sys.argv:
        lines = ["The entries `RN_<name>` are mechanical: one private name (underscore function, cached property) renamed "
                 "consistently in the whole package (the suite passes with all of them applied together). "
                 "Every other refactoring was written by an independent sub-agent that saw only the library (its own scratch worktree), was "
                 "asked for behaviour-preserving edits of the functions the rules inspect, ran the 127 tests and differential runs "
                 "with each patch, and knew nothing about /verif. `tools/refac_eval.py` applies each patch to a scratch worktree of "
                 f"/repo's HEAD and runs all {len(props)} checks ({tier} tier) against it; any VIOLATION or ANALYSIS-ERROR is a false alarm.",
                 "", "| refactoring | files | what was changed | verdict of all checks |", "|---|---|---|---|"]
        for r in md:
            lines.append("| " + " | ".join(r) + " |")
        lines += ["", f"{len(md)} refactorings evaluated, {bad} with alarms."]
        open(os.path.join(HERE, "refactors", "RESULTS.md"), "w").write("\n".join(lines) + "\n")


if __name__ == "__main__":
    main()
