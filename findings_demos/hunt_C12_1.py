"""
Expanding an intermediate that sits inside a polynomial with an integer
exponent > 1, e.g. (p2_ij + X_ij)^2, re-uses the contracted indices of the
definition of the intermediate for all factors of the power.

Run from the worktree root:  /venv/bin/python hunt_out/1/demo.py
exit code 1: defect present, 0: fixed
"""
import os
import sys
sys.path.insert(0, os.getcwd())

from fractions import Fraction  # noqa E402
from itertools import product  # noqa E402
import random  # noqa E402

import adcgen  # noqa E402
from adcgen.expr_container import Expr  # noqa E402
from adcgen.indices import get_symbols, Index  # noqa E402
from adcgen.sympy_objects import (  # noqa E402
    AntiSymmetricTensor, NonSymmetricTensor, Amplitude
)
from sympy import Add, Mul, Pow, S  # noqa E402

print("using", adcgen.__file__)

# ---------------------------------------------------------------------------
# a tiny numeric model: 3 occupied (0, 1, 2) and 2 virtual (3, 4) spin orbitals,
# random antisymmetric first order doubles amplitudes and a random matrix X
NO, NV = 3, 2
rng = random.Random(1)
OCC, VIRT = range(NO), range(NO, NO + NV)
t_data = {}
for i, j in product(OCC, repeat=2):
    for a, b in product(VIRT, repeat=2):
        if i < j and a < b:
            val = Fraction(rng.randint(1, 9), rng.randint(1, 5))
            for (x, y, s1) in ((i, j, 1), (j, i, -1)):
                for (c, d, s2) in ((a, b, 1), (b, a, -1)):
                    t_data[(x, y, c, d)] = s1 * s2 * val
x_data = {(i, j): Fraction(rng.randint(-5, 5), rng.randint(1, 3))
          for i, j in product(OCC, repeat=2)}


def t(i, j, a, b):
    return t_data.get((i, j, a, b), Fraction(0))


def p2_oo(i, j):
    """the quantity the intermediate p0_2_oo names (real orbitals)"""
    return -Fraction(1, 2) * sum(t(i, k, a, b) * t(j, k, a, b)
                                 for k in OCC for a in VIRT for b in VIRT)


def evaluate(expr, target, values):
    """
    brute force evaluation of a sympy expression that consists of t1
    amplitudes, the tensor X and numbers. All indices that are no target
    indices are summed in each term (after expanding all brackets).
    """
    expr = S(expr).expand()
    res = Fraction(0)
    for term in Add.make_args(expr):
        contracted = sorted((s for s in term.atoms(Index) if s not in target),
                            key=str)
        ranges = [OCC if s.space == "occ" else VIRT for s in contracted]
        for combo in product(*ranges):
            env = dict(zip(target, values))
            env.update(zip(contracted, combo))
            val = Fraction(1)
            for fac in Mul.make_args(term):
                base, exp = fac.as_base_exp()
                if base.is_number:
                    v = Fraction(int(base.p), int(base.q))
                elif isinstance(base, Amplitude):
                    v = t(*[env[s] for s in base.lower],
                          *[env[s] for s in base.upper])
                elif isinstance(base, NonSymmetricTensor):
                    v = x_data[tuple(env[s] for s in base.idx)]
                else:
                    raise TypeError(f"unexpected object {fac}")
                val *= v ** int(exp)
            res += val
    return res


# ---------------------------------------------------------------------------
i, j = get_symbols("ij")
p2 = AntiSymmetricTensor("p2", (i,), (j,), 1)   # tensor of p0_2_oo
X = NonSymmetricTensor("X", (i, j))

failed = False
for fully_expand in (False,):
    # (p2_ij + X_ij)^2 with the target indices i and j
    expr = Expr(Pow(p2 + X, 2), target_idx="ij")
    expanded = expr.copy().expand_intermediates(fully_expand=fully_expand)
    print("\ninput:    ", expr)
    print("expanded: ", expanded)
    for vals in product(OCC, repeat=2):
        expected = (p2_oo(*vals) + x_data[vals]) ** 2
        got = evaluate(expanded.sympy, (i, j), vals)
        state = "ok" if got == expected else "WRONG"
        print(f"  (i, j) = {vals}:  expected {expected}   got {got}   {state}")
        if got != expected:
            failed = True

    # second, purely symbolic, way to compute the same thing: expanding the
    # square before the intermediates are expanded
    other = expr.copy().expand().expand_intermediates(
        fully_expand=fully_expand
    )
    for vals in product(OCC, repeat=2):
        a = evaluate(expanded.sympy, (i, j), vals)
        b = evaluate(other.sympy, (i, j), vals)
        if a != b:
            print(f"  (i, j) = {vals}: expand_intermediates().expand() = {a} "
                  f"!= expand().expand_intermediates() = {b}")
            failed = True

if failed:
    print("\nDEFECT: the factors of the power share the contracted indices "
          "of the intermediate definition.")
    sys.exit(1)
print("\nall fine")
sys.exit(0)
