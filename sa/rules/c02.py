"""C02 ground-state perturbation theory (structural clauses)."""
from __future__ import annotations

import ast
from fractions import Fraction

from ..model import (AnalysisError, U, Defs, calls_in, call_name, walk_fn, kwarg, enclosing,
                     enclosing_stmt, short)
from ..pathcond import conditions
from . import common, deriv

EXPLANATION = (
    "D1: every gen_term_orders split in groundstate.py is linear (each order component enters "
    "exactly one order-parametrised factor per product; split order is the function's order or a "
    "component of an enclosing split; min_order 0 except frozen reasons) and the implicit splits "
    "operator-order + wavefunction-order = n hold in energy/mp_amplitude/amplitude_residual. "
    "D2: in every product handed to wicks bra factors stand left of the operator and ket factors "
    "right, deltas are evaluated and the block rules bound together with the operator are passed. "
    "D3: restriction-lifting prefactors of GroundState.psi (1/(n!)^2 with n = slice bound of both "
    "index groups) and Operators.operator (1/(n_c! n_a!) with the slice bounds of its index "
    "groups); Hamiltonian formula table (mp_h0, mp_h1, re_h0, re_h1) incl. 1/4 for two index "
    "pairs, sign of the one-particle part, operator order Fd Fd F(s) F(r); RE block rules of H0 "
    "and H1 partition the canonical blocks. R02a: doubles sign convention agrees between psi, "
    "mp_amplitude (denominator and energy term) and amplitude_residual. R02b: amplitude "
    "existence guard agrees between the two amplitude builders and psi. R02c: Taylor "
    "coefficients f^(k)(0)/k! of (1+x)^-1 and (1+x)^-1/2 built by sibling code; element-wise "
    "consumption in norm_factor.")
ASSUMPTIONS = [
    "agreement of derived expressions with explicit RSPT is not decided",
    "callees are resolved by method name inside the four derivation modules",
]

GS = "groundstate:GroundState."


def r_implicit_split(ctx):
    """operator order + ket wavefunction order == order"""
    rule = "D1"
    for meth in ("energy", "mp_amplitude", "amplitude_residual"):
        fn = ctx.model.fn(GS + meth)
        defs = Defs(fn)
        cl = deriv.Classifier(fn)
        n = 0
        for c in calls_in(fn):
            if call_name(c) != "wicks":
                continue
            for prod in deriv._products_for(c, fn):
                fs = deriv.flatten_mult(prod)
                kinds = [cl.classify(f) for f in fs]
                if "op" not in kinds or "ket" not in kinds:
                    continue
                op = fs[kinds.index("op")]
                ket = fs[kinds.index("ket")]
                pst = enclosing_stmt(prod)

                def value_of(node):
                    if isinstance(node, ast.Name):
                        live = deriv.reaching_assignments(fn, node.id, pst)
                        if len(live) != 1:
                            raise AnalysisError(f"implicit split: `{node.id}` in {meth} has {len(live)} reaching definitions")
                        a = live[0]
                        if isinstance(a.targets[0], ast.Tuple):
                            return a.value  # (h, rules) = X
                        return a.value
                    return node

                def cases(opv, ketv):
                    """yield (cond, op_order, ket_order_text)"""
                    if isinstance(opv, ast.IfExp) or isinstance(ketv, ast.IfExp):
                        t = opv.test if isinstance(opv, ast.IfExp) else ketv.test
                        for pol in (True, False):
                            o = (opv.body if pol else opv.orelse) if isinstance(opv, ast.IfExp) and U(opv.test) == U(t) else opv
                            k = (ketv.body if pol else ketv.orelse) if isinstance(ketv, ast.IfExp) and U(ketv.test) == U(t) else ketv
                            yield (U(t), pol), o, k
                    else:
                        yield None, opv, ketv
                for cond, o, k in cases(value_of(op), value_of(ket)):
                    ot = U(o)
                    oo = 0 if ot.endswith(".h0") else 1 if ot.endswith(".h1") else None
                    ko = kwarg(k, "order", 0) if isinstance(k, ast.Call) else None
                    kt = U(ko).replace(" ", "") if ko is not None else "?"
                    if cond == ("order == 0", True):
                        total_ok = oo == 0 and kt in ("0", "order")
                    else:
                        total_ok = (oo == 0 and kt == "order") or (oo == 1 and kt == "order-1")
                    n += 1
                    ctx.check(rule, prod, total_ok,
                              f"{meth}: H{oo} with psi({kt}) adds up to `order`" + (f" under {cond}" if cond else ""),
                              f"{meth}: operator `{ot}` (order {oo}) is combined with the ket wavefunction of order "
                              f"`{kt}`; the orders do not add up to `order`", key=f"{meth} implicit {ot} {kt}")
                    # zeroth-order bra for energies / determinants
                bra = fs[kinds.index("bra")] if "bra" in kinds else None
                if meth == "energy" and bra is not None:
                    bv = value_of(bra)
                    ctx.check(rule, prod, isinstance(bv, ast.Call) and U(kwarg(bv, "order", 0)) == "0",
                              "energy: zeroth-order bra", "energy: bra is not the zeroth-order wavefunction",
                              key="energy bra")
        ctx.floor(rule, f"implicit splits in {meth}", n, 1 if meth != "amplitude_residual" else 2)


# ---------------------------------------------------------------------- D3 psi / operator


def d3_psi(ctx):
    rule = "D3"
    fn = ctx.model.fn(GS + "psi")
    loops = [n for n in walk_fn(fn) if isinstance(n, ast.For)]
    ctx.floor(rule, "excitation loop in psi", len(loops), 1)
    lp = loops[0]
    x = U(lp.target)
    ctx.check(rule, lp, U(lp.iter).replace(" ", "") in ("range(1,order*2+1)", "range(1,2*order+1)"),
              "excitation classes 1..2n", f"excitation classes iterate `{U(lp.iter)}`", key="psi range")
    defs = Defs(fn)
    amp = [c for c in calls_in(lp) if call_name(c) == "Amplitude"]
    ctx.floor(rule, "Amplitude in psi", len(amp), 1)
    a = amp[0]
    groups = [defs.resolve(a.args[1]), defs.resolve(a.args[2])]
    bounds = []
    for g in groups:
        if isinstance(g, ast.Subscript) and isinstance(g.slice, ast.Slice) and g.slice.lower is None and g.slice.upper is not None:
            bounds.append(U(g.slice.upper))
        else:
            bounds.append("?")
    ctx.check(rule, a, bounds == [x, x], f"both index groups have `{x}` entries",
              f"index groups of the amplitude are sliced with {bounds}, not with the excitation rank `{x}`",
              key="psi slices")
    up, lo = U(groups[0]), U(groups[1])
    ctx.check(rule, a, "'virt'" in up and "'occ'" in lo, "amplitude: virtual upper, occupied lower",
              f"amplitude index groups are upper={up}, lower={lo}", key="psi upper lower")
    pref = [n for n, kind, args in deriv._lifting_prefactors(fn, defs)]
    prs = [c for c in calls_in(lp) if call_name(c) == "Rational"]
    ok = len(prs) == 1 and U(prs[0]).replace(" ", "") in (f"Rational(1,factorial({x})**2)",
                                                           f"Rational(1,factorial({x})*factorial({x}))")
    ctx.check(rule, prs[0] if prs else lp, ok, f"lifting prefactor 1/({x}!)^2",
              f"lifting prefactor is `{U(prs[0]) if prs else None}`, expected 1/({x}!)^2 for the two groups of `{x}` "
              "summed indices", key="psi prefactor")
    ops = [c for c in calls_in(lp) if call_name(c) == "excitation_operator"]
    ctx.floor(rule, "excitation operator in psi", len(ops), 1)
    o = ops[0]
    cr, an = defs.resolve(kwarg(o, "creation", 0)), defs.resolve(kwarg(o, "annihilation", 1))
    ctx.check(rule, o, U(cr) == up and U(an) == lo and U(kwarg(o, "reverse_annihilation", 2)) == "True",
              "operators carry the amplitude's indices (a+ b+ j i)",
              "creation/annihilation operators of the wavefunction do not carry the indices of the amplitude",
              key="psi operators")
    dag = [c for c in calls_in(lp) if call_name(c) == "Dagger"]
    ctx.check(rule, lp, len(dag) == 1 and ("braket == 'bra'", True) in conditions(dag[0]),
              "bra: adjoint operator string", "bra wavefunction does not take the adjoint operator string", key="psi dagger")
    ccs = [n for n in walk_fn(fn) if isinstance(n, ast.AugAssign) and U(n.target) == "tensor_name"]
    ctx.check(rule, fn, len(ccs) == 1 and U(ccs[0].value) == "'cc'" and ("braket == 'bra'", True) in conditions(ccs[0]),
              "bra amplitudes are complex conjugates", "bra amplitude name is not marked 'cc' exactly for the bra",
              key="psi cc")
    # generic indices: 2*order per space
    gi = [c for c in calls_in(fn) if call_name(c) == "get_generic_indices"]
    ok = len(gi) == 1 and {k.arg: U(k.value).replace(" ", "") for k in gi[0].keywords} in (
        {"occ": "2*order", "virt": "2*order"}, {"occ": "order*2", "virt": "order*2"})
    ctx.check(rule, fn, ok, "fresh generic indices for every call", "psi does not request 2*order fresh occ and virt indices",
              key="psi generic")
    z = [r for r in common.returns_of(fn) if ("order == 0", True) in conditions(r)]
    ctx.check(rule, fn, len(z) == 1 and U(z[0].value) == "sympify(1)", "zeroth order: 1", "zeroth-order wavefunction is not 1",
              key="psi zeroth")


def d3_operator(ctx):
    rule = "D3"
    fn = ctx.model.fn("operators:Operators.operator")
    defs = Defs(fn)
    pr = [c for c in calls_in(fn) if call_name(c) == "Rational"]
    ok = len(pr) == 1 and U(pr[0]).replace(" ", "") in (
        "Rational(1,factorial(n_create)*factorial(n_annihilate))", "Rational(1,factorial(n_annihilate)*factorial(n_create))")
    ctx.check(rule, pr[0] if pr else fn, ok, "operator prefactor 1/(n_c! n_a!)",
              f"operator prefactor `{U(pr[0]) if pr else None}` is not 1/(n_create! n_annihilate!)", key="operator prefactor")
    t = [c for c in calls_in(fn) if call_name(c) == "AntiSymmetricTensor"]
    ctx.floor(rule, "tensor in Operators.operator", len(t), 1)
    up, lo = defs.resolve(t[0].args[1]), defs.resolve(t[0].args[2])

    def sl(n):
        if isinstance(n, ast.Subscript) and isinstance(n.slice, ast.Slice):
            return (U(n.slice.lower) if n.slice.lower else None, U(n.slice.upper) if n.slice.upper else None)
        return ("?", "?")
    ctx.check(rule, t[0], sl(up) == (None, "n_create") and sl(lo) == ("n_create", None),
              "index groups partition the generic indices at n_create",
              f"operator index groups are sliced {sl(up)} / {sl(lo)}", key="operator slices")
    gi = [c for c in calls_in(fn) if call_name(c) == "get_generic_indices"]
    ok = len(gi) == 1 and {k.arg: U(k.value).replace(" ", "") for k in gi[0].keywords} in (
        {"general": "n_create+n_annihilate"}, {"general": "n_annihilate+n_create"})
    ctx.check(rule, fn, ok, "n_c + n_a fresh general indices", "operator does not request n_create+n_annihilate general indices",
              key="operator generic")
    o = [c for c in calls_in(fn) if call_name(c) == "excitation_operator"]
    ok = len(o) == 1 and U(defs.resolve(kwarg(o[0], "creation", 0))) == U(up) \
        and U(defs.resolve(kwarg(o[0], "annihilation", 1))) == U(lo) and U(kwarg(o[0], "reverse_annihilation", 2)) == "True"
    ctx.check(rule, fn, ok, "operator string carries the tensor's indices, annihilators reversed",
              "operator string does not carry the indices of the operator matrix (creators upper, annihilators lower "
              "reversed)", key="operator string")
    ret = common.returns_of(fn)
    ok = len(ret) == 1 and isinstance(ret[0].value, ast.Tuple) and sorted(U(f) for f in deriv.flatten_mult(ret[0].value.elts[0])) \
        == ["d", "op", "pref"] and U(ret[0].value.elts[1]) == "None"
    ctx.check(rule, fn, ok, "pref * d * op", f"operator returns `{U(ret[0].value) if ret else None}`", key="operator product")
    # excitation_operator itself
    eo = ctx.model.fn("operators:Operators.excitation_operator")
    muls = [c for c in calls_in(eo) if call_name(c) == "Mul"]
    kinds = []
    for m in muls:
        g = m.args[0].value if m.args and isinstance(m.args[0], ast.Starred) else None
        if isinstance(g, (ast.ListComp, ast.GeneratorExp)):
            kinds.append((call_name(g.elt), U(g.generators[0].iter)))
    ctx.check(rule, eo, kinds == [("Fd", "get_symbols(creation)"), ("F", "get_symbols(annihilation)")],
              "creators (Fd) left of annihilators (F)", f"excitation_operator builds {kinds}", key="excitation order")
    rev = [n for n in walk_fn(eo) if isinstance(n, ast.Assign) and U(n.targets[0]) == "annihilation"]
    ok = len(rev) == 1 and ("reverse_annihilation", True) in conditions(rev[0]) and \
        U(rev[0].value).replace(" ", "") in ("[annihilation[i]foriinrange(len(annihilation)-1,-1,-1)]",
                                             "annihilation[::-1]", "list(reversed(annihilation))")
    ctx.check(rule, eo, ok, "annihilators reversed on request", "reversal of the annihilation operators changed",
              key="excitation reverse")


# ---------------------------------------------------------------------- Hamiltonian formulas


def _term_list(fn, expr, defs):
    """flatten +/- sum of products into [(coeff Fraction, [factor texts])]"""
    out = []

    def walk(n, sign):
        if isinstance(n, ast.BinOp) and isinstance(n.op, ast.Add):
            walk(n.left, sign)
            walk(n.right, sign)
        elif isinstance(n, ast.BinOp) and isinstance(n.op, ast.Sub):
            walk(n.left, sign)
            walk(n.right, -sign)
        elif isinstance(n, ast.UnaryOp) and isinstance(n.op, ast.USub):
            walk(n.operand, -sign)
        else:
            coeff = Fraction(sign)
            facs = []
            for f in deriv.flatten_mult(n):
                if isinstance(f, ast.UnaryOp) and isinstance(f.op, ast.USub):
                    coeff = -coeff
                    f = f.operand
                r = defs.resolve(f)
                if isinstance(r, ast.Call) and call_name(r) == "Rational":
                    coeff *= Fraction(int(U(r.args[0])), int(U(r.args[1])))
                elif isinstance(r, ast.Constant) and isinstance(r.value, int):
                    coeff *= r.value
                else:
                    for g in deriv.flatten_mult(r):
                        facs.append(U(g))
            out.append((coeff, facs))
    walk(expr, 1)
    return out


class _IdxDefs(Defs):
    """index variables are atoms: the k-th index unpacked from get_indices(..)
    is named p,q,r,s by position, the generic occupied one `occ`"""

    def single(self, name, loops=False):
        v = super().single(name, loops)
        if v is None:
            return None
        t = U(v)
        if "get_generic_indices(" in t:
            return ast.Name("occ", ast.Load())
        if "get_indices(" in t and isinstance(v, ast.Subscript) and isinstance(v.slice, ast.Constant):
            return ast.Name("pqrs"[v.slice.value], ast.Load())
        return v


def r_hamiltonians(ctx):
    rule = "R02d"
    F1 = ["AntiSymmetricTensor(tensor_names.fock, (p,), (q,))", "Fd(p)", "F(q)"]
    V1 = ["AntiSymmetricTensor(tensor_names.eri, (p, occ), (q, occ))", "Fd(p)", "F(q)"]
    V2 = ["AntiSymmetricTensor(tensor_names.eri, (p, q), (r, s))", "Fd(p)", "Fd(q)", "F(s)", "F(r)"]
    full = sorted([(Fraction(1), F1), (Fraction(-1), V1), (Fraction(1, 4), V2)], key=str)
    want = {"mp_h0": [(Fraction(1), F1)],
            "mp_h1": sorted([(Fraction(-1), V1), (Fraction(1, 4), V2)], key=str),
            "re_h0": full, "re_h1": full}
    for name, w in want.items():
        fn = ctx.model.fn(f"operators:Operators.{name}")
        defs = Defs(fn)
        ret = common.returns_of(fn)
        if len(ret) != 1 or not isinstance(ret[0].value, ast.Tuple):
            raise AnalysisError(f"{name}: return shape changed")
        hexpr = defs.resolve(ret[0].value.elts[0], depth=1)
        got = sorted(_term_list(fn, hexpr, _IdxDefs(fn)), key=str)
        ctx.check(rule, fn, got == sorted(w, key=str), f"{name}: {len(w)} term(s) as in the second-quantised Hamiltonian",
                  f"{name}: Hamiltonian terms are {[(str(c), f) for c, f in got]}; expected "
                  f"{[(str(c), f) for c, f in w]}", key=f"{name} formula")
        # general indices p q r s, fresh occupied index for the one-particle part
        gi = [c for c in calls_in(fn) if call_name(c) == "get_indices"]
        ok = len(gi) == 1 and U(gi[0].args[0]).strip("'\"") in ("pq", "pqrs")
        ctx.check(rule, fn, ok, f"{name}: general summation indices", f"{name}: operator indices are not p,q(,r,s)",
                  key=f"{name} indices")
        if name != "mp_h0":
            occ = [c for c in calls_in(fn) if call_name(c) == "get_generic_indices"]
            ok = len(occ) == 1 and [(k.arg, U(k.value)) for k in occ[0].keywords] == [("occ", "1")]
            ctx.check(rule, fn, ok, f"{name}: fresh occupied index in -<pi||qi>", f"{name}: no fresh occupied index",
                      key=f"{name} occ index")
        rules = ret[0].value.elts[1]
        if name.startswith("mp"):
            ctx.check(rule, fn, U(rules) == "None", f"{name}: no block rules", f"{name}: unexpected rules", key=f"{name} rules")
    # RE rules: H0 and H1 partition the canonical blocks
    blocks = {}
    for name in ("re_h0", "re_h1"):
        fn = ctx.model.fn(f"operators:Operators.{name}")
        rc = [c for c in calls_in(fn) if call_name(c) == "Rules"]
        if len(rc) != 1:
            raise AnalysisError(f"{name}: Rules(...) construction not found")
        d = kwarg(rc[0], "forbidden_tensor_blocks", 0)
        if not isinstance(d, ast.Dict):
            raise AnalysisError(f"{name}: forbidden blocks are not a dict display")
        blocks[name] = {U(k): sorted(ast.literal_eval(v)) for k, v in zip(d.keys, d.values)}
        ret = common.returns_of(fn)[0]
        ctx.check(rule, fn, U(Defs(fn).resolve(ret.value.elts[1])) == U(rc[0]), f"{name}: rules returned",
                  f"{name}: the rules object is not returned with the operator", key=f"{name} rules returned")
    all_f = {"oo", "ov", "vo", "vv"}
    can = {a + b for a in ("oo", "ov", "vv") for b in ("oo", "ov", "vv")}
    for key, universe in (("tensor_names.fock", all_f), ("tensor_names.eri", can)):
        a = set(blocks["re_h0"].get(key, []))
        b = set(blocks["re_h1"].get(key, []))
        fn = ctx.model.fn("operators:Operators.re_h0")
        ctx.check(rule, fn, a | b == universe and not (a & b),
                  f"{key}: every canonical block belongs to exactly one of H0/H1",
                  f"{key}: forbidden blocks of H0 {sorted(a)} and H1 {sorted(b)} do not partition {sorted(universe)} "
                  f"(in both: {sorted(universe - (a | b))}, in neither: {sorted(a & b)})", key=f"re partition {key}")
    ctx.check(rule, ctx.model.fn("operators:Operators.re_h0"),
              set(blocks["re_h0"].get("tensor_names.fock", [])) == {"ov", "vo"}
              and set(blocks["re_h0"].get("tensor_names.eri", [])) == {"ooov", "oovv", "ovvv", "ovoo", "vvoo", "vvov"},
              "RE H0 keeps the excitation-class-conserving blocks", "RE H0 block rules changed", key="re h0 blocks")
    # dispatch
    for prop, table in (("h0", {"'mp'": "self.mp_h0()", "'re'": "self.re_h0()"}),
                        ("h1", {"'mp'": "self.mp_h1()", "'re'": "self.re_h1()"})):
        fn = ctx.model.fn(f"operators:Operators.{prop}")
        got = {}
        for r in common.returns_of(fn):
            for t, pol in conditions(r):
                if pol and t.startswith("self._variant == "):
                    got[t.split("== ")[1]] = U(r.value)
        ctx.check(rule, fn, got == table, f"{prop}: variant dispatch", f"{prop}: variant dispatch is {got}", key=f"{prop} dispatch")


# ---------------------------------------------------------------------- R02a/b


def _sign_split(ctx, fn, test_texts, acc, what, meth):
    """`if <rank 2>: acc += X else: acc -= X`"""
    augs = [n for n in walk_fn(fn) if isinstance(n, ast.AugAssign) and U(n.target) == acc
            and isinstance(n.op, (ast.Add, ast.Sub))]
    seen = {}
    for a in augs:
        cs = conditions(a)
        for t in test_texts:
            if (t, True) in cs:
                seen[("rank2", type(a.op).__name__)] = a
            elif (t, False) in cs:
                seen[("other", type(a.op).__name__)] = a
    return seen


def r02a(ctx):
    rule = "R02a"
    psi = ctx.model.fn(GS + "psi")
    s = _sign_split(ctx, psi, ["excitation == 2"], "psi", "wavefunction", "psi")
    ctx.check(rule, psi, set(s) == {("rank2", "Sub"), ("other", "Add")},
              "psi: doubles subtracted, every other class added",
              f"psi: sign convention is {sorted(s)}; doubles must be subtracted and all other classes added",
              key="psi signs")
    if ("rank2", "Sub") in s and ("other", "Add") in s:
        ctx.check(rule, psi, U(s[("rank2", "Sub")].value) == U(s[("other", "Add")].value),
                  "same term in both branches", "the two sign branches add different terms", key="psi same term")
    for meth, acc in (("mp_amplitude", "ret"), ("amplitude_residual", "res")):
        fn = ctx.model.fn(GS + meth)
        s = _sign_split(ctx, fn, ["n_ov['occ'] == 2"], acc, "energy term", meth)
        s = {k: v for k, v in s.items() if "contrib" in U(v.value)}
        ctx.check(rule, fn, set(s) == {("rank2", "Add"), ("other", "Sub")},
                  f"{meth}: E*t added for doubles, subtracted otherwise",
                  f"{meth}: sign of the energy-times-amplitude term is {sorted(s)}; it must be + for doubles and - "
                  "otherwise (doubles are subtracted in psi)", key=f"{meth} energy sign")
        # amplitude in the energy term: upper virtual, lower occupied, name from the configured prefix
        amps = [c for c in calls_in(fn) if call_name(c) == "Amplitude"]
        defs = Defs(fn)
        for a in amps:
            up, lo = U(defs.resolve(a.args[1])), U(defs.resolve(a.args[2]))
            ctx.check(rule, a, "'virt'" in up and "'occ'" in lo, f"{meth}: amplitude virtual upper / occupied lower",
                      f"{meth}: amplitude built with upper={up}, lower={lo}", key=f"{meth} amplitude groups")
        bra = [c for c in calls_in(fn) if call_name(c) == "excitation_operator"]
        for b in bra:
            cr, an = U(defs.resolve(kwarg(b, "creation", 0))), U(defs.resolve(kwarg(b, "annihilation", 1)))
            ctx.check(rule, b, "'occ'" in cr and "'virt'" in an and U(kwarg(b, "reverse_annihilation", 2)) == "True",
                      f"{meth}: projection on <Phi_k| = i+ j+ b a", f"{meth}: bra determinant built from creation={cr}, "
                      f"annihilation={an}", key=f"{meth} bra determinant")
    # denominators of mp_amplitude
    fn = ctx.model.fn(GS + "mp_amplitude")
    facs = {}
    for n in walk_fn(fn):
        if isinstance(n, ast.Assign) and U(n.targets[0]) in ("occ_factor", "virt_factor"):
            cs = conditions(n)
            which = "rank2" if ("len(lower) == 2", True) in cs else "other" if ("len(lower) == 2", False) in cs else "?"
            facs[(U(n.targets[0]), which)] = U(n.value).replace("+", "")
    want = {("occ_factor", "rank2"): "-1", ("virt_factor", "rank2"): "1", ("occ_factor", "other"): "1",
            ("virt_factor", "other"): "-1"}
    ctx.check(rule, fn, facs == want, "denominator e_v - e_o for doubles, e_o - e_v otherwise",
              f"denominator factors are {facs}; expected {want}", key="denominator factors")
    loops = [n for n in walk_fn(fn) if isinstance(n, ast.For) and isinstance(n.body[0], ast.AugAssign)
             and U(n.body[0].target) == "denom"]
    got = {U(l.iter): U(l.body[0].value) for l in loops if isinstance(l.body[0].op, ast.Add)}
    v = U(loops[0].target) if loops else "s"
    ctx.check(rule, fn, got == {"lower": f"occ_factor * orb_energy({v})", "upper": f"virt_factor * orb_energy({v})"},
              "denominator sums occupied (lower) and virtual (upper) orbital energies",
              f"denominator loops are {got}", key="denominator loops")
    lo = [a for a in common.assigns_to(fn, "lower")]
    up = [a for a in common.assigns_to(fn, "upper")]
    ctx.check(rule, fn, len(lo) == 1 and "'occ'" in U(lo[0].value) and len(up) == 1 and "'virt'" in U(up[0].value),
              "lower = occupied, upper = virtual targets", "lower/upper target groups changed", key="lower upper")
    ret = common.returns_of(fn)[-1]
    ctx.check(rule, ret, U(ret.value) == "ret / denom", "result divided by the denominator once",
              f"mp_amplitude returns `{U(ret.value)}`", key="division")
    z = [a for a in common.assigns_to(fn, "denom") if isinstance(a, ast.Assign)]
    ctx.check(rule, fn, len(z) == 1 and U(z[0].value) == "0", "denominator starts at 0", "denominator not initialised with 0",
              key="denom init")


def r02b(ctx):
    rule = "R02b"
    texts = {}
    for meth in ("mp_amplitude", "amplitude_residual"):
        fn = ctx.model.fn(GS + meth)
        conts = [n for n in walk_fn(fn) if isinstance(n, ast.Continue)]
        ctx.floor(rule, f"skip sites in {meth}", len(conts), 1)
        for c in conts:
            iff = c._parent
            lp = enclosing(c, ast.For)
            comps = [U(e) for e in lp.target.elts] if isinstance(lp.target, ast.Tuple) else []
            # the amplitude order is the component used in the amplitude name
            name_defs = [a for a in common.assigns_to(fn, "name") if isinstance(a.value, ast.JoinedStr)]
            amp_o = None
            for a in name_defs:
                for v in a.value.values:
                    if isinstance(v, ast.FormattedValue) and U(v.value) in comps:
                        amp_o = U(v.value)
            if amp_o is None:
                raise AnalysisError(f"{meth}: amplitude order component not found")
            t = U(iff.test).replace(amp_o, "<t>")
            texts[meth] = t
            want = "n_ov['occ'] > 2 * <t> or (n_ov['occ'] == 1 and <t> == 1 and (not self.singles))"
            ctx.check(rule, iff, t == want, f"{meth}: amplitude of order <t> skipped iff it does not exist",
                      f"{meth}: existence guard is `{U(iff.test)}`; an amplitude t_k^(m) exists unless rank > 2m or "
                      "(singles, first order, no first-order singles) - and the tested order must be the amplitude's",
                      key=f"{meth} guard")
        early = [r for r in common.returns_of(fn) if U(r.value) == "0"]
        ok = any(("n_ov['occ'] > 2 * order", True) in conditions(r) for r in early)
        ctx.check(rule, fn, ok, f"{meth}: class absent at this order gives 0", f"{meth}: early exit for absent classes changed",
                  key=f"{meth} absent")
    if len(texts) == 2:
        fn = ctx.model.fn(GS + "amplitude_residual")
        ctx.check(rule, fn, len(set(texts.values())) == 1, "both amplitude builders use the same existence guard",
                  f"existence guards differ: {texts}", key="guard agreement")
    psi = ctx.model.fn(GS + "psi")
    conts = [n for n in walk_fn(psi) if isinstance(n, ast.Continue)]
    ok = len(conts) == 1 and U(conts[0]._parent.test) == "order == 1 and (not self.singles) and (excitation == 1)"
    ctx.check(rule, psi, ok, "psi omits exactly the first-order singles when not requested",
              "psi skips amplitude classes under a different condition", key="psi singles")
    amp = ctx.model.fn(GS + "amplitude")
    got = {}
    for r in common.returns_of(amp):
        for t, pol in conditions(r):
            if pol and t.startswith("variant == "):
                got[t.split("== ")[1]] = call_name(r.value) if isinstance(r.value, ast.Call) else U(r.value)
    ctx.check(rule, amp, got == {"'mp'": "mp_amplitude", "'re'": "amplitude_residual"}, "amplitude dispatch mp/re",
              f"amplitude dispatch is {got}", key="amplitude dispatch")


# ---------------------------------------------------------------------- R02c


def taylor_builder(ctx, rule, fnref, exponent):
    fn = ctx.model.fn(fnref)
    lab = fnref.split(":")[1]
    body = common.strip_docstring(fn.body)
    f0 = [a for a in common.assigns_to(fn, "f") if enclosing(a, ast.For) is None]
    ok = len(f0) == 1 and U(f0[0].value).replace(" ", "") in (f"(1+x)**{exponent}", f"(1+x)**({exponent})")
    ctx.check(rule, fn, ok, f"{lab}: f = (1+x)^{exponent}", f"{lab}: expanded function is `{U(f0[0].value) if f0 else None}`",
              key=f"{lab} function")
    loops = [n for n in body if isinstance(n, ast.For)]
    if len(loops) != 1:
        raise AnalysisError(f"{lab}: Taylor loop not found")
    lp = loops[0]
    e = U(lp.target)
    ctx.check(rule, lp, U(lp.iter).replace(" ", "") == "range(1,order//min_order+1)", f"{lab}: exponents 1..order//min_order",
              f"{lab}: exponents iterate `{U(lp.iter)}`", key=f"{lab} range")
    stm = [U(s).replace(" ", "") for s in lp.body]
    want = ["f=diff(f,x)", f"pref=nsimplify(f.subs(x,0)/factorial({e}),rational=True)",
            f"orders=gen_term_orders(order=order,term_length={e},min_order=min_order)", "ret.append((pref,orders))"]
    ctx.check(rule, lp, stm == want, f"{lab}: coefficient f^(k)(0)/k! paired with the k-fold order compositions",
              f"{lab}: loop body is {stm}", key=f"{lab} body")
    low = [r for r in common.returns_of(fn) if ("order < min_order", True) in conditions(r)]
    ctx.check(rule, fn, len(low) == 1 and U(low[0].value) == "[(1, [(order,)])]", f"{lab}: below min_order the bare order",
              f"{lab}: low-order shortcut changed", key=f"{lab} low")
    last = common.returns_of(fn)[-1]
    ctx.check(rule, fn, U(last.value) == "ret", f"{lab}: list returned", f"{lab}: returns `{U(last.value)}`", key=f"{lab} ret")


def taylor_consumer(ctx, rule, fnref, callee, init_ok=("pref",)):
    """for pref, termlist in T: for term in termlist: i1 = pref; for o in term: i1 *= callee(order=o,...)"""
    fn = ctx.model.fn(fnref)
    lab = fnref.split(":")[1]
    inner = [n for n in walk_fn(fn) if isinstance(n, ast.For) and isinstance(enclosing(n, ast.For), ast.For)
             and isinstance(enclosing(enclosing(n, ast.For), ast.For), ast.For)]
    ctx.floor(rule, f"element loop in {lab}", len(inner), 1)
    lo = inner[0]
    mid = enclosing(lo, ast.For)
    out = enclosing(mid, ast.For)
    o = U(lo.target)
    ok = U(lo.iter) == U(mid.target) and isinstance(out.target, ast.Tuple) and U(mid.iter) == U(out.target.elts[1])
    ctx.check(rule, lo, ok, f"{lab}: every order of every composition of every Taylor term",
              f"{lab}: Taylor list is not consumed element-wise", key=f"{lab} loops")
    muls = [n for n in lo.body if isinstance(n, ast.AugAssign) and isinstance(n.op, ast.Mult)]
    ok = len(muls) == 1 and isinstance(muls[0].value, ast.Call) and call_name(muls[0].value) == callee \
        and U(kwarg(muls[0].value, "order", 0)) == o
    ctx.check(rule, lo, ok, f"{lab}: one factor {callee}(order={o}) per element",
              f"{lab}: element loop does not multiply exactly one {callee}(order={o})", key=f"{lab} factor")
    acc = U(muls[0].target) if muls else "i1"
    init = [s for s in mid.body if isinstance(s, ast.Assign) and U(s.targets[0]) == acc]
    ctx.check(rule, mid, len(init) == 1 and U(init[0].value) == U(out.target.elts[0]),
              f"{lab}: product starts with the Taylor coefficient", f"{lab}: product does not start with the coefficient",
              key=f"{lab} init")
    adds = [s for s in mid.body if isinstance(s, ast.AugAssign) and isinstance(s.op, ast.Add) and acc in U(s.value)]
    ctx.check(rule, mid, len(adds) == 1, f"{lab}: each product added once", f"{lab}: products are not added exactly once",
              key=f"{lab} add")
    return fn, lo, mid, out


def r02c(ctx):
    rule = "R02c"
    taylor_builder(ctx, rule, GS + "expand_norm_factor", "-1.0")
    taylor_consumer(ctx, rule, GS + "norm_factor", "overlap")
    nf = ctx.model.fn(GS + "norm_factor")
    c = [c for c in calls_in(nf) if call_name(c) == "expand_norm_factor"]
    ok = len(c) == 1 and U(kwarg(c[0], "order", 0)) == "order" and U(kwarg(c[0], "min_order", 1)) == "2"
    ctx.check(rule, nf, ok, "norm factor: expansion in S(i>=2)", "norm_factor calls expand_norm_factor with other arguments",
              key="norm_factor call")
    a = ctx.model.fn(GS + "expand_norm_factor")
    b = ctx.model.fn("intermediate_states:IntermediateStates.expand_S_taylor")
    ta = [U(s).replace("-1.0", "<E>") for s in common.strip_docstring(a.body)]
    tb = [U(s).replace("-0.5", "<E>") for s in common.strip_docstring(b.body)]
    norm = lambda L: [t for t in L if not t.startswith("from sympy import")]  # noqa: E731
    ctx.check(rule, b, norm(ta) == norm(tb), "the two Taylor builders differ only in the exponent",
              "expand_norm_factor and expand_S_taylor no longer share one shape", key="taylor siblings")
    ov = ctx.model.fn(GS + "overlap")
    z = [r for r in common.returns_of(ov) if ("order == 0", True) in conditions(r)]
    ctx.check(rule, ov, len(z) == 1 and U(z[0].value) == "sympify(1)", "overlap(0) = 1", "zeroth-order overlap is not 1",
              key="overlap zeroth")


def run(ctx):
    if ctx.want("D1"):
        deriv.d1(ctx, "D1", "groundstate", 6)
        r_implicit_split(ctx)
    if ctx.want("D2"):
        deriv.d2(ctx, "D2", "groundstate", 6)
    if ctx.want("D3"):
        d3_psi(ctx)
        d3_operator(ctx)
    if ctx.want("R02d"):
        r_hamiltonians(ctx)
    if ctx.want("R02a"):
        r02a(ctx)
    if ctx.want("R02b"):
        r02b(ctx)
    if ctx.want("R02c"):
        r02c(ctx)
