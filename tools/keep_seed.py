#!/usr/bin/env python3
"""tools/keep_seed.py <Cxx> [k...] : keeps verified seeded changes under seeded/<Cxx>-<k>/"""
import json, os, shutil, sys
HERE = os.path.dirname(os.path.dirname(os.path.abspath(__file__)))
prop = sys.argv[1]
ROOT = os.environ.get("SEED_ROOT", "/tmp/seed")
OFFSET = int(os.environ.get("SEED_OFFSET", "0"))
ks = sys.argv[2:] or ["1", "2", "3"]
for k in ks:
    src = f"{ROOT}/{prop}/seed_out/{k}"
    vf = os.path.join(src, "verify.json")
    if not os.path.exists(vf):
        print(prop, k, "not verified yet"); continue
    v = json.load(open(vf))
    ok = v.get("apply") and v["demo_clean_rc"] == 0 and v["demo_patched_rc"] != 0 and v["tests_rc"] == 0
    if not ok:
        print(prop, k, "REJECTED", v); continue
    dst = os.path.join(HERE, "seeded", f"{prop}-{int(k) + OFFSET}")
    os.makedirs(dst, exist_ok=True)
    for f in ("patch.diff", "demo.py"):
        shutil.copy(os.path.join(src, f), os.path.join(dst, f))
    meta = json.load(open(os.path.join(src, "meta.json")))
    meta["property"] = prop
    import subprocess
    rev = subprocess.run(["git", "-C", f"{ROOT}/{prop}", "rev-parse", "--short", "HEAD"], capture_output=True, text=True).stdout.strip()
    meta["base_commit"] = rev
    meta["confirmed_by_me"] = {
        "worktree": f"{ROOT}/{prop} (detached worktree of /repo at {rev}, removed afterwards)",
        "ran": ["demo.py on the clean tree -> exit 0", "git apply patch.diff", "demo.py -> exit %d" % v["demo_patched_rc"],
                "full suite: /venv/bin/python -m pytest -q -p no:cacheprovider --timeout=900 -n 4 -> " + v["tests_summary"],
                "git checkout -- ."],
    }
    json.dump(meta, open(os.path.join(dst, "meta.json"), "w"), indent=1)
    print(prop, k, "kept")
