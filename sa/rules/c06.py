"""C06 tensor canonicalisation: decided by abstract evaluation of the constructors and container methods."""
from __future__ import annotations

import itertools
import re

from ..model import AnalysisError
from fractions import Fraction

from ..symex import Symex, Obj, ClassRef, Raised, _freeze
from ..terms import T, sym, t_add, t_mul, t_pow, show, is_num
from . import skeleton as sk
from .skeleton import EC

EXPLANATION = (
    "Every clause is decided by evaluating the library source abstractly (sa.symex) and comparing the computed value with "
    "the behaviour written down in the rule. The library is entered through its public surface only (the constructors of "
    "the tensor classes and of Expr, KroneckerDelta.eval and sympy's _eval_power protocol, the public methods make_real / "
    "set_sym_tensors / set_antisym_tensors / rename_tensor / add_bra_ket_sym, the public properties terms / objects / sympy / "
    "real / sym_tensors / antisym_tensors / provided_target_idx); whatever private helper, nested function or classmethod "
    "does the work is evaluated through, so no clause depends on where or under which name it lives. Indices are "
    "abstract records (space, spin, name, dummy id), sympy's singletons 0/1/-1 are integers. "
    "R06a: the bra-ket ordering as the constructors apply it: for 1- and 2-index groups over spaces x spins x numbered "
    "names (incl. names that tie in (number, letter) such as i / i0 and two distinct index objects of one name) K(u,l,+1) "
    "and K(l,u,+1) are never both exchanged and exactly one is whenever the groups differ (distinct indices never tie), "
    "K(u,u,+1) is +(one object), unequal group sizes are refused. R06b (relational): for every index tuple of rank (1,1) and (2,2) and rank (3,3) over two indices (thorough: also (2,1), (3,3) over four) "
    "over an index pool and bra-ket symmetry 0/+1/-1 all orderings related by the declared permutational and bra-ket "
    "symmetry give the same canonical object with the prescribed relative sign, a repeated index in an antisymmetric group "
    "and the diagonal of a bra-ket antisymmetric tensor (upper group a permutation of the lower group) give zero and nothing "
    "else does, the canonical groups are the given groups (exchanged only under a bra-ket symmetry), "
    "so unrelated tuples are never identified. R06c (formula): scenario inputs (both sort parities, both orientations, "
    "symmetry 0/+1/-1, a non-Index entry, invalid symmetry, repeated index): groups sorted ascending by the library's "
    "sort_idx_canonical, exchanged exactly when a symmetry is declared, all entries are indices and the sorted groups are "
    "in the orientation the constructor exchanges for symmetry +1, sign = parity of the two sorts (antisymmetric groups) "
    "times bra_ket_sym if exchanged. R06d: KroneckerDelta.eval over all (space, spin)^2 inputs (zero exactly for two "
    "different non-general spaces or two different spins, else canonical argument order, delta(i,i)=1) and the power "
    "table. R06e/R06f: the container classes are evaluated through all levels on concrete model expressions (sums of "
    "products with prefactors, exponents, polynoms with and without exponent, every tensor class, deltas, bra-ket "
    "partners that sympy collects once identified): tensors are built by the library's own constructors, Expr / Term / Obj / "
    "Polynom objects by the library's __new__ / __init__, and the resulting content is compared leaf by leaf and in "
    "structure with a reference written in the rule. R06f: Expr(...), make_real, set_sym_tensors, set_antisym_tensors "
    "against a reference state machine (real adds fock and eri, exactly the declared names that lack the symmetry are "
    "rebuilt with it - class, name, index groups kept -, the opposite symmetry is refused, non-string names are refused, "
    "an expression that is real already is not processed again), the decision table class x declared name x present "
    "symmetry x exponent on single-object contents, add_bra_ket_sym (present x requested symmetry). R06e: make_real on a "
    "fresh expression and rename_tensor at the Expr level; terms / objects enumerate all summands / factors; make_real "
    "and rename_tensor of every Term, Obj and Polynom give the reference image of what they hold (t-amplitudes lose the "
    "complex-conjugate mark, renamed tensors keep class, indices, symmetry; sums stay sums, products products, exponents "
    "are kept), raw or wrapped in an Expr that carries the assumptions (real=True after make_real).")
ASSUMPTIONS = [
    "sympy's _sort_anticommuting_fermions (imported from sympy, no source in the library) sorts by the given key, returns "
    "the number of transpositions and raises ViolationOfPauliPrinciple on two entries with equal keys; sympy allocates "
    "Basic objects by <Base>.__new__(cls, *args) with .args = args; Add collects equal summands, Mul/Pow fold numbers and "
    "unit exponents; nothing else of sympy's automatic simplification is modelled",
    "orientation (< vs >) of the bra/ket ordering is deliberately not constrained",
    "value preservation under the declared assumptions is not decided (only that exactly the declared tensors are "
    "re-canonicalised with the complete declaration, everything else is left as it is)",
    "index tuples are explored up to rank (2,2) over a pool of 4-6 abstract indices and rank (3,3) over two (thorough: pool of 8, (2,1) and (3,3) samples over four); "
    "container clauses are decided on the model expressions listed in Scene.small / Scene.rich",
    "re-applying an unchanged declaration is not distinguished from not applying it (same value); that a real expression "
    "is not processed again by make_real is decided by counting the container objects the call builds",
    "NormalOrdered containers are outside the model expressions",
]

SO = "sympy_objects"
SPACES = ["occ", "virt", "general"]
SPINS = ["", "a", "b"]
TENSOR_CLASSES = ("AntiSymmetricTensor", "Amplitude", "SymmetricTensor")

_counter = itertools.count(1)


def _ix(space, spin, name, dummy=None, tag=""):
    o = Obj(None, f"{name}{'_' + spin if spin else ''}[{space[0]}]{tag}")
    o.attrs.update(space=space, spin=spin, name=name, dummy_index=next(_counter) if dummy is None else dummy,
                   _classes=("Index", "Dummy", "Symbol"))
    return o


def _name_key(n):
    return (int(n[1:]) if n[1:] else 0, n[0])


def _ikey(s):
    """Independent statement of the canonical key of one index: space, spin, number, letter and - so that two distinct
    indices never tie ('i' / 'i0', two index objects of one name) - the identity of the dummy."""
    a = s.attrs
    return (a["space"][0], a["spin"]) + _name_key(a["name"]) + (a["dummy_index"],)


def _gkey(t):
    """Key of an index group as the bra-ket comparison sees it: spaces, then spins, then names."""
    return ([s.attrs["space"][0] for s in t], [s.attrs["spin"] for s in t],
            [_name_key(s.attrs["name"]) + (s.attrs["dummy_index"],) for s in t])


# ------------------------------------------------------------------ primitives

def _sort_fermions(sx, a, kw):
    """Model of sympy's bubble sort of anticommuting operators (see ASSUMPTIONS)."""
    seq = list(sx.iterate(a[0], None))
    key = kw.get("key", a[1] if len(a) > 1 else None)
    if key is None:
        raise AnalysisError("R06: _sort_anticommuting_fermions without a key")
    items = [(sx.call_value(key, [x], {}, None), x) for x in seq]
    n = 0
    changed = True
    while changed:
        changed = False
        for k in range(len(items) - 1):
            l, r = items[k][0], items[k + 1][0]
            if _has_term(l) or _has_term(r):
                raise AnalysisError("R06: symbolic sort key")
            if l == r:
                raise Raised("ViolationOfPauliPrinciple")
            if l > r:
                items[k], items[k + 1] = items[k + 1], items[k]
                n += 1
                changed = True
    return ([x for _, x in items], n)


def _has_term(v):
    if isinstance(v, T):
        return True
    if isinstance(v, (tuple, list)):
        return any(_has_term(x) for x in v)
    return False


def _new(sx, a, kw):
    """The object allocation of sympy (``super().__new__(cls, *args)`` / ``Expr.__new__(cls, *args)``)."""
    if a and isinstance(a[0], Obj) and a[0].name == "super":
        a = a[1:]
    return T("new", tuple(_freeze(x) for x in a), tuple(sorted(kw.items())))


def _super(sx, a, kw):
    o = Obj(None, "super")
    o.attrs["__new__"] = _new
    return o


def _symbol(sx, a, kw):
    return a[0] if len(a) == 1 and isinstance(a[0], str) and not kw else NotImplemented


def _tensor_sx(ctx, what, hooks=None):
    hk = {"_sort_anticommuting_fermions": _sort_fermions, "super": _super, "S": sk.S_OBJ,
          "sympify": lambda sx, a, kw: a[0], "type": sk.type_hook, "Symbol": _symbol}
    for base in ("object", "Expr", "Basic", "AtomicExpr"):       # allocation spelled with an external base class
        hk[f"{base}.__new__"] = _new
    hk.update(hooks or {})
    return Symex(ctx.model, inline=lambda q: True, hooks=hk, what=what)


def _resolve(sx, cls_name, method):
    r = sx.find_method(f"{SO}:{cls_name}", method)
    if r is None:
        raise AnalysisError(f"R06: {cls_name}.{method} does not resolve to a function of the library")
    return r[0]


def _decode_new(v):
    """(sign, class, name, upper tuple, lower tuple, bra_ket_sym) of a constructed tensor, 0 for zero, else None."""
    if v == 0 and not isinstance(v, T):
        return 0
    sign = 1
    if isinstance(v, T) and v.op == "mul" and len(v.args) == 2 and v.args[0] == -1:
        sign, v = -1, v.args[1]
    if isinstance(v, T) and v.op == "call" and isinstance(v.args[0], T) and v.args[0].op == "attr" \
            and v.args[0].args[1] == "__new__":
        v = T("new", v.args[1], v.args[2])          # <BaseClass>.__new__(cls, ...)
    if not (isinstance(v, T) and v.op == "new" and len(v.args[0]) == 5 and not v.args[1]):
        return None
    cls, name, up, lo, bks = v.args[0]
    groups = []
    for g in (up, lo):
        if not (isinstance(g, T) and g.op == "call" and g.args[0] == "Tuple" and not g.args[2]):
            return None
        groups.append(tuple(g.args[1]))
    return (sign, cls, name, groups[0], groups[1], bks)


# ---------------------------------------------------------------------- constructors as functions

class Ctor:
    """The public constructor of one tensor class, evaluated end to end (sort key, bra-ket comparison and every private
    helper inlined) on abstract indices; results are decoded into (sign, upper group, lower group) of index records."""

    def __init__(self, ctx, cname, sx=None):
        self.cname = cname
        self.sx = sx or _tensor_sx(ctx, f"{cname}(...)")
        self.fn = _resolve(self.sx, cname, "__new__")
        self.cls = Obj(f"{SO}:{cname}", cname)
        self.n = 0

    def __call__(self, up, lo, bks, name="X"):
        """("ok", sign, upper, lower) | ("zero",) | ("raise", exc) | ("shape", text)"""
        outs = self.sx.run(self.fn, lambda: dict(cls=self.cls, name=name, upper=tuple(up), lower=tuple(lo), bra_ket_sym=bks))
        self.n += 1
        if len(outs) != 1:
            return ("shape", f"{len(outs)} paths: {outs}")
        o = outs[0]
        if o.kind != "return":
            return ("raise", o.exc)
        d = _decode_new(o.value)
        if d is None:
            return ("shape", show(_freeze(o.value))[:200])
        if d == 0:
            return ("zero",)
        sign, k, nm, cu, cl, b = d
        by_term = {_freeze(x): x for x in tuple(up) + tuple(lo)}
        try:
            cu, cl = tuple(by_term[x] for x in cu), tuple(by_term[x] for x in cl)
        except KeyError:
            return ("shape", f"foreign indices in {show(_freeze(o.value))[:200]}")
        if k != sym(self.cname) or nm != name or b != bks:
            return ("shape", f"class/name/symmetry stored as {show(k)}, {nm!r}, {b}")
        return ("ok", sign, cu, cl)


# ---------------------------------------------------------------------- R06a

def r06a(ctx):
    """The bra-ket ordering as the constructor applies it: for sorted groups u != l exactly one of K(u,l) / K(l,u) has its
    groups exchanged (a strict total order on the (space, spin, name) keys => one canonical form)."""
    rule = "R06a"
    names = ["i", "i0", "i1", "j2"] if ctx.tier != "thorough" else ["i", "i0", "j", "i1", "j2", "i01"]
    one = [(_ix(sp, s, n),) for sp in SPACES for s in (SPINS if ctx.tier == "thorough" else SPINS[:2]) for n in names]
    # two distinct index objects with the same (space, spin, name): equal keys
    one += [(_ix("occ", "", "i", tag="'"),), (_ix("virt", "a", "i1", tag="'"),)]
    two_src = [_ix(sp, s, n) for sp in ("occ", "virt") for s in ("", "a") for n in ("i", "j1")]
    if ctx.tier != "thorough":
        two_src = [x for k, x in enumerate(two_src) if k not in (2, 3, 4)]
    done = {}
    for cname in TENSOR_CLASSES:
        K = Ctor(ctx, cname)
        n_pairs = 0
        viol = {"both": None, "none": None, "equal": None, "shape": None}
        thin = id(K.fn) in done and ctx.tier != "thorough"      # same public constructor: a sample is repeated
        done.setdefault(id(K.fn), cname)
        # 2-index groups are given in both internal orders: the comparison has to be made on the sorted groups
        two = [(a, b) for a in two_src for b in two_src if a is not b]
        for group in ((one[::3] + one[-2:] if thin else one), (two[::5] if thin else two)):
            res = {}
            for iu, u in enumerate(group):
                for il, l in enumerate(group):
                    if set(map(id, u)) == set(map(id, l)):
                        continue
                    r = K(u, l, 1)
                    if r[0] != "ok":
                        viol["shape"] = viol["shape"] or f"{cname}({list(u)}, {list(l)}, bra_ket_sym=1) -> {r}"
                        continue
                    _, sign, cu, cl = r
                    straight = _is_perm(cu, u) and _is_perm(cl, l)
                    swapped = _is_perm(cu, l) and _is_perm(cl, u)
                    if straight == swapped:
                        viol["shape"] = viol["shape"] or f"{cname}({list(u)}, {list(l)}, 1): groups {list(cu)} / {list(cl)}"
                        continue
                    res[(iu, il)] = swapped
            for (iu, il), a in res.items():
                if (il, iu) not in res:
                    continue
                n_pairs += 1
                b = res[(il, iu)]
                u, l = group[iu], group[il]
                same = sorted(map(_ikey, u)) == sorted(map(_ikey, l))
                if a and b:
                    viol["both"] = viol["both"] or (u, l)
                if not same and not a and not b:
                    viol["none"] = viol["none"] or (u, l)
                if same and (a or b):
                    viol["equal"] = viol["equal"] or (u, l)
        ctx.check(rule, K.fn, viol["shape"] is None, f"{cname}: bra-ket symmetric construction gives one object with the given groups",
                  f"{viol['shape']}", key=f"shape {cname}")
        ctx.check(rule, K.fn, viol["both"] is None, f"{cname}: {n_pairs} ordered pairs: never exchanged in both directions",
                  f"{cname}: upper/lower = {viol['both']} and the reverse are both exchanged: the two orderings "
                  "of one tensor get different canonical forms (or oscillate)", key=f"asymmetric {cname}")
        ctx.check(rule, K.fn, viol["none"] is None, f"{cname}: distinct keys: exactly one direction is exchanged",
                  f"{cname}: neither {viol['none']} nor the reverse is exchanged although the keys differ: bra-ket partners "
                  "are not identified", key=f"total {cname}")
        ctx.check(rule, K.fn, viol["equal"] is None, f"{cname}: equal keys: no exchange",
                  f"{cname}: groups with equal keys {viol['equal']} are exchanged", key=f"irreflexive {cname}")
        flipped = [u for u in one[:9] for r in [K(u, u, 1)] if r[0] != "ok" or r[1] != 1]
        ctx.check(rule, K.fn, not flipped, f"{cname}: a group is not exchanged with itself",
                  f"{cname}({list(flipped[0]) if flipped else ''}, the same group, bra_ket_sym=+1) does not give +(one object)",
                  key=f"self {cname}")
        r = K((one[0][0],), (), 1)
        ctx.check(rule, K.fn, r[0] == "raise", f"{cname}: bra-ket symmetry with unequal group sizes refused",
                  f"{cname}: bra-ket symmetry with unequal numbers of upper and lower indices gives {r}", key=f"len {cname}")
        if not ctx.violations:
            ctx.floor(rule, f"compared pairs of {cname}", n_pairs, 20)


# ---------------------------------------------------------------------- R06c

def _sort_key(sx, x):
    """The library's canonical sort key of one index (public function of indices.py), evaluated."""
    outs = sx.run("indices:sort_idx_canonical", lambda: dict(idx=x))
    if len(outs) != 1 or outs[0].kind != "return" or _has_term(outs[0].value):
        raise AnalysisError(f"R06c: sort_idx_canonical({x}) -> {outs}")
    return outs[0].value


def _parity_to(src, dst):
    """Parity of the permutation src -> dst of distinct objects (None if dst is not a permutation of src)."""
    if not _is_perm(src, dst) or len(set(map(id, src))) != len(src):
        return None
    return _perm_sign(src, dst)


def r06c(ctx):
    """The constructors on scenario inputs against the formula: groups sorted by the canonical key; exchanged exactly
    when a bra-ket symmetry is declared, all entries are indices and the sorted groups are in the non-canonical
    orientation (the orientation the constructor takes for the sorted groups with symmetry +1); sign = parity of the
    two sorts (antisymmetric groups) times bra_ket_sym if exchanged; zero / refusal where the symmetry says so."""
    rule = "R06c"
    done = {}
    for cname in TENSOR_CLASSES:
        K = Ctor(ctx, cname)
        if id(K.fn) in done:
            ctx.ok(rule, K.fn, f"{cname} is constructed by the constructor of {done[id(K.fn)]}", key=f"shared {cname}")
            continue
        done[id(K.fn)] = cname
        antisym = cname != "SymmetricTensor"
        i, j, a, b = _ix("occ", "", "i"), _ix("occ", "", "j"), _ix("virt", "", "a"), _ix("virt", "", "b")
        foreign = Obj(None, "x")
        foreign.attrs.update(_classes=("Dummy", "Symbol"), name="x", dummy_index=0)
        keys = {id(x): _sort_key(K.sx, x) for x in (i, j, a, b, foreign)}

        def srt(g):
            return tuple(sorted(g, key=lambda x: keys[id(x)]))
        n = 0
        for g1, g2 in (((i, j), (a, b)), ((a, b), (i, j)), ((i, a), (j, b)), ((j, b), (i, a))):
            ref = K(srt(g1), srt(g2), 1)
            if ref[0] != "ok":
                ctx.bad(rule, K.fn, f"{cname}({list(srt(g1))}, {list(srt(g2))}, 1) -> {ref}", key=f"{cname} reference {g1}")
                continue
            exchange = _same_objs(ref[2], srt(g2)) and _same_objs(ref[3], srt(g1))
            for pu, pl, bks, all_index in itertools.product((False, True), (False, True), (0, 1, -1), (True, False)):
                up = tuple(reversed(g1)) if pu else tuple(g1)
                lo = tuple(reversed(g2)) if pl else tuple(g2)
                if not all_index:
                    up = (foreign,) + up[1:] if not pu else up[:1] + (foreign,)
                label = f"{cname}({list(up)}, {list(lo)}, bra_ket_sym={bks})"
                r = K(up, lo, bks, name="T")
                n += 1
                if r[0] != "ok":
                    ctx.bad(rule, K.fn, f"{label} -> {r}", key=label)
                    continue
                _, sign, cu, cl = r
                do_swap = exchange and bks != 0 and all_index
                w_up, w_lo = (srt(lo), srt(up)) if do_swap else (srt(up), srt(lo))
                w_sign = (_parity_to(up, srt(up)) * _parity_to(lo, srt(lo))) if antisym else 1
                if do_swap and bks == -1:
                    w_sign = -w_sign
                why = []
                if not (_same_objs(cu, w_up) and _same_objs(cl, w_lo)):
                    why.append(f"groups are {list(cu)} / {list(cl)}, expected {list(w_up)} / {list(w_lo)} (sorted with the canonical "
                               f"key, {'exchanged' if do_swap else 'not exchanged'})")
                elif sign != w_sign:
                    why.append(f"sign is {sign:+d}, the declared symmetry prescribes {w_sign:+d}")
                ctx.check(rule, K.fn, not why, f"{label}: sorted groups, exchange and sign as prescribed", f"{label}: " + "; ".join(why),
                          key=label)
        # the diagonal: bra-ket antisymmetry forces zero, symmetry / no symmetry give the tensor
        for up, lo in (((i,), (i,)), ((i, j), (i, j)), ((i, j), (j, i)), ((a, i), (i, a))):
            for bks in (0, 1, -1):
                r = K(up, lo, bks)
                n += 1
                label = f"{cname}({list(up)}, {list(lo)}, bra_ket_sym={bks})"
                if bks == -1:
                    ok, want = r[0] == "zero", "zero (d = -d)"
                else:
                    w_sign = (_parity_to(up, srt(up)) * _parity_to(lo, srt(lo))) if antisym else 1
                    ok = r[0] == "ok" and r[1] == w_sign and _same_objs(r[2], srt(up)) and _same_objs(r[3], srt(lo))
                    want = f"{w_sign:+d} the tensor with sorted groups"
                ctx.check(rule, K.fn, ok, f"{label}: {want}", f"{label} gives {r}, expected {want}", key=label)
        r = K((foreign, i), (foreign, i), -1)
        ctx.check(rule, K.fn, r[0] == "ok", "entries that are not indices: no bra-ket treatment",
                  f"{cname}([x, i], [x, i], bra_ket_sym=-1) with a non-Index entry gives {r}", key=f"{cname} diagonal foreign")
        r = K((i, j), (a, b), 2)
        ctx.check(rule, K.fn, r[0] == "raise", "bra_ket_sym=2 refused", f"invalid bra-ket symmetry 2 gives {r}", key=f"{cname} invalid bks")
        r = K((i, i), (a, b), 0)
        if antisym:
            ctx.check(rule, K.fn, r[0] == "zero", "repeated index in an antisymmetric group gives zero",
                      f"{cname}([i, i], [a, b]) gives {r} instead of zero", key=f"{cname} pauli")
        else:
            ctx.check(rule, K.fn, r[0] == "ok", "repeated index in a symmetric group does not vanish",
                      f"a symmetric tensor with a repeated index inside a group evaluates to {r}; the declared "
                      "symmetry does not force it to zero", key=f"{cname} symmetric repeated")
        if not ctx.violations:
            ctx.floor(rule, f"constructor scenarios of {cname}", n, 40)


# ---------------------------------------------------------------------- R06b

def _pool(tier):
    """The first four indices are used for rank (2,2) in the quick tier; names that tie in (number, letter) - 'i' / 'i0' -
    and a second, distinct index object named i are part of every tier."""
    p = [_ix("occ", "", "i"), _ix("occ", "", "i0"), _ix("virt", "", "a"), _ix("occ", "", "i", tag="#2"),
         _ix("occ", "a", "i"), _ix("general", "", "p"), _ix("occ", "", "j"), _ix("occ", "", "i1")]
    if tier == "thorough":
        p += [_ix("virt", "b", "a"), _ix("virt", "", "a0")]
    return p


def _perm_sign(src, dst):
    """Parity of the permutation taking the tuple of distinct objects src to dst."""
    pos = [next(k for k, y in enumerate(src) if y is x) for x in dst]
    s = 1
    for a in range(len(pos)):
        for b in range(a + 1, len(pos)):
            if pos[a] > pos[b]:
                s = -s
    return s


def _same_objs(a, b):
    return len(a) == len(b) and all(x is y for x, y in zip(a, b))


def _is_perm(a, b):
    return sorted(map(id, a)) == sorted(map(id, b))


def r06b(ctx):
    rule = "R06b"
    sx = _tensor_sx(ctx, "tensor constructors")
    pool = _pool(ctx.tier)
    by_term = {_freeze(x): x for x in pool}
    thorough = ctx.tier == "thorough"
    seen = {}
    for cname in TENSOR_CLASSES:
        fn = _resolve(sx, cname, "__new__")
        antisym = cname != "SymmetricTensor"
        cls = Obj(f"{SO}:{cname}", cname)
        # a class that resolves to the public constructor of an already explored class: a smaller pool is repeated for
        # it (whatever the constructor consults through ``cls`` is still evaluated for this class)
        impl = id(fn)
        ranks = [(1, 1)]
        samples = {}
        if impl not in seen or thorough:
            samples[(2, 2)] = pool[:8] if thorough else pool[:4]
        else:
            samples[(2, 2)] = pool[:3]
        if thorough:
            ranks.append((2, 1))
            samples[(3, 3)] = pool[:4]
        else:
            # rank (3,3) over two indices: the tuples in which bra and ket hold the same set of indices with different
            # multiplicities ((i,i,j) / (i,j,j)) first exist at this rank (seed C06-12)
            samples[(3, 3)] = pool[:2]
        seen[impl] = cname
        n_eval = 0
        bad = {}

        def flag(kind, msg):
            bad.setdefault(kind, msg)
        for (nu, nl), bks in itertools.product(ranks + list(samples), (0, 1, -1)):
            if nu != nl and bks != 0:
                continue
            src = samples.get((nu, nl), pool)
            table = {}
            for up in itertools.product(src, repeat=nu):
                for lo in itertools.product(src, repeat=nl):
                    outs = sx.run(fn, lambda: dict(cls=cls, name="X", upper=tuple(up), lower=tuple(lo), bra_ket_sym=bks))
                    n_eval += 1
                    if len(outs) != 1 or outs[0].kind != "return":
                        flag("raises", f"{cname}({list(up)}, {list(lo)}, bra_ket_sym={bks}) -> {outs}")
                        continue
                    d = _decode_new(outs[0].value)
                    if d is None:
                        flag("shape", f"{cname}({list(up)}, {list(lo)}, bra_ket_sym={bks}) gives {show(outs[0].value)[:200]}, "
                             "neither zero nor +-(one tensor object)")
                        continue
                    if d != 0:
                        sign, k, name, cu, cl, b = d
                        try:
                            d = (sign, tuple(by_term[x] for x in cu), tuple(by_term[x] for x in cl), k, name, b)
                        except KeyError:
                            flag("shape", f"{cname}({list(up)}, {list(lo)}, {bks}) contains foreign indices: {show(outs[0].value)[:200]}")
                            continue
                    table[(tuple(map(id, up)), tuple(map(id, lo)))] = (up, lo, d)
            for (ku, kl), (up, lo, d) in table.items():
                what = f"{cname}({list(up)}, {list(lo)}, bra_ket_sym={bks})"
                rep = (antisym and (len(set(ku)) < nu or len(set(kl)) < nl))
                if rep:
                    if d != 0:
                        flag("pauli", f"{what}: repeated index in an antisymmetric group does not give zero")
                    continue
                if bks == -1 and nu == nl and _is_perm(up, lo):
                    # d^{pq}_{pq} = -d^{pq}_{pq}: the diagonal of a bra-ket antisymmetric tensor vanishes
                    if d != 0:
                        flag("diagonal", f"{what}: upper and lower group coincide, bra-ket antisymmetry forces zero, "
                             f"the constructor gives an object")
                    continue
                if d == 0:
                    flag("zero", f"{what} evaluates to zero although the declared symmetry does not force it" +
                         ("" if antisym else " (a symmetric tensor with a repeated index inside a group does not vanish)"))
                    continue
                sign, cu, cl, k, name, b = d
                if k != sym(cname) or name != "X" or b != bks:
                    flag("identity", f"{what} builds class/name/symmetry {show(k)}, {name!r}, {b}")
                # the canonical groups are the given groups, exchanged only under a bra-ket symmetry
                straight = _is_perm(cu, up) and _is_perm(cl, lo)
                swapped = _is_perm(cu, lo) and _is_perm(cl, up)
                if not (straight or (bks != 0 and swapped)):
                    flag("groups", f"{what}: canonical groups {list(cu)} / {list(cl)} are not the given upper/lower groups"
                         + (" (exchanged without a bra-ket symmetry)" if swapped else ""))
                    continue
                # permutations inside the groups
                for pu in itertools.permutations(range(nu)):
                    for pl in itertools.permutations(range(nl)):
                        u2, l2 = tuple(up[x] for x in pu), tuple(lo[x] for x in pl)
                        o2 = table.get((tuple(map(id, u2)), tuple(map(id, l2))))
                        if o2 is None or o2[2] == 0:
                            continue
                        s2, cu2, cl2 = o2[2][:3]
                        if not (_same_objs(cu, cu2) and _same_objs(cl, cl2)):
                            flag("canonical", f"{what} and the reordered {cname}({list(u2)}, {list(l2)}) give different objects "
                                 f"{list(cu)}/{list(cl)} vs {list(cu2)}/{list(cl2)}")
                            continue
                        if len(set(ku)) < nu or len(set(kl)) < nl:
                            want = 1
                        else:
                            want = _perm_sign(up, u2) * _perm_sign(lo, l2) if antisym else 1
                        if s2 * sign != want:
                            flag("sign", f"{what} = {'+' if sign > 0 else '-'}T but {cname}({list(u2)}, {list(l2)}) = "
                                 f"{'+' if s2 > 0 else '-'}T: relative sign {s2 * sign:+d}, the permutation symmetry prescribes {want:+d}")
                # bra-ket partner
                o2 = table.get((kl, ku)) if nu == nl else None
                if o2 is not None and o2[2] != 0:
                    s2, cu2, cl2 = o2[2][:3]
                    if bks == 0:
                        if _same_objs(cu, cu2) and _same_objs(cl, cl2) and not (_is_perm(up, lo)):
                            flag("identified", f"{what} and {cname}({list(lo)}, {list(up)}) are identified without a bra-ket symmetry")
                    else:
                        if not (_same_objs(cu, cu2) and _same_objs(cl, cl2)):
                            flag("braket", f"{what} and its bra-ket partner {cname}({list(lo)}, {list(up)}) give different objects "
                                 f"{list(cu)}/{list(cl)} vs {list(cu2)}/{list(cl2)}")
                        elif not _is_perm(up, lo) and s2 * sign != bks:
                            flag("braket sign", f"{what} = {'+' if sign > 0 else '-'}T, bra-ket partner {cname}({list(lo)}, "
                                 f"{list(up)}) = {'+' if s2 > 0 else '-'}T: relative sign {s2 * sign:+d}, bra_ket_sym prescribes {bks:+d}")
        for kind, fact in (("raises", "constructors return"), ("shape", "result is zero or +-(one object)"),
                           ("pauli", "repeated index in an antisymmetric group gives zero"),
                           ("diagonal", "the diagonal of a bra-ket antisymmetric tensor is zero"),
                           ("zero", "nothing else gives zero"), ("identity", "class, name and symmetry kept"),
                           ("groups", "canonical groups are the given groups (exchanged only under bra-ket symmetry)"),
                           ("canonical", "all orderings inside the groups give one object"),
                           ("sign", "relative sign of reorderings as prescribed"),
                           ("identified", "bra-ket partners stay distinct without symmetry"),
                           ("braket", "bra-ket partners give one object"), ("braket sign", "bra-ket partners differ by bra_ket_sym")):
            ctx.check(rule, fn, kind not in bad, f"{cname}: {fact} ({n_eval} constructions)", bad.get(kind, ""),
                      key=f"{cname} {kind}")
        if not ctx.violations:
            ctx.floor(rule, f"evaluated constructions of {cname}", n_eval, 100)


# ---------------------------------------------------------------------- R06d

def _linear_zero(t):
    """True if the linear combination of opaque symbols cancels identically, else None (unknown)."""
    acc = {}
    for s in (t.args if isinstance(t, T) and t.op == "add" else [t]):
        c, x = 1, s
        if isinstance(s, T) and s.op == "mul" and len(s.args) == 2 and is_num(s.args[0]):
            c, x = s.args
        if is_num(x):
            return None
        acc[x] = acc.get(x, 0) + c
    return True if all(v == 0 for v in acc.values()) else None


def r06d(ctx):
    rule = "R06d"

    def attr_hook(sx, obj, attr, node):
        if attr == "is_zero" and isinstance(obj, T):
            return _linear_zero(obj)
        return NotImplemented
    def cls(sx_, a, kw):
        return T("delta", tuple(_freeze(x) for x in a)) if not kw else NotImplemented
    hooks = {"fuzzy_not": lambda sx, a, kw: (None if a[0] is None else not a[0]), "S": sk.S_OBJ, "KroneckerDelta": cls}
    sx = Symex(ctx.model, inline=lambda q: True, hooks=hooks, what="KroneckerDelta.eval", attr_hook=attr_hook)
    fn = ctx.model.fn(f"{SO}:KroneckerDelta.eval")

    def run(i, j):
        outs = sx.run(fn, lambda: dict(cls=cls, i=i, j=j))
        if len(outs) != 1:
            raise AnalysisError(f"R06d: KroneckerDelta.eval({i}, {j}) -> {outs}")
        return outs[0]
    for (s1, p1), (s2, p2) in itertools.product(itertools.product(SPACES, SPINS), repeat=2):
        for n1, n2 in (("p", "q"), ("q2", "p11")):
            i, j = _ix(s1, p1, n1), _ix(s2, p2, n2)
            label = f"({s1[0]}{p1 or 'n'}{n1},{s2[0]}{p2 or 'n'}{n2})"
            o = run(i, j)
            zero = (s1 != "general" and s2 != "general" and s1 != s2) or bool(p1 and p2 and p1 != p2)
            if zero:
                got_ok = o.kind == "return" and o.value == 0 and not isinstance(o.value, (T, bool))
                want = "zero"
            elif _ikey(i) <= _ikey(j):
                got_ok = o.kind == "return" and o.value is None
                want = "kept as given (already canonical)"
            else:
                got_ok = o.kind == "return" and o.value == T("delta", (_freeze(j), _freeze(i)))
                want = "arguments exchanged into canonical order"
            ctx.check(rule, fn, got_ok, f"{label}: {want}",
                      f"{label}: eval gives {o.kind} {show(_freeze(o.value)) if o.kind == 'return' else o.exc}, expected {want}",
                      key=f"eval {label}")
    i = _ix("occ", "", "i")
    o = run(i, i)
    ctx.check(rule, fn, o.kind == "return" and o.value == 1 and not isinstance(o.value, (T, bool)), "same index gives one",
              f"delta(i,i) gives {o}", key="same index")
    # powers: delta**n = delta (n > 0), 1/delta (n < 0, n != -1), untouched otherwise
    pw = ctx.model.fn(f"{SO}:KroneckerDelta._eval_power")
    for pos, neg, minus_one in ((True, False, False), (False, True, False), (False, True, True), (False, False, False)):
        outs = _run_power(ctx, pw, pos, neg, minus_one)
        label = f"exponent positive={pos} negative={neg} is_minus_one={minus_one}"
        if len(outs) != 1 or outs[0].kind != "return":
            ctx.bad(rule, pw, f"_eval_power {label}: {outs}", key=f"power {label}")
            continue
        v = outs[0].value
        if pos:
            ok, want = isinstance(v, Obj) and v.name == "delta", "the delta itself"
        elif neg and not minus_one:
            ok, want = _freeze(v) == t_pow(sym("delta"), -1), "1/delta"
        else:
            ok, want = v is None, "not evaluated"
        ctx.check(rule, pw, ok, f"delta ** ({label}): {want}", f"delta ** ({label}) gives {show(_freeze(v))}, expected {want}",
                  key=f"power {label}")


def _run_power(ctx, pw, pos, neg, minus_one):
    def args():
        e = Obj(None, "exp", is_positive=pos, is_negative=neg)
        s = Obj(None, "S", Zero=0, One=1, NegativeOne=e if minus_one else Obj(None, "S.NegativeOne"))
        args.S = s
        return dict(self=Obj(None, "delta"), exp=e)

    sx = Symex(ctx.model, inline=lambda q: True, what="_eval_power", hooks=sk._arith_hooks())
    proxy = Obj(None, "S")
    sx.hooks["S"] = proxy

    def args2():
        d = args()
        proxy.attrs.clear()
        proxy.attrs.update(args.S.attrs)
        return d
    return sx.run(pw, args2)


# ---------------------------------------------------------------------- containers (R06e / R06f)
#
# Everything below enters the library through public names only: the constructors Expr(...), the tensor classes, the
# public methods make_real / set_sym_tensors / set_antisym_tensors / rename_tensor / add_bra_ket_sym and the public
# properties terms / objects / sympy / real / sym_tensors / antisym_tensors / provided_target_idx.  Whatever private
# helper does the work (at whatever container level) is evaluated through.

class Scene:
    """Concrete model expressions and the reference semantics of the assumption methods."""

    def __init__(self, ctx):
        self.ctx = ctx
        self.cx = sk.Concrete(ctx, "containers", sort_fermions=_sort_fermions, max_depth=120, max_steps=2000000,
                              hooks={"get_symbols": lambda sx, a, kw: tuple(sx.iterate(a[0], None))})
        tn = sk.tensor_names_obj(ctx.model)
        self.fock, self.eri, self.t = tn.attrs["fock"], tn.attrs["eri"], tn.attrs["gs_amplitude"]
        self.fv = {self.fock, self.eri}
        self.i, self.j = _ix("occ", "", "i"), _ix("occ", "", "j")
        self.a, self.b = _ix("virt", "", "a"), _ix("virt", "", "b")
        self.so = ctx.model.module(SO)

    # ---- model building (inside an evaluation)
    def tensor(self, kind, name, up, lo, bks=0):
        return _freeze(self.cx.construct(kind, name, tuple(up), tuple(lo), bks))

    def nonsym(self, name, idx):
        return _freeze(self.cx.construct("NonSymmetricTensor", name, tuple(idx)))

    def delta(self, p, q):
        return _freeze(self.cx.alloc(ClassRef(self.so, "KroneckerDelta"), (p, q)))

    def family(self, r):
        short = r.cls.split(":")[-1]
        return (short,) + tuple(self.cx.sx._bases(r.cls))

    def parts(self, r):
        a = r.attrs.get("args", ())
        name = a[0].attrs["name"] if a and isinstance(a[0], Obj) and "name" in a[0].attrs else None
        return name, a[1:]

    # ---- reference semantics on contents
    def ref_apply(self, content, S, A):
        """Exactly the tensors with a declared name that do not carry the symmetry yet are rebuilt with it."""
        def f(r):
            fam = self.family(r)
            if "AntiSymmetricTensor" in fam:
                name, (up, lo, b) = self.parts(r)
                if name in S and b != 1:
                    return self.cx.construct(fam[0], name, up, lo, 1)
                if name in A and b != -1:
                    return self.cx.construct(fam[0], name, up, lo, -1)
            return r
        return self.cx.map_leaves(content, f)

    def ref_real(self, content):
        """Complex conjugate t-amplitudes lose the mark, nothing else changes."""
        pat = re.compile(re.escape(self.t) + r"(\d*)(c+)")

        def f(r):
            fam = self.family(r)
            if "Amplitude" in fam:
                name, (up, lo, b) = self.parts(r)
                m = pat.fullmatch(name)
                if m:
                    return self.cx.construct(fam[0], self.t + m.group(1), up, lo, b)
            return r
        return self.cx.map_leaves(content, f)

    def ref_rename(self, content, cur, new):
        def f(r):
            fam = self.family(r)
            if "SymbolicTensor" in fam:
                name, rest = self.parts(r)
                if name == cur:
                    return self.cx.construct(fam[0], new, *rest)
            return r
        return self.cx.map_leaves(content, f)

    # ---- reference state machine
    def r_apply(self, st):
        st["content"] = self.ref_apply(st["content"], st["sym"], st["anti"])

    def r_make_real(self, st):
        if st["real"]:
            return
        st["real"] = True
        if not self.fv <= st["sym"]:
            st["sym"] = st["sym"] | self.fv
        self.r_apply(st)                 # re-applying an unchanged declaration changes nothing
        st["content"] = self.ref_real(st["content"])

    def r_init(self, content, real=False, sym_tensors=None, antisym_tensors=None, target=None):
        st = dict(real=False, sym=set(sym_tensors or ()), anti=set(antisym_tensors or ()), content=content,
                  target=None if target is None else tuple(target))
        if st["sym"] or st["anti"]:
            self.r_apply(st)
        if real:
            self.r_make_real(st)
        return st

    def r_set_sym(self, st, names):
        st["sym"] = set(names) | (self.fv if st["real"] else set())
        self.r_apply(st)

    def r_set_anti(self, st, names):
        st["anti"] = set(names)
        self.r_apply(st)

    # ---- observation through public properties
    def observe(self, e):
        cx = self.cx
        tgt = cx.get(e, "provided_target_idx")
        return dict(real=cx.get(e, "real"), sym=set(cx.get(e, "sym_tensors")), anti=set(cx.get(e, "antisym_tensors")),
                    content=cx.get(e, "sympy"), target=None if tgt is None else tuple(tgt))

    def diff(self, got, want):
        """[(rule kind, text)]: 'state' for flags/sets, 'structure' for a content with the right leaves put together
        wrongly (sum/product/exponent), 'leaves' for wrong tensors."""
        cx = self.cx
        out = []
        if got["real"] is not want["real"]:
            out.append(("state", f"real is {got['real']}, expected {want['real']}"))
        for k, nm in (("sym", "sym_tensors"), ("anti", "antisym_tensors")):
            if got[k] != want[k]:
                out.append(("state", f"{nm} are {sorted(got[k])}, expected {sorted(want[k])}"))
        if (got["target"] is None) != (want["target"] is None) or (got["target"] is not None and not
                                                                    _same_objs(got["target"], want["target"])):
            out.append(("state", f"target indices are {got['target']}, expected {want['target']}"))
        g, w = cx.value(got["content"]), cx.value(want["content"])
        if g != w:
            kind = "structure" if self.leaf_multiset(got["content"]) == self.leaf_multiset(want["content"]) else "leaves"
            out.append((kind, f"content is {g[:700]}; expected {w[:700]}"))
        return out

    def leaf_multiset(self, content):
        from ..terms import subterms
        c = _freeze(content)
        return sorted(repr(self.cx.leaf_key(x)) for x in (subterms(c) if isinstance(c, T) else [])
                      if x.op == "sym" and x.args[0] in self.cx.leaves)

    # ---- model contents
    def small(self):
        """f t1cc + x y x' + V + x^b_i + x^i_b  (f and x need an exchange once they are bra-ket symmetric)."""
        i, j, a, b = self.i, self.j, self.a, self.b
        F = self.tensor("AntiSymmetricTensor", self.fock, (a,), (i,))
        T1 = self.tensor("Amplitude", f"{self.t}1cc", (a,), (i,))
        X = self.tensor("AntiSymmetricTensor", "x", (a,), (j,))
        X2 = self.tensor("AntiSymmetricTensor", "x", (i,), (b,))
        Y = self.tensor("AntiSymmetricTensor", "y", (b,), (j,))
        V = self.tensor("AntiSymmetricTensor", self.eri, (b, a), (i, j))
        # bra-ket partners: one summand once x is declared symmetric (sympy collects equal summands)
        P, Q = self.tensor("AntiSymmetricTensor", "x", (b,), (i,)), self.tensor("AntiSymmetricTensor", "x", (i,), (b,))
        G, H = self.tensor("AntiSymmetricTensor", self.fock, (b,), (j,)), self.tensor("AntiSymmetricTensor", self.fock, (j,), (b,))
        return t_add(t_mul(F, T1), t_mul(X, Y, X2), V, P, Q, G, H)

    def rich(self):
        """Products with prefactors, an exponent on a tensor, a polynom with and without exponent, a delta-only term,
        every tensor class, declared / undeclared names, tensors that already carry a symmetry."""
        i, j, a, b = self.i, self.j, self.a, self.b
        A, AM, SY = "AntiSymmetricTensor", "Amplitude", "SymmetricTensor"
        F = self.tensor(A, self.fock, (a,), (i,))
        V = self.tensor(A, self.eri, (a, b), (j, i))
        X = self.tensor(A, "x", (a,), (i,))
        XS = self.tensor(A, "x", (b,), (j,), 1)
        XA = self.tensor(AM, "x", (a, b), (i, j))
        XY = self.tensor(SY, "x", (b, a), (j, i))
        Y = self.tensor(A, "y", (a,), (j,))
        YA = self.tensor(A, "y", (b,), (i,), -1)
        Z = self.tensor(A, "z", (a,), (i,))
        ZS = self.tensor(A, "z", (b,), (i,), 1)
        NX = self.nonsym("x", (i, a))
        T1 = self.tensor(AM, f"{self.t}1cc", (a,), (i,))
        T2 = self.tensor(AM, f"{self.t}2cc", (a, b), (i, j), 1)
        T3 = self.tensor(AM, f"{self.t}2", (a, b), (i, j), 1)
        TC = self.tensor(AM, f"{self.t}cc", (b,), (j,))
        D = self.delta(i, j)
        return t_add(t_mul(2, F, T1, t_pow(X, 2)),
                     t_mul(t_pow(t_add(Y, t_mul(Z, XA), TC), 3), D, NX),
                     t_mul(Fraction(1, 2), XY, T2, V, XS),
                     t_mul(t_add(X, YA), ZS, T3),
                     t_mul(3, D))


def _report(ctx, scene, rule_leaves, node, label, key, diffs):
    """One obligation per clause kind; 'structure' always belongs to the homomorphism rule R06e."""
    rules = {"state": "R06f", "structure": "R06e", "leaves": rule_leaves}
    by = {}
    for kind, text in diffs:
        by.setdefault(rules[kind], []).append(text)
    for rule in sorted(set(rules.values())):
        ctx.check(rule, node, rule not in by, f"{label}: as the reference prescribes", f"{label}: " + "; ".join(by.get(rule, [])),
                  key=f"{key} [{rule}]")


class _Paths:
    """Several paths through a concrete scenario (some value the library compares or iterates is not concrete)."""
    kind = "paths"
    exc = None

    def __init__(self, outs):
        self.value = f"{len(outs)} paths, e.g. {outs[0]!r}"[:400]
        self.outs = outs


class _Diverges:
    """The evaluation does not terminate (a method that ends up calling itself on the same content)."""
    kind = "diverges"
    value = None

    def __init__(self, why):
        self.exc = why


def _one(ctx, scene, what, build, call, strict=True):
    try:
        res = scene.cx.run(build, call)
    except AnalysisError as e:
        if "recursion bound exceeded" in str(e) or "inlining depth exceeded" in str(e):
            return _Diverges("unbounded recursion (" + str(e)[:120] + ")")
        raise
    if len(res) != 1:
        if strict:
            raise AnalysisError(f"R06: {what}: {len(res)} paths through a concrete scenario: {[o for o, _ in res][:3]}")
        return _Paths([o for o, _ in res])
    return res[0][0]


def expr_machine(ctx):
    """R06f / R06e: the public assumption interface of Expr against the reference state machine on concrete contents."""
    sc = Scene(ctx)
    cx = sc.cx
    f_, v_ = sc.fock, sc.eri
    E = f"{EC}:Expr"
    node = {m: ctx.model.fn(f"{E}.{m}") for m in ("__init__", "make_real", "set_sym_tensors", "set_antisym_tensors",
                                                    "rename_tensor")}
    thorough = ctx.tier == "thorough"
    sets = [None, [], ["x"], [f_], [v_, "x"], ["x", f_, v_]] if thorough else [None, ["x"], [f_], ["x", f_, v_]]
    # ---- Expr(...)
    for real, st_, anti, tgt, wrapped in itertools.product((False, True), sets, (None, ["y"]), (False, True), (False, True)):
        if (wrapped or tgt) and (anti is not None or st_ != ["x"] or (wrapped and tgt and not thorough)):
            continue

        def call(content):
            e = content
            if wrapped:
                e = cx.construct("Expr", content)
            kw = dict(real=real, sym_tensors=st_, antisym_tensors=anti)
            if tgt:
                kw["target_idx"] = [sc.b, sc.i]
            got = sc.observe(cx.construct("Expr", e, **kw))
            want = sc.r_init(content, real, st_, anti, sorted([sc.b, sc.i], key=_ikey) if tgt else None)
            return sc.diff(got, want)
        label = f"Expr(e, real={real}, sym_tensors={st_}, antisym_tensors={anti}{', target_idx=[b, i]' if tgt else ''}" \
                f"{', e an Expr' if wrapped else ''})"
        o = _one(ctx, sc, label, sc.small, call)
        if o.kind != "return":
            ctx.bad("R06f", node["__init__"], f"{label}: raises {o.exc}", key=f"init {label}")
            continue
        _report(ctx, sc, "R06f", node["__init__"], label, f"init {label}", o.value)
    # ---- make_real / setters / rename on expressions created through the constructor
    starts = [(False, s, a) for s in ([], ["x"], [f_], [f_, v_], ["x", f_, v_]) for a in ([], ["y"])] + \
             [(True, s, a) for s in ([], ["x"]) for a in ([], ["y"])]
    if not thorough:
        starts = [x for k, x in enumerate(starts) if k not in (3, 4, 9, 12)]

    def start(content, real, s, a):
        e = cx.construct("Expr", content, real=real, sym_tensors=list(s), antisym_tensors=list(a))
        return e, sc.r_init(content, real, s, a)
    for real, s, a in starts:
        label = f"make_real on Expr(real={real}, sym_tensors={s}, antisym_tensors={a})"

        def call(content):
            e, st = start(content, real, s, a)
            before = dict(cx.count)
            r = cx.call(e, "make_real")
            work = {k: v - before.get(k, 0) for k, v in cx.count.items() if v != before.get(k, 0)}
            sc.r_make_real(st)
            d = sc.diff(sc.observe(e), st)
            if r is not e:
                d.append(("state", "does not return the expression itself"))
            if real and work:
                d.append(("state", f"an expression that is real already is processed again ({work} containers built)"))
            return d
        o = _one(ctx, sc, label, sc.small, call)
        if o.kind != "return":
            ctx.bad("R06f", node["make_real"], f"{label}: raises {o.exc}", key=label)
            continue
        fresh = not real and sc.fv <= set(s)         # pure lifting of Term.make_real: the homomorphism clause
        _report(ctx, sc, "R06e" if fresh else "R06f", node["make_real"], label, label, o.value)
    for meth, ref in (("set_sym_tensors", sc.r_set_sym), ("set_antisym_tensors", sc.r_set_anti)):
        cases = [(False, [], [], n) for n in ([], ["x"], [f_], ["z", "x"], ["y"])] + \
                [(False, ["x"], ["y"], n) for n in ([], ["x"], [f_, v_], ["z"])] + \
                [(True, [], [], n) for n in ([], ["x"], [f_, v_])] + [(True, ["x"], [], n) for n in ([], ["z"])]
        for real, s, a, names in cases:
            if meth == "set_antisym_tensors" and ("x" in names or f_ in names):
                continue        # declaring a name symmetric and antisymmetric is refused by the tensors
            if meth == "set_sym_tensors" and "y" in names:
                continue
            for arg in ((list(names), tuple(names)) if thorough or (s and names) else (list(names),)):
                label = f"{meth}({arg!r}) on Expr(real={real}, sym_tensors={s}, antisym_tensors={a})"

                def call(content):
                    e, st = start(content, real, s, a)
                    cx.call(e, meth, arg)
                    ref(st, names)
                    return sc.diff(sc.observe(e), st)
                o = _one(ctx, sc, label, sc.small, call)
                if o.kind != "return":
                    ctx.bad("R06f", node[meth], f"{label}: raises {o.exc}", key=label)
                    continue
                _report(ctx, sc, "R06f", node[meth], label, label, o.value)
        label = f"{meth}(['x', 1])"

        def call(content):
            e, st = start(content, False, [], [])
            try:
                cx.call(e, meth, ["x", 1])
            except Raised:
                return sc.diff(sc.observe(e), st)
            return [("state", "names that are not strings are accepted")]
        o = _one(ctx, sc, label, sc.small, call, strict=False)
        ctx.check("R06f", node[meth], o.kind == "return" and not o.value, f"{meth} refuses names that are not strings and changes nothing",
                  f"{label}: {o.value if o.kind != 'raise' else o.exc}", key=f"{meth} guard")
    # ---- rename_tensor
    for real, s, a, cur, new in ((False, ["x"], ["y"], "x", "q"), (True, [], [], sc.fock, "g"), (False, [], [], "nothing", "q")):
        label = f"rename_tensor({cur!r}, {new!r}) on Expr(real={real}, sym_tensors={s}, antisym_tensors={a})"

        def call(content):
            e, st = start(content, real, s, a)
            r = cx.call(e, "rename_tensor", cur, new)
            st["content"] = sc.ref_rename(st["content"], cur, new)
            d = sc.diff(sc.observe(e), st)
            if r is not e:
                d.append(("state", "does not return the expression itself"))
            return d
        o = _one(ctx, sc, label, sc.rich, call)
        if o.kind != "return":
            ctx.bad("R06e", node["rename_tensor"], f"{label}: raises {o.exc}", key=label)
            continue
        _report(ctx, sc, "R06e", node["rename_tensor"], label, label, o.value)
    for cur, new in ((1, "b"), ("a", None)):
        def call(content):
            e, st = start(content, False, [], [])
            cx.call(e, "rename_tensor", cur, new)
            return None
        o = _one(ctx, sc, "rename guard", sc.small, call)
        ctx.check("R06e", node["rename_tensor"], o.kind == "raise", "rename_tensor refuses names that are not strings",
                  f"rename_tensor({cur!r}, {new!r}) is accepted", key=f"rename guard {cur!r} {new!r}")


def lower_levels(ctx):
    """R06e: the public methods of the lower container levels (Term, Obj, Polynom reached through the public properties
    terms / objects) on the rich content: the containers enumerate all summands / factors, and make_real / rename_tensor
    of a container give the reference image of what it holds - raw, or wrapped in an Expr with the assumptions."""
    sc = Scene(ctx)
    cx = sc.cx
    node = ctx.model.cls(f"{EC}:Term")
    methods = (("make_real", (), lambda c: sc.ref_real(c), True), ("rename_tensor", ("x", "q"), lambda c: sc.ref_rename(c, "x", "q"), None))
    for real, s, a in ((False, ["x"], ["y"]), (True, [], [])):
        owner = f"Expr(real={real}, sym_tensors={s}, antisym_tensors={a})"

        def call(content):
            e = cx.construct("Expr", content, real=real, sym_tensors=list(s), antisym_tensors=list(a))
            st = sc.r_init(content, real, s, a)
            out = []
            terms = list(cx.get(e, "terms"))
            tot = t_add(*[_freeze(cx.get(t, "sympy")) for t in terms])
            out.append(("terms enumerate all summands", "R06e", [] if cx.value(tot) == cx.value(st["content"]) else
                        [("leaves", f"sum of the terms is {cx.value(tot)[:500]}, the content is {cx.value(st['content'])[:500]}")]))
            conts = []
            for k, t in enumerate(terms):
                objs = list(cx.get(t, "objects"))
                prod = t_mul(*[_freeze(cx.get(ob, "sympy")) for ob in objs])
                tv = cx.get(t, "sympy")
                out.append((f"objects of term {k} enumerate all factors", "R06e", [] if cx.value(prod) == cx.value(tv) else
                            [("leaves", f"product of the objects is {cx.value(prod)[:500]}, the term is {cx.value(tv)[:500]}")]))
                conts.append((f"term {k}", lambda t=t: t))
                for q, ob in enumerate(objs):
                    conts.append((f"object {q} of term {k}", lambda ob=ob: ob))
            for cname, getc in conts:
                for meth, args, ref, real_after in methods:
                    for rs in (True, False):
                        c = getc()
                        held = cx.get(c, "sympy")
                        want = dict(st, content=ref(held))
                        if real_after:
                            want["real"] = True
                            if not rs:      # a real expression declares fock and eri symmetric
                                want["sym"] = want["sym"] | sc.fv
                                want["content"] = sc.ref_apply(want["content"], want["sym"], want["anti"])
                        try:
                            r = cx.call(c, meth, *args, return_sympy=rs)
                        except Raised as ex:
                            out.append((f"{cname}: {meth}(return_sympy={rs})", "R06e", [("leaves", f"raises {ex.name}")]))
                            continue
                        if rs:
                            g, w = cx.value(r), cx.value(want["content"])
                            d = [] if g == w else [("structure" if sc.leaf_multiset(r) == sc.leaf_multiset(want["content"]) else
                                                    "leaves", f"gives {g[:500]}; expected {w[:500]}")]
                        elif isinstance(r, Obj) and r.cls == f"{EC}:Expr":
                            d = sc.diff(sc.observe(r), want)
                        else:
                            d = [("leaves", f"does not return an Expr: {cx.show(r)[:200]}")]
                        out.append((f"{cname} ({cx.show(held)[:80]}): {meth}(return_sympy={rs})", "R06e", d))
            return out
        o = _one(ctx, sc, f"lower levels of {owner}", sc.rich, call)
        if o.kind != "return":
            ctx.bad("R06e", node, f"lower container levels of {owner}: raises {o.exc}", key=f"lower {owner}")
            continue
        for label, rule, d in o.value:
            # wrappers: a wrong flag / declaration on the wrapper is part of the homomorphism clause here
            d = [("leaves" if k == "state" else k, t) for k, t in d]
            _report(ctx, sc, rule, node, f"{owner}: {label}", f"lower {owner} {label}", d)


KINDS = ("AntiSymmetricTensor", "Amplitude", "SymmetricTensor", "NonSymmetricTensor", "KroneckerDelta")


def decision_table(ctx):
    """R06f: which object gets which symmetry (class x declared name x present symmetry x exponent), observed through
    Expr(content, sym_tensors=['x'], antisym_tensors=['y']) on contents that consist of one object."""
    sc = Scene(ctx)
    cx = sc.cx
    node = ctx.model.fn(f"{EC}:Expr.__init__")
    for kind, name, bks, expo in itertools.product(KINDS, ("x", "y", "z"), (0, 1, -1), (1, 2)):
        if kind not in TENSOR_CLASSES and bks:
            continue
        conflict = (name == "x" and bks == -1) or (name == "y" and bks == 1)
        if conflict and expo != 1:
            continue

        def build(diag=False):
            i, j, a, b = sc.i, sc.j, sc.a, sc.b
            if kind == "KroneckerDelta":
                leaf = sc.delta(i, j)
            elif kind == "NonSymmetricTensor":
                leaf = sc.nonsym(name, (a, i))
            else:
                leaf = sc.tensor(kind, name, (b, a), (b, a) if diag else (j, i), bks)
            return t_pow(leaf, expo)

        def call(content):
            got = sc.observe(cx.construct("Expr", content, sym_tensors=["x"], antisym_tensors=["y"]))
            return sc.diff(got, sc.r_init(content, False, ["x"], ["y"]))
        label = f"Expr({kind} {name!r} with bra_ket_sym={bks}{' squared' if expo == 2 else ''}, sym_tensors=['x'], antisym_tensors=['y'])"
        o = _one(ctx, sc, label, build, call)
        if conflict:
            ctx.check("R06f", node, o.kind == "raise", f"{label}: the opposite symmetry is refused",
                      f"{label}: a tensor that carries the opposite bra-ket symmetry is accepted: {o.value if o.kind == 'return' else ''}",
                      key=f"table {label}")
            continue
        if o.kind != "return":
            ctx.bad("R06f", node, f"{label}: raises {o.exc}", key=f"table {label}")
            continue
        _report(ctx, sc, "R06f", node, label, f"table {label}", o.value)
        if kind in TENSOR_CLASSES and bks == 0:
            # upper group == lower group: declared antisymmetric the tensor (and with it the content) vanishes
            label = label.replace(f"{kind} ", f"diagonal {kind} ")
            o = _one(ctx, sc, label, lambda: build(True), call)
            if o.kind != "return":
                ctx.bad("R06f", node, f"{label}: raises {o.exc}", key=f"table {label}")
                continue
            _report(ctx, sc, "R06f", node, label, f"table {label}", o.value)


def add_bra_ket_sym(ctx):
    """R06f: AntiSymmetricTensor.add_bra_ket_sym(b) (public): same symmetry -> the tensor itself; none set -> the same
    class rebuilt from name and index groups with b; a different one already set -> refused."""
    sc = Scene(ctx)
    cx = sc.cx
    for cname in TENSOR_CLASSES:
        node = _resolve(cx.sx, cname, "add_bra_ket_sym")
        for cur, req in itertools.product((0, 1, -1), repeat=2):
            def call(_):
                t = sc.tensor(cname, "X", (sc.b, sc.a), (sc.j, sc.i), cur)
                leaf = [x for x in ([t] + list(t.args if isinstance(t, T) and t.op == "mul" else [])) if cx.resolve(x) is not x]
                r = cx.resolve(leaf[0])
                got = cx.call(r, "add_bra_ket_sym", req)
                name, (up, lo, b) = sc.parts(r)
                want = r if cur == req else cx.construct(cname, name, up, lo, req)
                return cx.value(got), cx.value(want)
            o = _one(ctx, sc, "add_bra_ket_sym", lambda: None, call)
            label = f"{cname} with bra_ket_sym={cur}: add_bra_ket_sym({req})"
            if cur == req or cur == 0:
                ok = o.kind == "return" and o.value[0] == o.value[1]
                want = "the tensor itself" if cur == req else "the same tensor rebuilt with the symmetry"
            else:
                ok, want = o.kind == "raise", "refused (the original index order is lost)"
            ctx.check("R06f", node, ok, f"{label}: {want}",
                      f"{label}: gives {o.value if o.kind == 'return' else 'raise ' + str(o.exc)}, expected {want}",
                      key=f"abks {cname} {cur} {req}")


def _floors(ctx):
    if ctx.violations:
        return          # scenarios that end in a violation are not evaluated further: the counts say nothing then
    for rule, minimum in (("R06a", 4), ("R06c", 40), ("R06d", 100), ("R06e", 100), ("R06f", 100)):
        if ctx.want(rule) and (ctx.only_rule is None or ctx.only_rule == rule):
            ctx.floor(rule, "evaluated scenarios", ctx.per_rule.get(rule, {}).get("obligations", 0), minimum)


def run(ctx):
    _run(ctx)
    _floors(ctx)


def _run(ctx):
    if ctx.want("R06a"):
        r06a(ctx)
    if ctx.want("R06b"):
        r06b(ctx)
    if ctx.want("R06c"):
        r06c(ctx)
    if ctx.want("R06d"):
        r06d(ctx)
    if ctx.want("R06e") or ctx.want("R06f"):
        expr_machine(ctx)
        decision_table(ctx)
    if ctx.want("R06e"):
        lower_levels(ctx)
    if ctx.want("R06f"):
        add_bra_ket_sym(ctx)
