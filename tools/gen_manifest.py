#!/usr/bin/env python3
"""Regenerates MANIFEST.json from the rule modules present in sa/rules."""
import importlib
import json
import os
import sys

HERE = os.path.dirname(os.path.dirname(os.path.abspath(__file__)))
sys.path.insert(0, HERE)

BASELINE = ("cd /repo && /venv/bin/python -m pytest -ra -q -p no:cacheprovider "
            "--timeout=900 --continue-on-collection-errors")

NOTE = ("Decides the listed clauses (necessary conditions of the property) from the source of /repo alone: the "
        "functions named by the rules are evaluated by /verif's own abstract interpreter (sa/symex.py: symbolic terms for "
        "everything the analysis does not look into, forking on symbolic branches by decision replay, bounded unrolling of "
        "loops over symbolic collections; no constraint solver) on small abstract inputs chosen by the rule, and the "
        "evaluated values / sums of products / decision tables are compared with expected behaviour written down "
        "independently in the rule.  adcgen is never imported or executed.  The verdict depends on what the code computes, "
        "not on how it is spelled (checked by behaviour-preserving witnesses and the refactoring corpus).  It does NOT decide "
        "the behavioural equality the property states for all inputs: inputs are bounded as listed, and the primitives named "
        "in the assumptions (sympy, wicks, ...) are uninterpreted or modelled.  Trusted base: CPython's ast parser, the "
        "evaluator and rule implementations under /verif/sa.")


def main():
    props = [json.loads(l) for l in open(os.path.join(HERE, "properties.jsonl"))]
    fixes = []
    kf = os.path.join(HERE, "known_findings.json")
    if os.path.exists(kf):
        for f in json.load(open(kf)).get("findings", []):
            if f.get("status") == "fixed" and f.get("commit"):
                if f["commit"] not in fixes:
                    fixes.append(f["commit"])
    checks, na = [], []
    for p in props:
        pid = p["id"]
        try:
            m = importlib.import_module(f"sa.rules.{pid.lower()}")
        except ModuleNotFoundError:
            na.append({"property_id": pid, "reason": "static rules for this property are "
                       "not built yet; taken whole it quantifies over runtime values"})
            continue
        checks.append({
            "property_id": pid,
            "quick_cmd": f"./check {pid} --tier quick",
            "thorough_cmd": f"./check {pid} --tier thorough",
            "evidence_file": f"evidence/{pid}.json",
            "replay_cmd_template": f"./check {pid} --replay {{path}}",
            "engine": "sa",
            "level_claimed": {
                "category": "other",
                "text": ("Static analysis of /repo's source by abstract evaluation: " + m.EXPLANATION +
                         " A passing run means these necessary conditions hold on the explored abstract "
                         "inputs, not that the behavioural property is proved."),
                "design_ref": f"DESIGN.md section 4, {pid}",
            },
            "level_note": NOTE + " " + " ".join(m.ASSUMPTIONS),
            "technique": getattr(m, "TECHNIQUE", "repository-specific static analysis: abstract interpretation of the "
                                 "source over symbolic terms (uninterpreted calls, decision replay, bounded unrolling) "
                                 "with value / decision-table / sum-of-products comparison against independently "
                                 "written expected behaviour; no execution of adcgen, no solver"),
        })
    man = {
        "version": 1,
        "setup_cmd": "true",
        "hooks": {
            "guard": "ADCGEN_VERIF",
            "enable": "none needed: the checks only read the source of /repo/adcgen; no hook "
                      "or instrumentation exists in /repo",
            "baseline_off_cmd": BASELINE,
            "source_commits": [],
            "add_only": True,
        },
        "engines": [{
            "name": "sa", "path": "sa/",
            "serves_properties": [c["property_id"] for c in checks],
            "kind_free_text": "repository-specific static analysis on Python's ast: an abstract interpreter over "
                              "symbolic terms (sa/symex.py), a concrete decision-table evaluator (sa/abseval.py), a "
                              "shape-flow analysis (sa/shapeflow.py) and rule-side models/oracles; never imports or "
                              "runs adcgen",
        }],
        "checks": checks,
        "not_applicable": na,
        "notes": "exit 0 holds / exit 1 VIOLATION / exit 2 ANALYSIS-ERROR (anchor vanished or "
                 "shape not recognised). No hook or instrumentation commit exists in /repo (hooks.source_commits is "
                 "empty). The unguarded `fix:` commits in /repo that repair genuine defects are: "
                 + ", ".join(fixes) + " (one per finding, see known_findings.json: `fixed:` entries suppress "
                 "nothing; `known` entries F23, F51, F52 are printed as KNOWN-FINDING lines).",
    }
    with open(os.path.join(HERE, "MANIFEST.json"), "w") as f:
        json.dump(man, f, indent=1)
        f.write("\n")
    print("claimed", len(checks), "not_applicable", len(na))


if __name__ == "__main__":
    main()
