S = "simplify.py"
E = "expr_container.py"

_GUARD = ("                    if is_target != other_is_target or \\\n                            (is_target and other_is_target and\n"
          "                             idx is not other_idx):\n                        continue\n")
_ACCEPT = "            if not isinstance(term.sympy - sub_other_term, Add):\n                return sub"
_ZERO = "            if sub_other_term is S.Zero and other_term.sympy is not S.Zero:\n                continue\n"

_CACHE_DEF = ("def find_compatible_terms(terms: list[e.Term]) -> dict:",
              "_term_data_cache: dict = {}\n\n\ndef find_compatible_terms(terms: list[e.Term]) -> dict:")


def _CACHE_LOOKUP(key):
    return ("    for term_i, term in enumerate(terms):\n        # target indices\n        target = term.target\n",
            "    for term_i, term in enumerate(terms):\n"
            f"        if (cached := _term_data_cache.get({key}, None)) is not None:\n"
            "            target, pattern, key = cached\n            term_target.append(target)\n"
            "            term_pattern.append(pattern)\n            filtered_terms[key].append(term_i)\n            continue\n"
            "        # target indices\n        target = term.target\n")


def _CACHE_STORE(key):
    return ("        filtered_terms[key].append(term_i)\n\n    compatible_terms = {}",
            f"        filtered_terms[key].append(term_i)\n        _term_data_cache[{key}] = (target, pattern, key)\n\n    compatible_terms = {{}}")


_SORTED = ("    terms = sorted(\n        expr.terms,\n        key=lambda t: str(t.substitute_contracted(return_sympy=True))\n    )\n")
_NAMES = ("                lower_names = [sort_idx_canonical(s)[2:] for s in lower]\n"
          "                upper_names = [sort_idx_canonical(s)[2:] for s in upper]\n")

_TERMS = ('        """Returns all terms the expression contains."""\n        return tuple(Term(self, i) for i in range(len(self)))\n')
_INIT_T = ("        self._target_idx: None | tuple[Index] = None\n        if target_idx is not None:\n",
           "        self._target_idx: None | tuple[Index] = None\n        self._terms: None | tuple = None\n        if target_idx is not None:\n")
_SET_T = ("        if target_idx is None:\n            self._target_idx = None\n        else:\n            target_idx = set(get_symbols(target_idx))\n")


def _TERMS_CACHED(stale_test, key):
    return (_TERMS, '        """Returns all terms the expression contains."""\n        cached = self._terms\n'
            f"        if cached is None or {stale_test}:\n            cached = ({key},\n"
            "                      tuple(Term(self, i) for i in range(len(self))))\n            self._terms = cached\n        return cached[-1]\n")


WITNESSES = [
    # ------------------------------------------------------------------ breaking edits (old set, rule ids kept)
    dict(id="c07-accept-without-test", prop="C07", file=S, expect="R07a", old=_ACCEPT, new="            return sub"),
    dict(id="c07-zero-guard", prop="C07", file=S, expect="R07a", old=_ZERO, new=""),
    dict(id="c07-test-wrong-term", prop="C07", file=S, expect="R07a",
         old="            if not isinstance(term.sympy - sub_other_term, Add):", new="            if not isinstance(term.sympy - other_term.sympy, Add):"),
    dict(id="c07-unordered", prop="C07", file=S, expect="R0",
         old="            sub = order_substitutions(sub)\n            sub_other_term", new="            sub = list(sub.items())\n            sub_other_term"),
    dict(id="c07-target-mix", prop="C07", file=S, expect="R07b", old=_GUARD, new=""),
    dict(id="c07-target-swap-allowed", prop="C07", file=S, expect="R07b",
         old=_GUARD, new="                    if is_target != other_is_target:\n                        continue\n"),
    dict(id="c07-direction", prop="C07", file=S, expect="R07b",
         old="                        extended_sub[other_idx] = idx", new="                        extended_sub[idx] = other_idx"),
    dict(id="c07-matched-missing", prop="C07", file=S, expect="R07c",
         old="                    compatible_terms[term_i][other_term_i] = sub\n                    matched.add(other_term_i)", new="                    compatible_terms[term_i][other_term_i] = sub"),
    dict(id="c07-key-no-target", prop="C07", file=S, expect="R07c",
         old="               repeating_idx_sp(tensor_idx_list), pattern_key, target)", new="               repeating_idx_sp(tensor_idx_list), pattern_key)"),
    dict(id="c07-simplify-nosub", prop="C07", file=S, expect="R07c",
         old="            res += terms[other_n].subs(sub)", new="            res += terms[other_n]"),
    dict(id="c07-uplo", prop="C07", file=E, expect="R07e",
         old="                    if tensor.bra_ket_sym is S.Zero:\n                        pos = f\"{description}-{uplo}\"", new="                    if tensor.bra_ket_sym is not S.Zero:\n                        pos = f\"{description}-{uplo}\""),
    dict(id="c07-ok-rename", prop="C07", file=S, expect=None,
         old=_ACCEPT, new="            difference = term.sympy - sub_other_term\n            if not isinstance(term.sympy - sub_other_term, Add):\n                return sub"),

    # ------------------------------------------------------------------ breaking edits for the new checks
    # acceptance table
    dict(id="c07-accept-sum", prop="C07", file=S, expect="R07a",
         old="            if not isinstance(term.sympy - sub_other_term, Add):", new="            if isinstance(term.sympy - sub_other_term, Add):"),
    dict(id="c07-zero-guard-inverted", prop="C07", file=S, expect=["R07a", "R07b"],
         old="            if sub_other_term is S.Zero and other_term.sympy is not S.Zero:", new="            if sub_other_term is not S.Zero and other_term.sympy is not S.Zero:"),
    dict(id="c07-zero-guard-too-wide", prop="C07", file=S, expect="R07b",
         old="            if sub_other_term is S.Zero and other_term.sympy is not S.Zero:", new="            if sub_other_term is S.Zero or other_term.sympy is not S.Zero:"),
    dict(id="c07-return-unordered-map", prop="C07", file=S, expect=["R07a", "R08a"],
         old="        for sub in sub_list:\n            sub = order_substitutions(sub)\n            sub_other_term = other_term.sympy.subs(sub)",
         new="        for raw_sub in sub_list:\n            sub = raw_sub\n            sub_other_term = other_term.sympy.subs(order_substitutions(raw_sub))"),
    dict(id="c07-first-map-only", prop="C07", file=S, expect="R07b",
         old="                return sub\n        return None  # no valid sub dict -> return None", new="                return sub\n            break\n        return None  # no valid sub dict -> return None"),
    # candidate maps
    dict(id="c07-pattern-ignored", prop="C07", file=S, expect="R07b",
         old="                    if pat == other_pat:\n                        matching_idx.append(other_idx)", new="                    matching_idx.append(other_idx)"),
    dict(id="c07-shared-map-extended-in-place", prop="C07", file=S, expect=["R07b", "R07c"],
         old="                        extended_sub = sub.copy()", new="                        extended_sub = sub"),
    dict(id="c07-first-space-only", prop="C07", file=S, expect="R07b",
         old="                sub_list = [other_sp_sub | sub for other_sp_sub, sub in\n                            product(sub_list, ov_sub_list)]",
         new="                sub_list = [other_sp_sub for other_sp_sub, sub in\n                            product(sub_list, ov_sub_list)]"),
    dict(id="c07-target-test-on-names", prop="C07", file=S, expect="R07b",
         old="                    other_is_target = other_idx in target", new="                    other_is_target = is_target"),
    # bookkeeping
    dict(id="c07-matched-key-skipped", prop="C07", file=S, expect="R07c",
         old="            if term_i in matched:  # term already mapped\n                continue\n\n            compatible_terms[term_i] = {}",
         new="            compatible_terms[term_i] = {}"),
    dict(id="c07-compare-neighbours-only", prop="C07", file=S, expect="R07c",
         old="            for other_i in range(i+1, len(term_idx_list)):", new="            for other_i in range(i+1, min(i+2, len(term_idx_list))):"),
    dict(id="c07-key-no-descriptions", prop="C07", file=S, expect="R07c",
         old="        key = (length, tuple(sorted(descriptions)),", new="        key = (length,"),
    dict(id="c07-key-no-shared-subspaces", prop="C07", file=S, expect="R07c",
         old="               repeating_idx_sp(tensor_idx_list), pattern_key, target)", new="               pattern_key, target)"),
    dict(id="c07-key-no-pattern-sizes", prop="C07", file=S, expect="R07c",
         old="               repeating_idx_sp(tensor_idx_list), pattern_key, target)", new="               repeating_idx_sp(tensor_idx_list), target)"),
    dict(id="c07-prefactor-counted", prop="C07", file=S, expect="R07c",
         old="            if (descr := o.description()) == 'prefactor':\n                continue\n            elif", new="            descr = o.description()\n            if"),
    dict(id="c07-pattern-without-targets", prop="C07", file=S, expect="R07c",
         old="        pattern = term.pattern()", new="        pattern = term.pattern(include_target_idx=False)"),
    dict(id="c07-terms-guard", prop="C07", file=S, expect="R07c",
         old="    if not all(isinstance(term, e.Term) for term in terms):\n        raise Inputerror(\"Expected terms as a list of term Containers.\")\n", new=""),
    # simplify
    dict(id="c07-simplify-key-dropped", prop="C07", file=S, expect="R07c",
         old="        res += terms[n]\n        for other_n", new="        for other_n"),
    dict(id="c07-simplify-key-twice", prop="C07", file=S, expect="R07c",
         old="            res += terms[other_n].subs(sub)", new="            res += terms[n].subs(sub)"),
    dict(id="c07-simplify-unexpanded", prop="C07", file=S, expect="R07c",
         old="    expr = expr.expand()\n\n    if len(expr) == 1:  # trivial: only a single term\n        return expr\n",
         new="    if len(expr) == 1:  # trivial: only a single term\n        return expr\n\n    expr = expr.expand()\n"),
    dict(id="c07-simplify-shortcut-two", prop="C07", file=S, expect="R07c",
         old="    if len(expr) == 1:  # trivial: only a single term", new="    if len(expr) <= 2:  # trivial"),
    dict(id="c07-simplify-guard", prop="C07", file=S, expect="R07c",
         old="    if not isinstance(expr, e.Expr):\n        raise Inputerror(\"The expression to simplify needs to be provided as \"\n                         f\"{e.Expr} object.\")\n", new=""),
    # fingerprints
    dict(id="c07-descr-antisym-oriented", prop="C07", file=E, expect="R07e",
         old="                    if base.bra_ket_sym is S.Zero:  # no bra ket symmetry", new="                    if base.bra_ket_sym is not S.One:  # no bra ket symmetry"),
    dict(id="c07-descr-no-exponent", prop="C07", file=E, expect="R07e",
         old="            if include_exponent:  # add exponent to description\n                descr += f\"-{exponent}\"", new="            pass"),
    dict(id="c07-descr-no-name", prop="C07", file=E, expect="R07e",
         old="            descr += f\"-{base.name}-{data_u}-{data_l}\"", new="            descr += f\"-{data_u}-{data_l}\""),
    dict(id="c07-descr-targets-unsorted", prop="C07", file=E, expect="R07e",
         old="                                f\"-{'-'.join(sorted([target_u, target_l]))}\"", new="                                f\"-{'-'.join([target_u, target_l])}\""),
    dict(id="c07-descr-nonsym-target-position", prop="C07", file=E, expect="R07e",
         old="                target_str = \"\".join(s.name + str(i) for i, s in\n                                     enumerate(self.idx) if s in target)",
         new="                target_str = \"\".join(s.name for i, s in\n                                     enumerate(self.idx) if s in target)"),
    dict(id="c07-pos-no-neighbour-targets", prop="C07", file=E, expect="R07e",
         old="                        if neighbour_target:\n                            pos += f\"-{''.join(neighbour_target)}\"", new="                        pass"),
    dict(id="c07-pos-no-neighbour-spaces", prop="C07", file=E, expect="R07e",
         old="                        pos += f\"-{neighbour_data}\"", new="                        pass"),
    dict(id="c07-pos-nonsym-position", prop="C07", file=E, expect="R07e",
         old="                ret[s].append(f\"{description}_{i}\")", new="                ret[s].append(f\"{description}\")"),
    dict(id="c07-pos-lower-dropped", prop="C07", file=E, expect="R07e",
         old="                    {'u': tensor.upper, 'l': tensor.lower}.items():", new="                    {'u': tensor.upper}.items():"),
    dict(id="c07-pattern-unsorted", prop="C07", file=E, expect="R07e",
         old="                pattern[ov][s] = sorted(pat)", new="                pattern[ov][s] = list(pat)"),
    dict(id="c07-pattern-by-space-only", prop="C07", file=E, expect="R07e",
         old="                key = s.space_and_spin\n                if key not in pattern:", new="                key = s.space\n                if key not in pattern:"),
    dict(id="c07-pattern-no-coupling", prop="C07", file=E, expect="R07e",
         old="                    pattern[key][s].extend((p + c for p in pos))", new="                    pattern[key][s].extend((p for p in pos))"),
    dict(id="c07-coupling-self", prop="C07", file=E, expect="R07e",
         old="                if i == other_i:\n                    continue\n                matches = [idx for idx in idx_pos", new="                matches = [idx for idx in idx_pos"),
    dict(id="c07-coupling-own-positions", prop="C07", file=E, expect="R07e",
         old="                    [p for s in matches for p in other_idx_pos[s]]", new="                    [p for s in matches for p in idx_pos[s]]"),
    dict(id="c07-pattern-flags-not-forwarded", prop="C07", file=E, expect="R07e",
         old="            positions = o.crude_pos(include_target_idx=include_target_idx,\n                                    include_exponent=include_exponent)",
         new="            positions = o.crude_pos(include_target_idx=False,\n                                    include_exponent=include_exponent)"),

    # ------------------------------------------------------------------ behaviour-preserving edits of new kinds
    # operands of the difference exchanged (the test asks only whether it is a sum)
    dict(id="c07-ok-difference-reversed", prop="C07", file=S, expect=None,
         old="            if not isinstance(term.sympy - sub_other_term, Add):", new="            if not isinstance(sub_other_term - term.sympy, Add):"),
    # commuted conjunction in the spurious-zero guard
    dict(id="c07-ok-zero-guard-commuted", prop="C07", file=S, expect=None,
         old="            if sub_other_term is S.Zero and other_term.sympy is not S.Zero:", new="            if other_term.sympy is not S.Zero and sub_other_term is S.Zero:"),
    # acceptance loop restructured: reject-branches as continue, accept at the end of the body
    dict(id="c07-ok-accept-restructured", prop="C07", file=S, expect=None,
         old=_ZERO + "            # diff (or sum) is a single term (no Add obj)\n            # can either sum up to 0 or to a single term with a different pref\n            # -> check for type of result and not for result value\n" + _ACCEPT,
         new="            spurious = other_term.sympy is not S.Zero and sub_other_term is S.Zero\n            if spurious or isinstance(term.sympy - sub_other_term, Add):\n                continue\n            return sub"),
    # itertools.product replaced by explicit nested loops
    dict(id="c07-ok-product-as-loops", prop="C07", file=S, expect=None,
         old="                    for sub, other_idx in product(ov_sub_list, matching_idx):\n                        # other_idx is already mapped onto another idx\n                        if other_idx in sub:\n                            continue\n                        # copy the sub_dict to avoid inplace modification\n                        extended_sub = sub.copy()\n                        extended_sub[other_idx] = idx\n                        new_ov_sub_list.append(extended_sub)",
         new="                    for sub in ov_sub_list:\n                        for other_idx in matching_idx:\n                            if other_idx not in sub:\n                                new_ov_sub_list.append({**sub, other_idx: idx})"),
    # redundant early rejection removed: a map that assigns an index twice overwrites its entry, stays incomplete and is
    # removed by the completeness filter anyway
    dict(id="c07-ok-redundant-injectivity-test", prop="C07", file=S, expect=None,
         old="                        if other_idx in sub:\n                            continue\n", new=""),
    # target membership through a set built once
    dict(id="c07-ok-target-set", prop="C07", file=S, expect=None,
         edits=[("        sub_list: list[dict] = []\n        for ov, idx_pattern in pattern.items():", "        sub_list: list[dict] = []\n        target_set = set(target)\n        for ov, idx_pattern in pattern.items():"),
                ("                is_target = idx in target\n", "                is_target = idx in target_set\n"),
                ("                    other_is_target = other_idx in target\n", "                    other_is_target = other_idx in target_set\n")]),
    # bookkeeping of matched terms in a list instead of a set, guard inverted into a nested block
    dict(id="c07-ok-matched-list", prop="C07", file=S, expect=None,
         edits=[("        matched = set()\n", "        matched = []\n"),
                ("                    matched.add(other_term_i)", "                    matched.append(other_term_i)")]),
    # prefilter key: components reordered and nested differently
    dict(id="c07-ok-key-reordered", prop="C07", file=S, expect=None,
         old="        key = (length, tuple(sorted(descriptions)),\n               repeating_idx_sp(tensor_idx_list), pattern_key, target)",
         new="        key = ((target, pattern_key), repeating_idx_sp(tensor_idx_list),\n               (tuple(sorted(descriptions)), length))"),
    # prefilter classes in a plain dict with setdefault instead of a defaultdict
    dict(id="c07-ok-plain-dict-classes", prop="C07", file=S, expect=None,
         edits=[("    filtered_terms = defaultdict(list)\n", "    filtered_terms = {}\n"),
                ("        filtered_terms[key].append(term_i)", "        filtered_terms.setdefault(key, []).append(term_i)")]),
    # simplify: summands collected first, added afterwards; shortcut written as '< 2'
    dict(id="c07-ok-simplify-collect", prop="C07", file=S, expect=None,
         edits=[("    if len(expr) == 1:  # trivial: only a single term", "    if len(expr) < 2:  # trivial: only a single term"),
                ("        res += terms[n]\n        for other_n, sub in matches.items():\n            res += terms[other_n].subs(sub)",
                 "        summands = [terms[n]]\n        for other_n, sub in matches.items():\n            summands.append(terms[other_n].subs(sub))\n        for summand in summands:\n            res += summand")]),
    # description: bra-ket symmetry compared by value, branches exchanged
    dict(id="c07-ok-descr-sym-by-value", prop="C07", file=E, expect=None,
         old="                    if base.bra_ket_sym is S.Zero:  # no bra ket symmetry", new="                    if base.bra_ket_sym == 0:  # no bra ket symmetry"),
    # description: sorted pair via min/max
    dict(id="c07-ok-descr-minmax", prop="C07", file=E, expect=None,
         old="                                f\"-{'-'.join(sorted([target_u, target_l]))}\"",
         new="                                f\"-{min(target_u, target_l)}-{max(target_u, target_l)}\""),
    # crude_pos: neighbours by position instead of identity, dict of lists via defaultdict-free get
    dict(id="c07-ok-neighbours-by-position", prop="C07", file=E, expect=None,
         edits=[("                for s in idx_tpl:\n                    # space (upper/lower) in which the tensor occurs", "                for n_s, s in enumerate(idx_tpl):\n                    # space (upper/lower) in which the tensor occurs"),
                ("                    neighbours = [i for i in idx_tpl if i is not s]", "                    neighbours = idx_tpl[:n_s] + idx_tpl[n_s + 1:]")]),
    # coupling: list.count instead of a Counter
    dict(id="c07-ok-coupling-count", prop="C07", file=E, expect=None,
         old="            if descr_counter[descr] < 2:", new="            if descriptions.count(descr) < 2:"),
    # pattern: suffix concatenated through join, sorted on a copy
    dict(id="c07-ok-pattern-join", prop="C07", file=E, expect=None,
         edits=[("                    pattern[key][s].extend((p + c for p in pos))", "                    pattern[key][s].extend(\"\".join((p, c)) for p in pos)"),
                ("                pattern[ov][s] = sorted(pat)", "                pattern[ov][s] = sorted(list(pat), reverse=False)")]),
    # pattern: a different (but fixed) separator between position and coupling - the fingerprint partition is unchanged
    dict(id="c07-ok-pattern-separator", prop="C07", file=E, expect=None,
         old="            c = f\"_{'_'.join(sorted(coupl[i]))}\" if i in coupl else None", new="            c = f\"|{'|'.join(sorted(coupl[i]))}\" if i in coupl else None"),

    # ------------------------------------------------------------------ state kept between calls (R07f)
    # module-level cache of (target, pattern, key) keyed by the sympy term only: stale after the same term was seen with
    # other target indices
    dict(id="c07-cache-without-targets", prop="C07", file=S, expect="R07f", edits=[_CACHE_DEF, _CACHE_LOOKUP("term.sympy"),
                                                                                  _CACHE_STORE("term.sympy")]),
    # cache of the prefilter key only (pattern and target recomputed): still merges/separates by the stale class
    dict(id="c07-cache-key-only", prop="C07", file=S, expect="R07f",
         edits=[_CACHE_DEF,
                ("        key = (length, tuple(sorted(descriptions)),\n               repeating_idx_sp(tensor_idx_list), pattern_key, target)\n",
                 "        key = _term_data_cache.setdefault(term.sympy, (\n            length, tuple(sorted(descriptions)),\n"
                 "            repeating_idx_sp(tensor_idx_list), pattern_key, target))\n")]),
    # matched set kept at module level and never reset: terms matched in an earlier call are skipped later
    dict(id="c07-matched-across-calls", prop="C07", file=S, expect=["R07f", "R07c"],
         edits=[("def find_compatible_terms(terms: list[e.Term]) -> dict:", "_matched_terms: set = set()\n\n\ndef find_compatible_terms(terms: list[e.Term]) -> dict:"),
                ("        matched = set()\n", "        matched = _matched_terms\n")]),
    # correct caches: key holds the target indices as well / cache emptied at the start of every call
    dict(id="c07-ok-cache-with-targets", prop="C07", file=S, expect=None,
         edits=[_CACHE_DEF, _CACHE_LOOKUP("(term.sympy, term.target)"), _CACHE_STORE("(term.sympy, term.target)")]),
    dict(id="c07-ok-cache-cleared-per-call", prop="C07", file=S, expect=None,
         edits=[_CACHE_DEF, _CACHE_LOOKUP("term.sympy"), _CACHE_STORE("term.sympy"),
                ("    filtered_terms = defaultdict(list)\n", "    _term_data_cache.clear()\n    filtered_terms = defaultdict(list)\n")]),
    dict(id="c07-ok-cache-local", prop="C07", file=S, expect=None,
         edits=[("    filtered_terms = defaultdict(list)\n", "    _term_data_cache: dict = {}\n    filtered_terms = defaultdict(list)\n"),
                _CACHE_LOOKUP("term.sympy"), _CACHE_STORE("term.sympy")]),

    # ------------------------------------------------------------------ terms without indices
    # index-free terms (numbers, symbols) skipped and never registered: simplify drops them
    dict(id="c07-index-free-terms-dropped", prop="C07", file=S, expect="R07c",
         edits=[("    term_pattern = []\n    term_target = []\n", "    term_pattern = {}\n    term_target = {}\n"),
                ("    for term_i, term in enumerate(terms):\n        # target indices\n        target = term.target\n        term_target.append(target)\n",
                 "    for term_i, term in enumerate(terms):\n        if not term.idx:\n            continue\n        # target indices\n"
                 "        target = term.target\n        term_target[term_i] = target\n"),
                ("        term_pattern.append(pattern)\n", "        term_pattern[term_i] = pattern\n")]),
    # the same shortcut done right: index-free terms skip the fingerprinting but get a class of their own
    dict(id="c07-ok-index-free-terms-own-class", prop="C07", file=S, expect=None,
         old="    for term_i, term in enumerate(terms):\n        # target indices\n        target = term.target\n        term_target.append(target)\n",
         new="    for term_i, term in enumerate(terms):\n        if not term.idx:\n            term_target.append(term.target)\n"
             "            term_pattern.append({})\n            filtered_terms[('no index', term_i)].append(term_i)\n            continue\n"
             "        # target indices\n        target = term.target\n        term_target.append(target)\n"),
    # index-free terms registered but compared with nothing (length-zero pattern shortcut inside the comparison loop)
    dict(id="c07-ok-index-free-terms-not-compared", prop="C07", file=S, expect=None,
         old="            for other_i in range(i+1, len(term_idx_list)):\n",
         new="            if not pattern:\n                continue\n            for other_i in range(i+1, len(term_idx_list)):\n"),
    # simplify drops pure numbers before the search and forgets to add them back
    dict(id="c07-simplify-numbers-lost", prop="C07", file=S, expect="R07c",
         old="    terms = sorted(\n        expr.terms,\n", new="    terms = sorted(\n        (t for t in expr.terms if t.idx),\n"),

    # ------------------------------------------------------------------ F50: representative independent of the term order
    dict(id="c07-F50-revert", prop="C07", file=S, expect="R07g", old=_SORTED, new="    terms = expr.terms\n"),
    # sorted, but by the text with the current (history dependent) index names
    dict(id="c07-sorted-by-raw-text", prop="C07", file=S, expect="R07g",
         old="        key=lambda t: str(t.substitute_contracted(return_sympy=True))\n", new="        key=lambda t: str(t.sympy)\n"),
    # sorted in the opposite direction: still independent of the order, but not the documented representative
    dict(id="c07-sorted-descending", prop="C07", file=S, expect="R07g",
         old="        key=lambda t: str(t.substitute_contracted(return_sympy=True))\n",
         new="        key=lambda t: str(t.substitute_contracted(return_sympy=True)), reverse=True\n"),
    dict(id="c07-ok-F50-sort-in-place", prop="C07", file=S, expect=None, old=_SORTED,
         new="    def canonical_text(term):\n        return str(term.substitute_contracted(return_sympy=True))\n\n"
             "    terms = list(expr.terms)\n    terms.sort(key=canonical_text)\n"),
    dict(id="c07-ok-F50-decorate-sort", prop="C07", file=S, expect=None, old=_SORTED,
         new="    keyed = [(str(t.substitute_contracted(return_sympy=True)), n, t)\n             for n, t in enumerate(expr.terms)]\n"
             "    terms = [t for _, _, t in sorted(keyed, key=lambda entry: entry[:2])]\n"),
    # ------------------------------------------------------------------ F33: both orientations of a symmetric tensor canonical
    dict(id="c07-F33-revert", prop="C07", file="sympy_objects.py", expect="R07h", old=_NAMES,
         new="                lower_names = [(int(s.name[1:]) if s.name[1:] else 0,\n                               s.name[0]) for s in lower]\n"
             "                upper_names = [(int(s.name[1:]) if s.name[1:] else 0,\n                               s.name[0]) for s in upper]\n"),
    # the swap decided by the names as plain strings: 'j0' < 'j' is False, 'j' < 'j0' True - consistent, but i#2 / i tie
    dict(id="c07-swap-by-name-text", prop="C07", file="sympy_objects.py", expect="R07h", old=_NAMES,
         new="                lower_names = [s.name for s in lower]\n                upper_names = [s.name for s in upper]\n"),
    dict(id="c07-ok-F33-keys-through-map", prop="C07", file="sympy_objects.py", expect=None, old=_NAMES,
         new="                lower_names = [key[2:] for key in map(sort_idx_canonical, lower)]\n"
             "                upper_names = [key[2:] for key in map(sort_idx_canonical, upper)]\n"),
    dict(id="c07-ok-F33-swap-inverted-test", prop="C07", file="sympy_objects.py", expect=None,
         old=_NAMES + "                if lower_names < upper_names:\n                    return True\n",
         new=_NAMES + "                return not upper_names <= lower_names\n"),

    # positions of delta / operator indices paired with an unbounded itertools.repeat
    dict(id="c07-ok-operator-positions-zip-repeat", prop="C07", file=E, expect=None,
         old="            for s in self.idx:\n                if s not in ret:\n                    ret[s] = []\n                ret[s].append(description)\n",
         new="            from itertools import repeat\n            for s, pos in zip(self.idx, repeat(description)):\n"
             "                ret.setdefault(s, []).append(pos)\n"),
    # ... and the breaking counterpart: every operator index gets the position list of the first one (shared list)
    dict(id="c07-operator-positions-dropped", prop="C07", file=E, expect="R07e",
         old="            for s in self.idx:\n                if s not in ret:\n                    ret[s] = []\n                ret[s].append(description)\n",
         new="            for s in self.idx[:1]:\n                if s not in ret:\n                    ret[s] = []\n                ret[s].append(description)\n"),

    # ------------------------------------------------------------------ R07i: views of an Expr follow its current assumptions
    # Term containers cached until the wrapped sympy object is replaced: set_target_idx does not replace it, the memoised
    # descriptions / patterns of the cached terms keep the old target names
    dict(id="c07-terms-cached-until-sympy-replaced", prop="C07", file=E, expect="R07i",
         edits=[_INIT_T, _TERMS_CACHED("cached[0] is not self._expr", "self._expr")]),
    # ... invalidated by set_target_idx only on the way to the Einstein convention
    dict(id="c07-terms-cache-invalidated-for-none-only", prop="C07", file=E, expect="R07i",
         edits=[_INIT_T, _TERMS_CACHED("cached[0] is not self._expr", "self._expr"),
                (_SET_T, "        if target_idx is None:\n            self._target_idx = None\n            self._terms = None\n        else:\n"
                            "            target_idx = set(get_symbols(target_idx))\n")]),
    # the term list as a cached_property of the expression: never rebuilt, stale also after the wrapped object was replaced
    dict(id="c07-terms-cached-property", prop="C07", file=E, expect="R07i",
         old='    @property\n    def terms(self) -> tuple[\'Term\']:\n' + _TERMS, new='    @cached_property\n    def terms(self) -> tuple[\'Term\']:\n' + _TERMS),
    # preserving twins: the same cache, dropped by set_target_idx / keyed by the wrapped object AND the target indices
    dict(id="c07-ok-terms-cache-dropped-by-set-target", prop="C07", file=E, expect=None,
         edits=[_INIT_T, _TERMS_CACHED("cached[0] is not self._expr", "self._expr"),
                (_SET_T, "        self._terms = None\n" + _SET_T)]),
    dict(id="c07-ok-terms-cache-keyed-with-targets", prop="C07", file=E, expect=None,
         edits=[_INIT_T, _TERMS_CACHED("cached[0] is not self._expr or cached[1] != self._target_idx", "self._expr, self._target_idx")]),
    # the cached views are kept, their memoised fingerprints are thrown away when the target indices change
    dict(id="c07-ok-terms-cache-fingerprints-cleared", prop="C07", file=E, expect=None,
         edits=[_INIT_T, _TERMS_CACHED("cached[0] is not self._expr", "self._expr"),
                (_SET_T, "        for cached_term in (self._terms[-1] if self._terms else ()):\n            cached_term._function_cache = {}\n"
                            "            cached_term._property_cache = {}\n" + _SET_T)]),
    # term list built by an explicit loop
    dict(id="c07-ok-terms-loop", prop="C07", file=E, expect=None, old=_TERMS,
         new='        """Returns all terms the expression contains."""\n        views = []\n        for pos in range(len(self)):\n'
             "            views.append(Term(self, pos))\n        return tuple(views)\n"),
]
