S = "sympy_objects.py"
E = "expr_container.py"
WITNESSES = [
    dict(id="c06-cascade-drop-elif", prop="C06", file=S, expect="R06a",
         old="        elif space_l == space_u:  # diagonal block", new="        else:"),
    dict(id="c06-cascade-mixed-keys", prop="C06", file=S, expect="R06a",
         old="            if spin_l < spin_u:\n                return True", new="            if spin_l < space_u:\n                return True"),
    # since F33 the name keys contain the identity of the index: they are equal only for identical groups, whose exchange
    # changes nothing (and the diagonal of a bra-ket antisymmetric tensor is zero before the comparison): <= is harmless now
    dict(id="c06-ok-cascade-le", prop="C06", file=S, expect=None,
         old="                if lower_names < upper_names:", new="                if lower_names <= upper_names:"),
    dict(id="c06-cascade-name-number-lost", prop="C06", file=S, expect="R06a",
         old="""                lower_names = [sort_idx_canonical(s)[2:] for s in lower]
                upper_names = [sort_idx_canonical(s)[2:] for s in upper]""",
         new="""                lower_names = [s.name[0] for s in lower]
                upper_names = [s.name[0] for s in upper]"""),
    dict(id="c06-sign-lost", prop="C06", file=S, expect="R06c",
         old="                if bra_ket_sym is S.NegativeOne:  # add another -1\n                    sign_u += 1",
         new="                if bra_ket_sym is S.One:  # add another -1\n                    sign_u += 1"),
    dict(id="c06-sign-only-upper", prop="C06", file=S, expect="R06c",
         old="        if (sign_u + sign_l) % 2:", new="        if sign_u % 2:"),
    dict(id="c06-sym-negative", prop="C06", file=S, expect="R06c",
         old="                if bra_ket_sym is S.NegativeOne:\n                    negative_sign = True",
         new="                if bra_ket_sym is not S.One:\n                    negative_sign = False"),
    dict(id="c06-swap-unsorted", prop="C06", file=S, expect="R06c",
         old="                upper, lower = lower, upper  # swap\n                if bra_ket_sym is S.NegativeOne:  # add",
         new="                lower, upper = lower, upper  # swap\n                if bra_ket_sym is S.NegativeOne:  # add"),
    dict(id="c06-delta-spin", prop="C06", file=S, expect="R06d",
         old="        if spi and spj and spi != spj:  # delta_ab / delta_ba", new="        if (spi or spj) and spi != spj:  # delta_ab / delta_ba"),
    dict(id="c06-delta-space", prop="C06", file=S, expect="R06d",
         old='        if spi != "g" and spj != "g" and spi != spj:', new='        if spi != "g" and spi != spj:'),
    dict(id="c06-delta-order", prop="C06", file=S, expect="R06d",
         old="        if i != min(i, j, key=sort_idx_canonical):\n            return cls(j, i)",
         new="        if i != min(i, j, key=sort_idx_canonical):\n            return cls(i, j)"),
    dict(id="c06-polynom-exponent", prop="C06", file=E, expect="R06e",
         old="        real = Pow(real, self.exponent)\n", new=""),
    dict(id="c06-term-add", prop="C06", file=E, expect="R06e",
         old="        term_with_sym = Mul(*[o._apply_tensor_braket_sym(return_sympy=True)", new="        term_with_sym = Add(*[o._apply_tensor_braket_sym(return_sympy=True)"),
    dict(id="c06-obj-exponent", prop="C06", file=E, expect="R06e",
         old="                obj_with_sym = Pow(base.add_bra_ket_sym(bra_ket_sym),\n                                   exponent)",
         new="                obj_with_sym = base.add_bra_ket_sym(bra_ket_sym)"),
    dict(id="c06-expr-filter", prop="C06", file=E, expect="R06e",
         old="        self._expr = Add(*[t.make_real(return_sympy=True)\n                           for t in self.terms])",
         new="        self._expr = Add(*[t.make_real(return_sympy=True)\n                           for t in self.terms if t.tensors])"),
    dict(id="c06-rename-forward", prop="C06", file=E, expect="R06e",
         old="        renamed = Add(*(term.rename_tensor(current, new, return_sympy=True)", new="        renamed = Add(*(term.rename_tensor(new, current, return_sympy=True)"),
    dict(id="c06-makereal-no-early", prop="C06", file=E, expect="R06f",
         old="        if self._real:\n            return self\n\n        self._real = True", new="        self._real = True"),
    dict(id="c06-obj-sym-guard", prop="C06", file=E, expect="R06f",
         old="            elif name in self.antisym_tensors and \\\n                    base.bra_ket_sym is not S.NegativeOne:",
         new="            elif name in self.antisym_tensors or \\\n                    base.bra_ket_sym is not S.NegativeOne:"),
    dict(id="c06-addbks-overwrite", prop="C06", file=S, expect="R06f",
         old="        elif self.bra_ket_sym is S.Zero:\n            return self.__class__(", new="        elif True:\n            return self.__class__("),
    # preserving
    dict(id="c06-ok-cascade-refactor", prop="C06", file=S, expect=None,
         old="""        if space_l < space_u:  # space with more occ should be upper
            return True
        elif space_l == space_u:  # diagonal block""",
         new="""        if space_l < space_u:  # space with more occ should be upper
            return True
        if space_l > space_u:
            return False
        if True:"""),
    dict(id="c06-ok-term-genexpr", prop="C06", file=E, expect=None,
         old="        term_with_sym = Mul(*[o._apply_tensor_braket_sym(return_sympy=True)\n                              for o in self.objects])",
         new="        term_with_sym = Mul(*(obj._apply_tensor_braket_sym(return_sympy=True)\n                              for obj in self.objects))"),
    dict(id="c06-ok-new-refactor", prop="C06", file=S, expect=None,
         old="        if (sign_u + sign_l) % 2:\n            return - super().__new__(cls, name, upper, lower,\n                                     bra_ket_sym)\n        else:\n            return super().__new__(cls, name, upper, lower, bra_ket_sym)",
         new="        obj = super().__new__(cls, name, upper, lower, bra_ket_sym)\n        return -obj if (sign_u + sign_l) % 2 == 1 else obj"),
    # ------------------------------------------------------------------ new kinds of behaviour-preserving refactorings
    # guard written as set algebra instead of two membership tests
    dict(id="c06-ok-makereal-set-difference", prop="C06", file=E, expect=None,
         old="""        sym_tensors = self._sym_tensors
        if tensor_names.fock not in sym_tensors or \\
                tensor_names.eri not in sym_tensors:
            self._sym_tensors.update([tensor_names.fock, tensor_names.eri])
            self._apply_tensor_braket_sym()""",
         new="""        missing = {tensor_names.fock, tensor_names.eri} - self._sym_tensors
        if missing:
            self._sym_tensors |= missing
            self._apply_tensor_braket_sym()"""),
    # copy, modify, compare and write back instead of in-place update behind a test
    dict(id="c06-ok-makereal-copy-compare", prop="C06", file=E, expect=None,
         old="""        sym_tensors = self._sym_tensors
        if tensor_names.fock not in sym_tensors or \\
                tensor_names.eri not in sym_tensors:
            self._sym_tensors.update([tensor_names.fock, tensor_names.eri])
            self._apply_tensor_braket_sym()""",
         new="""        declared = self._sym_tensors.union((tensor_names.fock, tensor_names.eri))
        if declared != self._sym_tensors:
            self._sym_tensors = declared
            self._apply_tensor_braket_sym()"""),
    # independent statements reordered: the flag is set after the symmetry block and after the renaming
    dict(id="c06-ok-makereal-flag-last", prop="C06", file=E, edits=[
        ("        self._real = True\n        sym_tensors = self._sym_tensors\n", "        sym_tensors = self._sym_tensors\n"),
        ("        if self.sympy.is_number:\n            return self\n        self._expr = Add(*[t.make_real(return_sympy=True)\n                           for t in self.terms])\n        return self",
         "        self._real = True\n        if self.sympy.is_number:\n            return self\n        self._expr = Add(*[t.make_real(return_sympy=True)\n                           for t in self.terms])\n        return self")],
         expect=None),
    # union operator and conditional expression, equality test with early return
    dict(id="c06-ok-setsym-union", prop="C06", file=E, expect=None,
         old="""        sym_tensors: set = set(sym_tensors)
        if self.real:
            sym_tensors.update([tensor_names.fock, tensor_names.eri])
        if sym_tensors != self._sym_tensors:
            self._sym_tensors = sym_tensors
            self._apply_tensor_braket_sym()""",
         new="""        implied = {tensor_names.fock, tensor_names.eri} if self.real else set()
        declared = set(sym_tensors) | implied
        if declared == self._sym_tensors:
            return
        self._sym_tensors = declared
        self._apply_tensor_braket_sym()"""),
    # the target indices (independent of the tensor symmetry) are stored last
    dict(id="c06-ok-init-target-last", prop="C06", file=E, edits=[
        ("        self._target_idx: None | tuple[Index] = None\n        if target_idx is not None:\n            self.set_target_idx(target_idx)\n",
         "        self._target_idx: None | tuple[Index] = None\n"),
        ("        if real:\n            self.make_real()\n\n    def __str__(self):\n        return latex(self.sympy)\n\n    def __len__(self):\n        # 0 has length 1",
         "        if real:\n            self.make_real()\n        if target_idx is not None:\n            self.set_target_idx(target_idx)\n\n    def __str__(self):\n        return latex(self.sympy)\n\n    def __len__(self):\n        # 0 has length 1")],
         expect=None),
    # product accumulated with the * operator, flag passed positionally
    dict(id="c06-ok-term-accumulate", prop="C06", file=E, expect=None,
         old="        real_term = Mul(*(o.make_real(return_sympy=True)\n                          for o in self.objects))",
         new="        real_term = S.One\n        for factor in self.objects:\n            real_term = real_term * factor.make_real(True)"),
    # ** operator instead of Pow, sum() with a start value instead of Add(*...)
    dict(id="c06-ok-polynom-operators", prop="C06", file=E, expect=None,
         old="        with_sym = Add(*[t._apply_tensor_braket_sym(return_sympy=True)\n                         for t in self.terms])\n        with_sym = Pow(with_sym, self.exponent)",
         new="        with_sym = sum((t._apply_tensor_braket_sym(return_sympy=True)\n                        for t in self.terms), S.Zero) ** self.exponent"),
    # table driven decision instead of if/elif
    dict(id="c06-ok-obj-sym-table", prop="C06", file=E, expect=None,
         old="""            bra_ket_sym = None
            if (name := base.name) in self.sym_tensors and \\
                    base.bra_ket_sym is not S.One:
                bra_ket_sym = 1
            elif name in self.antisym_tensors and \\
                    base.bra_ket_sym is not S.NegativeOne:
                bra_ket_sym = -1""",
         new="""            bra_ket_sym = None
            for declared, present, wanted in ((self.sym_tensors, S.One, 1),
                                              (self.antisym_tensors, S.NegativeOne, -1)):
                if base.name in declared and base.bra_ket_sym is not present:
                    bra_ket_sym = wanted
                    break"""),
    # type(x) instead of x.__class__, argument tuple built by concatenation
    dict(id="c06-ok-rename-type", prop="C06", file=E, expect=None,
         old="""            if isinstance(base, AntiSymmetricTensor):
                args = (new, base.upper, base.lower, base.bra_ket_sym)
            elif isinstance(base, NonSymmetricTensor):
                args = (new, base.indices)
            else:
                raise TypeError(f"Unknown tensor type {type(base)}.")
            base = base.__class__(*args)""",
         new="""            if isinstance(base, AntiSymmetricTensor):
                index_args = (base.upper, base.lower, base.bra_ket_sym)
            elif isinstance(base, NonSymmetricTensor):
                index_args = (base.indices,)
            else:
                raise TypeError(f"Unknown tensor type {type(base)}.")
            base = type(base)(*((new,) + index_args))"""),
    # cascade of comparisons written as one lexicographic tuple comparison
    dict(id="c06-ok-swap-tuple-compare", prop="C06", file=S, expect=None,
         old="""        space_u = [s.space[0] for s in upper]
        space_l = [s.space[0] for s in lower]
        if space_l < space_u:  # space with more occ should be upper
            return True
        elif space_l == space_u:  # diagonal block
            # compare the spin of both index blocks:
            # space with more spin orbitals or alpha spin should be upper.
            spin_u = [s.spin for s in upper]
            spin_l = [s.spin for s in lower]
            if spin_l < spin_u:
                return True
            elif spin_l == spin_u:  # diagonal spin block
                # compare the names of indices (number, letter). Different
                # indices that share number and letter ('i' and 'i0' or
                # multiple unregistered indices of the same name) are
                # distinguished as in sort_idx_canonical.
                lower_names = [sort_idx_canonical(s)[2:] for s in lower]
                upper_names = [sort_idx_canonical(s)[2:] for s in upper]
                if lower_names < upper_names:
                    return True
        return False""",
         new="""        def group_key(group):
            return ([s.space[0] for s in group], [s.spin for s in group],
                    [(int(s.name[1:] or 0), s.name[0], s.dummy_index) for s in group])
        return group_key(lower) < group_key(upper)"""),
    # sign as arithmetic factor instead of a branch
    dict(id="c06-ok-new-sign-factor", prop="C06", file=S, expect=None,
         old="        if (sign_u + sign_l) % 2:\n            return - super().__new__(cls, name, upper, lower,\n                                     bra_ket_sym)\n        else:\n            return super().__new__(cls, name, upper, lower, bra_ket_sym)",
         new="        return (-1) ** (sign_u + sign_l) * super().__new__(cls, name, upper, lower, bra_ket_sym)"),
    # both groups sorted by one generator expression
    dict(id="c06-ok-symnew-generator", prop="C06", file=S, expect=None,
         old="        upper = sorted(upper, key=sort_idx_canonical)\n        lower = sorted(lower, key=sort_idx_canonical)\n        # account for the bra ket symmetry",
         new="        upper, lower = (sorted(group, key=sort_idx_canonical) for group in (upper, lower))\n        # account for the bra ket symmetry"),
    # direct comparison of the sort keys instead of min(..., key=)
    dict(id="c06-ok-delta-key-compare", prop="C06", file=S, expect=None,
         old="        if i != min(i, j, key=sort_idx_canonical):\n            return cls(j, i)",
         new="        if sort_idx_canonical(j) < sort_idx_canonical(i):\n            return cls(j, i)"),
    # guard clauses and type(self)
    dict(id="c06-ok-addbks-guards", prop="C06", file=S, expect=None,
         old="""        if bra_ket_sym == self.bra_ket_sym:
            return self
        elif self.bra_ket_sym is S.Zero:
            return self.__class__(self.symbol, self.upper, self.lower,
                                  bra_ket_sym)
        else:
            raise Inputerror(""",
         new="""        present = self.bra_ket_sym
        if bra_ket_sym == present:
            return self
        if present is S.Zero:
            return type(self)(self.symbol, upper=self.upper, lower=self.lower,
                              bra_ket_sym=bra_ket_sym)
        if True:
            raise Inputerror("""),
    # sum() instead of the accumulation loop
    dict(id="c06-ok-rename-sum", prop="C06", file=E, expect=None,
         old="        renamed = 0\n        for t in self.terms:\n            renamed += t.rename_tensor(current, new, return_sympy=True)\n        self._expr = renamed",
         new="        self._expr = sum(t.rename_tensor(current, new=new, return_sympy=True) for t in self.terms)"),
    # the redundant early declaration of fock/eri in the constructor dropped (make_real declares and applies them)
    dict(id="c06-ok-init-no-preadd", prop="C06", file=E, expect=None,
         old="            if real:\n                self._sym_tensors.update([tensor_names.fock, tensor_names.eri])\n            self._apply_tensor_braket_sym()",
         new="            self._apply_tensor_braket_sym()"),
    # the class named explicitly instead of cls / super()
    dict(id="c06-ok-delta-class-named", prop="C06", file=S, expect=None,
         old="        if i != min(i, j, key=sort_idx_canonical):\n            return cls(j, i)",
         new="        first, _ = sorted((i, j), key=sort_idx_canonical)\n        if first is not i:\n            return KroneckerDelta(j, i)"),
    dict(id="c06-ok-new-extracted-classmethod", prop="C06", file=S, edits=[
        ("""        bra_ket_sym = sympify(bra_ket_sym)
        if bra_ket_sym is not S.Zero and \\
                all(isinstance(s, Index) for s in upper+lower):
            if bra_ket_sym not in [S.One, S.NegativeOne]:
                raise Inputerror("Invalid bra ket symmetry given "
                                 f"{bra_ket_sym}. Valid are 0, 1 or -1.")
            # bra-ket antisymmetry forces the diagonal to vanish:
            # d^{pq}_{pq} = - d^{pq}_{pq} = 0
            if bra_ket_sym is S.NegativeOne and list(upper) == list(lower):
                return S.Zero
            if cls._need_bra_ket_swap(upper, lower):
                upper, lower = lower, upper  # swap
                if bra_ket_sym is S.NegativeOne:  # add another -1
                    sign_u += 1
        # import all quantities to sympy""",
         """        bra_ket_sym = sympify(bra_ket_sym)
        upper, lower, swapped = cls._bra_ket_canonical(upper, lower, bra_ket_sym)
        if swapped is None:
            return S.Zero
        if swapped and bra_ket_sym is S.NegativeOne:  # add another -1
            sign_u += 1
        # import all quantities to sympy"""),
        ("""    @classmethod
    def _need_bra_ket_swap(cls, upper: tuple[Index],
                           lower: tuple[Index]) -> bool:""",
         """    @classmethod
    def _bra_ket_canonical(cls, upper, lower, bra_ket_sym):
        # add the Index check for subs to work correctly
        if bra_ket_sym is S.Zero or \\
                not all(isinstance(s, Index) for s in upper+lower):
            return upper, lower, False
        if bra_ket_sym not in [S.One, S.NegativeOne]:
            raise Inputerror("Invalid bra ket symmetry given "
                             f"{bra_ket_sym}. Valid are 0, 1 or -1.")
        if bra_ket_sym is S.NegativeOne and list(upper) == list(lower):
            return upper, lower, None  # the diagonal vanishes
        if cls._need_bra_ket_swap(upper=upper, lower=lower):
            return lower, upper, True
        return upper, lower, False

    @classmethod
    def _need_bra_ket_swap(cls, upper: tuple[Index],
                           lower: tuple[Index]) -> bool:""")], expect=None),
    # dictionary merge instead of item assignment for the assumptions of the wrapper
    dict(id="c06-ok-term-wrapper-dict-merge", prop="C06", file=E, expect=None,
         old="        real_term = Mul(*(o.make_real(return_sympy=True)\n                          for o in self.objects))\n        if return_sympy:\n            return real_term\n        assumptions = self.assumptions\n        assumptions['real'] = True\n        return Expr(real_term, **assumptions)",
         new="        real_term = Mul(*(o.make_real(return_sympy=True)\n                          for o in self.objects))\n        if return_sympy:\n            return real_term\n        return Expr(real_term, **{**self.assumptions, 'real': True})"),
    # ------------------------------------------------------------------ round 4: private helpers are not anchors
    # every private method that applies the declared symmetry renamed (all levels)
    dict(id="c06-ok-private-apply-renamed", prop="C06", file=E, expect=None,
         edits=[("_apply_tensor_braket_sym", "_add_declared_braket_symmetry")] * 11),
    # the bra-ket comparison as a module level private function, early returns (cf. refactoring 4D2)
    dict(id="c06-ok-swap-module-function", prop="C06", file=S, expect=None, edits=[
        ("""class SymbolicTensor(Expr):
    \"\"\"Base class for symbolic tensors.\"\"\"
""", """def _lower_group_first(upper, lower) -> bool:
    if len(upper) != len(lower):
        raise NotImplementedError("Bra Ket symmetry only implemented "
                                  "for tensors with an equal amount "
                                  "of upper and lower indices.")
    for attr in (lambda s: s.space[0], lambda s: s.spin,
                 lambda s: (int(s.name[1:]) if s.name[1:] else 0, s.name[0], s.dummy_index)):
        key_u, key_l = [attr(s) for s in upper], [attr(s) for s in lower]
        if key_l != key_u:
            return key_l < key_u
    return False


class SymbolicTensor(Expr):
    \"\"\"Base class for symbolic tensors.\"\"\"
"""),
        ("            if cls._need_bra_ket_swap(upper, lower):\n                upper, lower = lower, upper  # swap\n                if bra_ket_sym is S.NegativeOne:  # add another -1",
         "            if _lower_group_first(upper, lower):\n                upper, lower = lower, upper  # swap\n                if bra_ket_sym is S.NegativeOne:  # add another -1"),
        ("            if cls._need_bra_ket_swap(upper, lower):\n                upper, lower = lower, upper  # swap\n                if bra_ket_sym is S.NegativeOne:\n                    negative_sign = True",
         "            if _lower_group_first(upper, lower):\n                upper, lower = lower, upper  # swap\n                if bra_ket_sym is S.NegativeOne:\n                    negative_sign = True")]),
    # the Term level of the symmetry application as a module level private function that looks into the objects itself
    dict(id="c06-ok-term-level-module-function", prop="C06", file=E, expect=None, edits=[
        ("class Expr(Container):\n    \"\"\"\n    Wrapper for an algebraic expression.",
         "def _term_with_braket_sym(term):\n    factors = []\n    for o in term.objects:\n        if o.sympy.is_number:  # nothing to canonicalise\n            factors.append(o.sympy)\n        else:\n            factors.append(o._apply_tensor_braket_sym(return_sympy=True))\n    return Mul(*factors)\n\n\nclass Expr(Container):\n    \"\"\"\n    Wrapper for an algebraic expression."),
        ("        expr_with_sym = Add(*[t._apply_tensor_braket_sym(return_sympy=True)\n                              for t in self.terms])",
         "        expr_with_sym = Add(*[_term_with_braket_sym(t) for t in self.terms])")]),
    # breaking counterparts
    dict(id="c06-swap-module-function-names-only", prop="C06", file=S, expect=["R06a", "R06b"], edits=[
        ("""class SymbolicTensor(Expr):
    \"\"\"Base class for symbolic tensors.\"\"\"
""", """def _lower_group_first(upper, lower) -> bool:
    if len(upper) != len(lower):
        raise NotImplementedError("Bra Ket symmetry only implemented "
                                  "for tensors with an equal amount "
                                  "of upper and lower indices.")
    for attr in (lambda s: s.space[0], lambda s: s.spin, lambda s: s.name[0]):
        key_u, key_l = [attr(s) for s in upper], [attr(s) for s in lower]
        if key_l != key_u:
            return key_l < key_u
    return False


class SymbolicTensor(Expr):
    \"\"\"Base class for symbolic tensors.\"\"\"
"""),
        ("            if cls._need_bra_ket_swap(upper, lower):\n                upper, lower = lower, upper  # swap\n                if bra_ket_sym is S.NegativeOne:  # add another -1",
         "            if _lower_group_first(upper, lower):\n                upper, lower = lower, upper  # swap\n                if bra_ket_sym is S.NegativeOne:  # add another -1")]),
    dict(id="c06-term-level-module-function-skips-polynoms", prop="C06", file=E, expect=["R06e", "R06f"], edits=[
        ("class Expr(Container):\n    \"\"\"\n    Wrapper for an algebraic expression.",
         "def _term_with_braket_sym(term):\n    factors = []\n    for o in term.objects:\n        if not isinstance(o.base, SymbolicTensor):  # nothing to canonicalise\n            factors.append(o.sympy)\n        else:\n            factors.append(o._apply_tensor_braket_sym(return_sympy=True))\n    return Mul(*factors)\n\n\nclass Expr(Container):\n    \"\"\"\n    Wrapper for an algebraic expression."),
        ("        expr_with_sym = Add(*[t._apply_tensor_braket_sym(return_sympy=True)\n                              for t in self.terms])",
         "        expr_with_sym = Add(*[_term_with_braket_sym(t) for t in self.terms])")]),
    # ------------------------------------------------------------------ round 5: repaired defects F32, F33
    dict(id="c06-F32-revert", prop="C06", file=S, expect=["R06b", "R06c"], edits=[("""            # bra-ket antisymmetry forces the diagonal to vanish:
            # d^{pq}_{pq} = - d^{pq}_{pq} = 0
            if bra_ket_sym is S.NegativeOne and list(upper) == list(lower):
                return S.Zero
""", "")] * 2),
    dict(id="c06-F32-revert-symmetric-only", prop="C06", file=S, expect=["R06b", "R06c"],
         old="""            # bra-ket antisymmetry forces the diagonal to vanish:
            # d^{pq}_{pq} = - d^{pq}_{pq} = 0
            if bra_ket_sym is S.NegativeOne and list(upper) == list(lower):
                return S.Zero
            if cls._need_bra_ket_swap(upper, lower):
                upper, lower = lower, upper  # swap
                if bra_ket_sym is S.NegativeOne:
                    negative_sign = True""",
         new="""            if cls._need_bra_ket_swap(upper, lower):
                upper, lower = lower, upper  # swap
                if bra_ket_sym is S.NegativeOne:
                    negative_sign = True"""),
    dict(id="c06-ok-F32-twin", prop="C06", file=S, expect=None, edits=[
        ("            if bra_ket_sym is S.NegativeOne and list(upper) == list(lower):\n                return S.Zero\n",
         "            diagonal = len(upper) == len(lower) and all(u is l for u, l in zip(upper, lower))\n            if diagonal and bra_ket_sym == -1:\n                return S.Zero\n")] * 2),
    dict(id="c06-F33-revert", prop="C06", file=S, expect=["R06a", "R06b"],
         old="""                lower_names = [sort_idx_canonical(s)[2:] for s in lower]
                upper_names = [sort_idx_canonical(s)[2:] for s in upper]""",
         new="""                lower_names = [(int(s.name[1:]) if s.name[1:] else 0,
                               s.name[0]) for s in lower]
                upper_names = [(int(s.name[1:]) if s.name[1:] else 0,
                               s.name[0]) for s in upper]"""),
    dict(id="c06-ok-F33-twin", prop="C06", file=S, expect=None,
         old="""                lower_names = [sort_idx_canonical(s)[2:] for s in lower]
                upper_names = [sort_idx_canonical(s)[2:] for s in upper]""",
         new="""                def name_key(s):
                    number = int(s.name[1:]) if s.name[1:] else 0
                    return (number, s.name[0], s.dummy_index)
                lower_names = list(map(name_key, lower))
                upper_names = list(map(name_key, upper))"""),
    # ------------------------------------------------------------------ breaking witnesses for the new checks
    dict(id="c06-amplitude-own-ordering", prop="C06", file=S, expect=["R06a", "R06b"],
         old="""    @property
    def idx(self) -> tuple[Index]:
        \"\"\"
        Returns all indices of the amplitude. The lower indices are""",
         new="""    @classmethod
    def _need_bra_ket_swap(cls, upper, lower):
        return False

    @property
    def idx(self) -> tuple[Index]:
        \"\"\"
        Returns all indices of the amplitude. The lower indices are"""),
    dict(id="c06-sym-lower-unsorted", prop="C06", file=S, expect=["R06b", "R06c"],
         old="        lower = sorted(lower, key=sort_idx_canonical)\n        # account for the bra ket symmetry", new="        lower = list(lower)\n        # account for the bra ket symmetry"),
    dict(id="c06-swap-without-symmetry", prop="C06", file=S, expect=["R06b", "R06c"],
         old="""        bra_ket_sym = sympify(bra_ket_sym)
        if bra_ket_sym is not S.Zero and \\
                all(isinstance(s, Index) for s in upper+lower):
            if bra_ket_sym not in [S.One, S.NegativeOne]:
                raise Inputerror("Invalid bra ket symmetry given "
                                 f"{bra_ket_sym}. Valid are 0, 1 or -1.")
            # bra-ket antisymmetry forces the diagonal to vanish:
            # d^{pq}_{pq} = - d^{pq}_{pq} = 0
            if bra_ket_sym is S.NegativeOne and list(upper) == list(lower):
                return S.Zero
            if cls._need_bra_ket_swap(upper, lower):
                upper, lower = lower, upper  # swap
                if bra_ket_sym is S.NegativeOne:  # add another -1
                    sign_u += 1""",
         new="""        bra_ket_sym = sympify(bra_ket_sym)
        if all(isinstance(s, Index) for s in upper+lower):
            if bra_ket_sym not in [S.Zero, S.One, S.NegativeOne]:
                raise Inputerror("Invalid bra ket symmetry given "
                                 f"{bra_ket_sym}. Valid are 0, 1 or -1.")
            if bra_ket_sym is S.NegativeOne and list(upper) == list(lower):
                return S.Zero
            if len(upper) == len(lower) and cls._need_bra_ket_swap(upper, lower):
                upper, lower = lower, upper  # swap
                if bra_ket_sym is S.NegativeOne:  # add another -1
                    sign_u += 1"""),
    dict(id="c06-sort-key-dropped", prop="C06", file=S, expect=["R06b", "R06c"],
         old="            lower, sign_l = _sort_anticommuting_fermions(\n                lower, key=sort_idx_canonical\n            )",
         new="            lower, sign_l = _sort_anticommuting_fermions(\n                lower, key=lambda s: s.name\n            )"),
    dict(id="c06-delta-power-negative", prop="C06", file=S, expect="R06d",
         old="        elif exp.is_negative and exp is not S.NegativeOne:\n            return 1/self", new="        elif exp.is_negative and exp is not S.NegativeOne:\n            return self"),
    dict(id="c06-init-antisym-not-applied", prop="C06", file=E, expect="R06f",
         old="        if self._sym_tensors or self._antisym_tensors:\n            if real:", new="        if self._sym_tensors:\n            if real:"),
    dict(id="c06-setsym-real-dropped", prop="C06", file=E, expect="R06f",
         old="        sym_tensors: set = set(sym_tensors)\n        if self.real:\n            sym_tensors.update([tensor_names.fock, tensor_names.eri])\n", new="        sym_tensors: set = set(sym_tensors)\n"),
    dict(id="c06-setantisym-stale-apply", prop="C06", file=E, expect="R06f",
         old="            self._antisym_tensors = antisym_tensors\n            self._apply_tensor_braket_sym()", new="            self._apply_tensor_braket_sym()\n            self._antisym_tensors = antisym_tensors"),
    dict(id="c06-setsym-guard-type", prop="C06", file=E, expect="R06f",
         old='        if not all(isinstance(t, str) for t in sym_tensors):\n            raise Inputerror("Symmetric tensors need to be provided as str.")\n', new=""),
    dict(id="c06-term-wrapper-drops-assumptions", prop="C06", file=E, expect="R06e",
         old="            return Expr(renamed, **self.assumptions)\n\n    def expand_antisym_eri(self, return_sympy: bool = False):\n        \"\"\"\n        Expands the antisymmetric ERI using chemists notation",
         new="            return Expr(renamed)\n\n    def expand_antisym_eri(self, return_sympy: bool = False):\n        \"\"\"\n        Expands the antisymmetric ERI using chemists notation"),
    dict(id="c06-obj-real-groups-exchanged", prop="C06", file=E, expect="R06e",
         old="                    Amplitude(new, base.upper, base.lower, base.bra_ket_sym),", new="                    Amplitude(new, base.lower, base.upper, base.bra_ket_sym),"),
    dict(id="c06-obj-rename-symmetry-lost", prop="C06", file=E, expect="R06e",
         old="                args = (new, base.upper, base.lower, base.bra_ket_sym)", new="                args = (new, base.upper, base.lower)"),
    dict(id="c06-obj-real-flag-not-set", prop="C06", file=E, expect="R06e",
         old="        assumptions = self.assumptions\n        assumptions['real'] = True\n        return Expr(real_obj, **assumptions)", new="        return Expr(real_obj, **self.assumptions)"),
    dict(id="c06-rename-guard", prop="C06", file=E, expect="R06e",
         old="        if not isinstance(current, str) or not isinstance(new, str):\n            raise Inputerror(\"Old and new tensor name need to be provided as \"\n                             \"strings.\")\n        renamed = 0",
         new="        renamed = 0"),
    # Term containers are views (expression, position): taken before the symmetry is applied they read the re-canonicalised
    # content, but bra-ket partners that the symmetry identifies are collected into one summand, so the stale positions
    # no longer enumerate the summands (x^b_i + x^i_b -> 2 x^i_b is processed twice)
    dict(id="c06-makereal-terms-before-symmetry", prop="C06", file=E, expect=["R06e", "R06f"], edits=[
        ("        self._real = True\n        sym_tensors = self._sym_tensors\n", "        self._real = True\n        terms = self.terms\n        sym_tensors = self._sym_tensors\n"),
        ("        self._expr = Add(*[t.make_real(return_sympy=True)\n                           for t in self.terms])", "        self._expr = Add(*[t.make_real(return_sympy=True)\n                           for t in terms])")]),
]
