"""C13 orbital-energy fraction algebra and Fock diagonalisation (decided by abstract evaluation)."""
from __future__ import annotations

import ast
from fractions import Fraction

from ..model import AnalysisError
from ..symex import Obj
from ..terms import T, sym, t_mul, t_add, is_num, subterms
from .c13_model import (World, arg, NAMES, E, lin, tensor, norm, value, same_value, raw, raw_name, substitute, linear_form,
                        permutation_map, as_self, fmt, frac)

EXPLANATION = (
    "Every function is evaluated by the abstract evaluator (sa.symex) over a model of the container algebra "
    "(sa/rules/c13_model.py): a container is a record that carries a value (sums/products/powers of numbers, index symbols and "
    "tensor atoms, normalised like sympy's automatic evaluation) and its assumptions; terms, objects, brackets, prefactors, indices "
    "are derived from the value. The verdicts compare the evaluated result with the expected value written down independently, by "
    "exact rational evaluation at pseudo-random points (every tensor atom an independent unknown); source spelling never enters. "
    "R13a: canonicalize_sign on 15 fractions (numerator/brackets with right, wrong, mixed signs; odd/even powers; only_denom): "
    "pref*num/denom unchanged and afterwards occupied energies added, virtual subtracted; signs that no factor -1 can fix are "
    "refused; Term.sign table. R13b: permute_num, Term.symmetrize and derivative compute 1/(n+1) (x + sum_P f_P P x) over exactly the "
    "operations with a factor (only contracted indices, given eri symmetry forwarded); denom_eri_sym decision table (P D = D keeps "
    "the factor, P D = -D negates it, otherwise None; instance untouched); denom_eri_sym and permute_num evaluated together on "
    "terms with and without denominator, with and without a given remainder symmetry, the remainder carrying target indices, both "
    "values of only_contracted: the numerator is only symmetrised with operations on contracted indices. R13c: D^(U)_(L) (SymmetricTensor, bra-ket symmetry -1) "
    "stands for 1/(sum e_U - sum e_L): symbolic_denominator(brackets) = 1/denominator and Obj.use_explicit_denominators(D**n) = "
    "(sum e_U - sum e_L)**(-n) under that meaning (both directions against the same interpretation), registration / "
    "de-registration of the name, brackets with coefficients other than +-1 refused, Term/Expr.use_symbolic_denominators rebuild "
    "the term / add every term once. R13d: homomorphism by evaluation on all container levels of use_explicit_denominators, "
    "block_diagonalize_fock, expand_antisym_eri, expand_intermediates: M(sum t) = sum M(t), M(prod o) = prod M(o), "
    "M((sum t)**n) = (sum M(t))**n, outer arguments forwarded by parameter name, raw values requested, targets / registrations "
    "kept; Obj.expand_antisym_eri = ((pr|qs) - (ps|qr))**n with the spin-allowed parts; Obj.expand_intermediates: n separate "
    "expansions for an integer exponent n > 1, definition**n otherwise, on the indices of the object. R13e: split_orb_energy "
    "(classification of every object, num*remainder/denom = term, targets), contains_only_orb_energies tables, "
    "(objects of the remainder keep negative exponents), cancel_denom_brackets / cancel_eri_objects (one power per listing, instance untouched), EriOrbenergy.__init__ (pref*num*eri/denom "
    "= term, smallest coefficient extracted), factor_and_remove_number, EriOrbenergy.expr. R13f: Obj.block_diagonalize_fock table "
    "(only f_ov/f_vo vanish; general index keeps the element), Obj.diagonalize_fock table (survivor of delta_pq, exponent kept, "
    "removed index substituted, off-diagonal 0, both targets: kept, default targets), Term.diagonalize_fock (product, substitutions "
    "closed under chains and applied, contradictions refused, polynom parent gets product + substitutions, targets set and "
    "forwarded), Expr.diagonalize_fock (sum, targets kept), polynoms refused. R13g: factor_eri_parts / factor_denom return one "
    "sub-expression per key term with every matched term transformed by its own substitution / permutation exactly once, "
    "assumptions kept; find_compatible_eri_parts compares everything but numbers and orbital energies under the targets of the "
    "full term; reduce_expr conserves the value through its three stages when every vocabulary step is value preserving, refuses "
    "annihilating substitutions and complex orbitals. R13h: cancel_orb_energy_frac on 17 fractions (weights, powers, shared "
    "indices, leftovers, signs to fix): the partial fractions add up to pref*eri*num/denom.")
ASSUMPTIONS = [
    "bounded: the functions are evaluated on the listed finite families of fractions / terms / index spaces, not for all inputs",
    "the vocabulary keeps its contract and is modelled, not analysed here: sympy arithmetic and automatic evaluation, "
    "Expr(...)/copy/expand/doit/factor (value preserving), subs/permute (index replacement), Term.symmetry, evaluate_deltas, "
    "KroneckerDelta, order_substitutions, find_compatible_terms, find_compatible_denom, minimize_tensor_indices, "
    "Intermediates/expand_itmd, _validate_num/_validate_denom",
    "aliasing: Expr.subs/permute/expand and augmented assignments on an Expr work in place (as in the library), every other "
    "operation produces a new container; aliasing through containers the model does not see is not decided",
    "cancel_orb_energy_frac, permute_num and find_compatible_denom are algorithms: only the value of their result (and the listed "
    "argument forwarding) is decided, not how far they cancel / which permutations they find",
    "the branch of cancel that adds a non-zero number left in the numerator is unreachable for valid numerators (no constant "
    "terms) and therefore not exercised",
]

EOM = "eri_orbenergy"
EO = "eri_orbenergy:EriOrbenergy"
EOd = EO + "."
EC = "expr_container:"
IDX = {"i": "occ", "j": "occ", "k": "occ", "l": "occ", "a": "virt", "b": "virt", "c": "virt", "d": "virt",
       "p": "general", "q": "general"}


def _flatten(n):
    """factors of a product expression (AST helper kept for C11)"""
    if isinstance(n, ast.BinOp) and isinstance(n.op, ast.Mult):
        return _flatten(n.left) + _flatten(n.right)
    return [n]


# ------------------------------------------------------------------------------------------------ helpers

def B(**c):
    """bracket  sum_i c_i e_i"""
    return lin(c)


B1 = dict(i=1, j=1, a=-1, b=-1)
B2 = dict(k=1, c=-1)
B3 = dict(i=1, a=-1)


def eo_self(w, pref, num, denom, eri, **extra):
    """EriOrbenergy instance: prefactor, numerator (Expr), denominator (Expr), remainder (Term)."""
    ass = dict(target_idx=None)
    n = w.expr(num, **ass)
    d = w.expr(denom, **ass)
    r = w.expr(eri, **ass)
    me = Obj(EO, "self")
    me.attrs.update({"_num": n, "_denom": d, "_eri": w.terms_of(r)[0], "_pref": frac(pref), "$id": True})
    me.attrs.update(extra)
    return me


def eo_value(me):
    return norm(t_mul(me.attrs["_pref"], raw(me.attrs["_num"]), raw(me.attrs["_eri"]), T("pow", raw(me.attrs["_denom"]), -1)))


def returned(ctx, rule, fn, outs, what, key):
    """The outcomes of a scenario that must return: raising paths are reported."""
    rets = [o for o in outs if o.kind == "return"]
    bad = [o for o in outs if o.kind != "return"]
    if bad or not rets:
        ctx.bad(rule, fn, f"{what}: valid input is refused ({bad[0].exc if bad else 'no outcome'})", key=f"{key} refused")
    return rets


def vcheck(ctx, rule, fn, got, want, fact, what, key, interp=None):
    try:
        ok = same_value(got, want, interp)
    except AnalysisError:
        ok = False
    return ctx.check(rule, fn, ok, fact, f"{what}: got {fmt(got)}, expected the value of {fmt(want)}", key=key)


ERI = tensor("AntiSymmetricTensor", NAMES["eri"], ("i", "j"), ("a", "b"), 0)
TAMP = tensor("Amplitude", "t1", ("k",), ("c",), 0)


# ------------------------------------------------------------------------------------------------ R13e

def r13e(ctx):
    rule = "R13e"
    # -- recombination  num * eri / denom * pref
    fn = ctx.model.fn(EOd + "expr")
    w = World(IDX)
    sx = w.make(ctx, "EriOrbenergy.expr")
    st = {}

    def args():
        st["me"] = eo_self(w, Fraction(-3, 2), B(i=1, a=-1), norm(t_mul(B(**B1), T("pow", B(**B2), 2))), ERI)
        st["want"] = eo_value(st["me"])
        return dict(self=st["me"])
    for o in returned(ctx, rule, fn, sx.run(fn, args), "EriOrbenergy.expr", "rebuild"):
        vcheck(ctx, rule, fn, o.value, st["want"], "expr = pref * num * eri / denom", "recombined term", "rebuild")

    # -- splitting
    fn = ctx.model.fn(EC + "Term.split_orb_energy")
    cases = {
        "full": t_mul(Fraction(-1, 2), T("pow", ERI, 2), TAMP, E("k"), T("pow", B(**B1), -2), T("pow", B(**B2), -1),
                      T("pow", B(i=1, a=1), 2), T("pow", E("a"), -1), E("c")),
        "orb exponent 1": t_mul(ERI, B(**B3)),
        "orb exponent -1": t_mul(ERI, T("pow", B(**B3), -1)),
        "single energy": t_mul(3, E("i")),
        "number": 5,
        "no fraction": t_mul(2, ERI, TAMP),
        "tensor in the denominator": t_mul(ERI, T("pow", TAMP, -1), E("i"), T("pow", B(**B3), -1)),
        "squared tensor in the denominator": t_mul(Fraction(1, 2), T("pow", ERI, -2), TAMP, T("pow", B(**B1), -2)),
        "only a tensor in the denominator": T("pow", TAMP, -1),
    }
    for name, val in cases.items():
        w = World(IDX)
        sx = w.make(ctx, "Term.split_orb_energy")

        def args(val=val):
            ex = w.expr(val)
            t = w.terms_of(ex)[0]
            st["objs"] = w.objects_of(t)
            return dict(self=as_self(w, t, EC + "Term", names=("assumptions", "target"), objects=st["objs"]))
        for o in returned(ctx, rule, fn, sx.run(fn, args), f"split_orb_energy[{name}]", f"split {name}"):
            res = o.value
            if not (isinstance(res, dict) and set(res) == {"num", "denom", "remainder"}):
                ctx.bad(rule, fn, f"split_orb_energy[{name}] returns {fmt(res)}", key=f"split {name} shape")
                continue
            want = {"num": [], "denom": [], "remainder": []}
            for ob in st["objs"]:
                v = ob.attrs["$value"]
                base, e = w.attr(None, ob, "base_and_exponent", None)
                if is_num(v):
                    want["num"].append(v)
                elif w.attr(None, ob, "contains_only_orb_energies", None):
                    want["denom" if e < 0 else "num"].append(T("pow", base, abs(e)))
                else:
                    want["remainder"].append(v)
            for k in want:
                vcheck(ctx, rule, fn, res[k], norm(t_mul(*want[k])) if want[k] else 1,
                       f"{k}: numbers and orbital energies with positive exponent -> num, orbital energies with negative "
                       "exponent -> denom (as base**|n|), everything else -> remainder with its own (signed) exponent",
                       f"split_orb_energy[{name}]: part `{k}`", key=f"split {name} {k}")
            vcheck(ctx, rule, fn, norm(t_mul(raw(res["num"]), raw(res["remainder"]), T("pow", raw(res["denom"]), -1))), val,
                   "num * remainder / denom is the term", f"split_orb_energy[{name}]: recombined parts", key=f"split {name} value")
            tg = [w.assumptions_of(res[k]).get("target_idx") if isinstance(res[k], Obj) else None for k in res]
            ctx.check(rule, fn, all(t is not None and [raw_name(x) for x in t] == [raw_name(x) for x in w.target_of(st["objs"][0].attrs["$parent"])]
                                    for t in tg),
                      "the parts carry the target indices of the term", f"split_orb_energy[{name}]: parts have targets {tg}",
                      key=f"split {name} target")

    # -- what counts as an orbital energy
    fn = ctx.model.fn(EC + "Obj.contains_only_orb_energies")
    table = {"e_i": (E("i"), True), "e_i**-2": (T("pow", E("i"), -2), True), "f_ij": (tensor("AntiSymmetricTensor", NAMES["fock"], ("i",), ("j",), 1), False),
             "e_ij": (tensor("NonSymmetricTensor", NAMES["orb_energy"], ("i", "j")), False), "V": (ERI, False),
             "x_i": (tensor("NonSymmetricTensor", "x", ("i",)), False)}
    for name, (val, want) in table.items():
        w = World(IDX)
        sx = w.make(ctx, "Obj.contains_only_orb_energies")

        def args(val=val):
            ob = w.objects_of(w.terms_of(w.expr(val))[0])[0]
            return dict(self=as_self(w, ob, EC + "Obj", names=("name", "idx", "sympy", "base", "exponent")))
        for o in returned(ctx, rule, fn, sx.run(fn, args), f"contains_only_orb_energies[{name}]", f"only orb {name}"):
            ctx.check(rule, fn, o.value is want, f"{name}: orbital energy = tensor e with one index -> {want}",
                      f"Obj.contains_only_orb_energies is {o.value} for {name}", key=f"only orb {name}")
    for cls, val, want in (("Term", t_mul(-1, E("i")), True), ("Term", t_mul(2, E("i"), ERI), False),
                           ("Polynom", T("pow", B(**B1), -1), True), ("Polynom", norm(t_add(E("i"), ERI)), False)):
        fn = ctx.model.fn(f"{EC}{cls}.contains_only_orb_energies")
        w = World(IDX)
        sx = w.make(ctx, f"{cls}.contains_only_orb_energies")

        def args(val=val, cls=cls):
            t = w.terms_of(w.expr(val))[0]
            if cls == "Term":
                return dict(self=as_self(w, t, EC + "Term", names=("objects",)))
            t = w.terms_of(w.expr(t_mul(TAMP, val)))[0]
            pol = [x for x in w.objects_of(t) if x.attrs["$kind"] == "polynom"][0]
            return dict(self=as_self(w, pol, EC + "Polynom", names=("terms", "exponent")))
        for o in returned(ctx, rule, fn, sx.run(fn, args), f"{cls}.contains_only_orb_energies", f"only orb {cls} {fmt(val)}"):
            ctx.check(rule, fn, o.value is want, f"{cls} {fmt(val)}: only orbital energies -> {want}",
                      f"{cls}.contains_only_orb_energies is {o.value} for {fmt(val)}", key=f"only orb {cls} {fmt(val)}")

    # -- cancelling brackets / objects by position
    den3 = norm(t_mul(T("pow", B(**B1), 3), B(**B2), T("pow", B(**B3), 2)))
    for name, den, idxs in (("three brackets", den3, [0, 0, 2, 1]), ("three brackets, one hit", den3, [2]),
                            ("single bracket", B(**B1), [0]), ("single power", T("pow", B(**B1), 2), [0]), ("nothing", den3, [])):
        fn = ctx.model.fn(EOd + "cancel_denom_brackets")
        w = World(IDX)
        sx = w.make(ctx, "cancel_denom_brackets")

        def args(den=den, idxs=idxs):
            st["me"] = eo_self(w, 1, 1, den, ERI)
            return dict(self=st["me"], braket_idx_list=list(idxs))
        for o in returned(ctx, rule, fn, sx.run(fn, args), f"cancel_denom_brackets[{name}]", f"cancel_denom_brackets {name}"):
            me = st["me"]
            d = me.attrs["_denom"]
            dv = d.attrs["$value"]
            if isinstance(dv, T) and dv.op == "mul":
                brs = [x.attrs["$value"] for x in w.objects_of(w.terms_of(d)[0])]
            else:
                brs = [dv]
            be = [(x.args[0], x.args[1]) if isinstance(x, T) and x.op == "pow" else (x, 1) for x in brs]
            want = norm(t_mul(*[T("pow", b, e - idxs.count(i)) for i, (b, e) in enumerate(be)])) if be else 1
            vcheck(ctx, rule, fn, o.value, want, "every listed bracket loses one power per listing; untouched brackets stay",
                   f"cancel_denom_brackets[{name}] with positions {idxs}", key=f"cancel_denom_brackets {name}")
            vcheck(ctx, rule, fn, me.attrs["_denom"], den, "the denominator of the instance is not modified",
                   f"cancel_denom_brackets[{name}]: denominator of the instance afterwards", key=f"cancel_denom_brackets {name} pure")
    rem = norm(t_mul(T("pow", ERI, 2), TAMP, tensor("NonSymmetricTensor", "x", ("i",))))
    for name, idxs in (("two objects", [0, 2]), ("twice", [0, 0]), ("nothing", [])):
        fn = ctx.model.fn(EOd + "cancel_eri_objects")
        w = World(IDX)
        sx = w.make(ctx, "cancel_eri_objects")

        def args(idxs=idxs):
            st["me"] = eo_self(w, 1, 1, 1, rem)
            return dict(self=st["me"], obj_idx_list=list(idxs))
        for o in returned(ctx, rule, fn, sx.run(fn, args), f"cancel_eri_objects[{name}]", f"cancel_eri_objects {name}"):
            obs = [x.attrs["$value"] for x in w.objects_of(st["me"].attrs["_eri"])]
            be = [(x.args[0], x.args[1]) if isinstance(x, T) and x.op == "pow" else (x, 1) for x in obs]
            want = norm(t_mul(*[T("pow", b, e - idxs.count(i)) for i, (b, e) in enumerate(be)]))
            vcheck(ctx, rule, fn, o.value, want, "every listed object loses one power per listing",
                   f"cancel_eri_objects[{name}] with positions {idxs}", key=f"cancel_eri_objects {name}")

    # -- construction: prefactor extraction
    fn = ctx.model.fn(EOd + "__init__")
    far = ctx.model.fn(f"{EOM}:factor_and_remove_number")
    for name, numc in (("halves", dict(i=Fraction(3, 2), a=Fraction(-1, 2))), ("twos", dict(i=2, j=2, a=-2, b=-2)),
                       ("unit", dict(i=1, a=-1)), ("negative unit", dict(i=-1, a=1)), ("mixed", dict(i=Fraction(1, 2), a=-3))):
        w = World(IDX)
        w.extra_hooks["split_orb_energy"] = lambda sx, a, kw: st["parts"]
        w.extra_hooks["factor_and_remove_number"] = lambda sx, a, kw: _far_model(w, sx, a, kw)
        sx = w.make(ctx, "EriOrbenergy.__init__")

        def args(numc=numc):
            den = norm(t_mul(B(**B1), T("pow", B(**B2), 2)))
            st["parts"] = {"num": w.expr(lin(numc)), "denom": w.expr(den), "remainder": w.expr(ERI)}
            st["val"] = norm(t_mul(lin(numc), ERI, T("pow", den, -1)))
            st["me"] = Obj(EO, "self")
            st["me"].attrs["$id"] = True
            return dict(self=st["me"], term=w.terms_of(w.expr(st["val"]))[0])
        for o in returned(ctx, rule, fn, sx.run(fn, args), f"EriOrbenergy[{name}]", f"init {name}"):
            a = st["me"].attrs
            if not all(k in a for k in ("_pref", "_num", "_denom", "_eri")):
                ctx.bad(rule, fn, f"EriOrbenergy[{name}]: attributes {sorted(k for k in a if k.startswith('_'))}", key=f"init {name} shape")
                continue
            vcheck(ctx, rule, fn, eo_value(st["me"]), st["val"], "pref * num * eri / denom is the term",
                   f"EriOrbenergy[{name}]: pref={a['_pref']}, num={fmt(a['_num'])}", key=f"init {name} value")
            lf = linear_form(raw(a["_num"]))
            m = min(abs(c) for c in numc.values())
            ctx.check(rule, fn, is_num(a["_pref"]) and abs(a["_pref"]) == m and lf is not None and min(abs(c) for c in lf.values()) == 1,
                      "prefactor = numerator coefficient of smallest magnitude; the smallest coefficient left in the numerator is 1",
                      f"EriOrbenergy[{name}]: prefactor {a['_pref']} extracted from {fmt(lin(numc))}, numerator left {fmt(a['_num'])}",
                      key=f"init {name} pref")
    # number numerators
    for name, numv in (("numerator 1", 1), ("numerator 0", 0), ("numerator 1/4", Fraction(1, 4))):
        w = World(IDX)
        w.extra_hooks["split_orb_energy"] = lambda sx, a, kw: st["parts"]
        w.extra_hooks["factor_and_remove_number"] = lambda sx, a, kw: _far_model(w, sx, a, kw)
        sx = w.make(ctx, "EriOrbenergy.__init__")

        def args(numv=numv):
            st["parts"] = {"num": w.expr(numv), "denom": w.expr(B(**B1)), "remainder": w.expr(ERI)}
            st["val"] = norm(t_mul(numv, ERI, T("pow", B(**B1), -1)))
            st["me"] = Obj(EO, "self")
            st["me"].attrs["$id"] = True
            return dict(self=st["me"], term=w.terms_of(w.expr(st["val"] if numv else ERI))[0])
        for o in returned(ctx, rule, fn, sx.run(fn, args), f"EriOrbenergy[{name}]", f"init {name}"):
            vcheck(ctx, rule, fn, eo_value(st["me"]), st["val"], "pref * num * eri / denom is the term",
                   f"EriOrbenergy[{name}]: pref={st['me'].attrs.get('_pref')}, num={fmt(st['me'].attrs.get('_num'))}",
                   key=f"init {name} value")
    # -- factor_and_remove_number: value / number
    w = World(IDX)
    sx = w.make(ctx, "factor_and_remove_number")

    def args():
        st["e"] = w.expr(lin(dict(i=Fraction(3, 2), a=Fraction(-1, 2))))
        return dict(expr=st["e"], number=Fraction(-1, 2))
    for o in returned(ctx, rule, far, sx.run(far, args), "factor_and_remove_number", "factor number"):
        got = o.value
        if isinstance(got, Obj) and "_expr" in got.attrs and "$value" in got.attrs:
            got = got.attrs["_expr"]
        vcheck(ctx, rule, far, got, lin(dict(i=-3, a=1)), "the expression divided by the number",
               "factor_and_remove_number(3/2 e_i - 1/2 e_a, -1/2)", key="factor number")


def _far_model(w, sx, a, kw):
    """contract of factor_and_remove_number: expr / number"""
    e = arg(a, kw, 0, "expr")
    n = arg(a, kw, 1, "number")
    w.log.append(("factor_and_remove_number", (e, n)))
    return w.wrap_like(e, norm(t_mul(raw(e), T("pow", n, -1)))) if isinstance(e, Obj) else norm(t_mul(e, T("pow", n, -1)))


# ------------------------------------------------------------------------------------------------ R13a

def _canonical(w, lf):
    return lf is not None and all((c > 0) == (w.index[i].attrs["space"] == "occ") for i, c in lf.items())


def r13a(ctx):
    rule = "R13a"
    fn = ctx.model.fn(EOd + "canonicalize_sign")
    good, bad_ = dict(i=1, a=-1), dict(i=-1, a=1)
    gB1, bB1 = B1, {k: -v for k, v in B1.items()}
    cases = {
        "numerator wrong": (bad_, t_mul(B(**gB1), T("pow", B(**B2), 2)), False, True),
        "numerator wrong, only_denom": (bad_, t_mul(B(**gB1), T("pow", B(**B2), 2)), True, True),
        "numerator right": (good, B(**gB1), False, True),
        "virtual numerator wrong": (dict(a=1, b=1), B(**gB1), False, True),
        "occupied numerator wrong": (dict(i=-2, j=-1), B(**gB1), False, True),
        "single bracket wrong": (good, B(**bB1), False, True),
        "odd power wrong": (good, t_mul(B(**gB1), T("pow", B(**bad_), 3)), False, True),
        "even power wrong": (good, t_mul(B(**gB1), T("pow", B(**bad_), 2)), False, True),
        "both brackets wrong": (bad_, t_mul(B(**bB1), T("pow", B(**bad_), 3), T("pow", B(k=-1, c=1), 2)), False, True),
        "single power wrong": (good, T("pow", B(**bB1), 3), True, True),
        "numbers": (None, 1, False, True),
        "number numerator": (None, t_mul(B(**bB1), B(**B2)), False, True),
        "not canonicalisable numerator": (dict(i=1, a=1), B(**gB1), False, False),
        "not canonicalisable bracket": (good, B(i=-1, a=-1), False, False),
        "mixed occupied signs": (dict(i=1, j=-1), B(**gB1), False, False),
    }
    st = {}
    for name, (numc, den, only, fine) in cases.items():
        w = World(IDX)
        sx = w.make(ctx, "canonicalize_sign")

        def args(numc=numc, den=den, only=only):
            st["me"] = eo_self(w, Fraction(-1, 2), lin(numc) if numc else 1, norm(den), ERI)
            st["val"] = eo_value(st["me"])
            return dict(self=st["me"], only_denom=only)
        outs = sx.run(fn, args)
        what = f"canonicalize_sign[{name}]"
        if not fine:
            ctx.check(rule, fn, all(o.kind == "raise" for o in outs), f"{what}: signs that no global factor -1 can fix are refused",
                      f"{what}: a numerator/bracket whose signs cannot be made canonical by a factor -1 is accepted "
                      f"(left as {fmt(st['me'].attrs['_num'])} / {fmt(st['me'].attrs['_denom'])})", key=f"{name} refused")
            continue
        for o in returned(ctx, rule, fn, outs, what, name):
            me = st["me"]
            vcheck(ctx, rule, fn, eo_value(me), st["val"], "pref * num / denom unchanged by the sign flips",
                   f"{what}: pref={me.attrs['_pref']}, num={fmt(me.attrs['_num'])}, denom={fmt(me.attrs['_denom'])}; value changed",
                   key=f"{name} value")
            nv = raw(me.attrs["_num"])
            if numc and not only:
                ctx.check(rule, fn, _canonical(w, linear_form(nv)), "numerator: occupied energies added, virtual subtracted",
                          f"{what}: numerator left as {fmt(nv)}", key=f"{name} numerator signs")
            if numc and only:
                vcheck(ctx, rule, fn, nv, lin(numc), "only_denom: numerator untouched", f"{what}: numerator", key=f"{name} numerator kept")
            dv = norm(raw(me.attrs["_denom"]))
            fs = list(dv.args) if isinstance(dv, T) and dv.op == "mul" else [dv]
            okd = True
            for f_ in fs:
                if is_num(f_):
                    continue
                b = f_.args[0] if isinstance(f_, T) and f_.op == "pow" else f_
                okd = okd and _canonical(w, linear_form(b))
            ctx.check(rule, fn, okd, "every bracket: occupied energies added, virtual subtracted",
                      f"{what}: denominator left as {fmt(dv)}", key=f"{name} bracket signs")
    # the sign word of a term
    fn = ctx.model.fn(EC + "Term.sign")
    for pf, want in ((Fraction(-1, 2), "minus"), (-1, "minus"), (1, "plus"), (Fraction(3, 2), "plus")):
        w = World(IDX)
        sx = w.make(ctx, "Term.sign")
        outs = sx.run(fn, lambda pf=pf: dict(self=as_self(w, w.terms_of(w.expr(t_mul(pf, E("i"))))[0], EC + "Term", names=("prefactor",))))
        for o in returned(ctx, rule, fn, outs, f"Term.sign[{pf}]", f"term sign {pf}"):
            ctx.check(rule, fn, o.value == want, f"prefactor {pf}: sign '{want}'", f"Term.sign is {o.value!r} for the prefactor {pf}",
                      key=f"term sign {pf}")


# ------------------------------------------------------------------------------------------------ R13h

def r13h(ctx):
    """EriOrbenergy.cancel_orb_energy_frac: the sum of the partial fractions is the fraction."""
    rule = "R13h"
    fn = ctx.model.fn(EOd + "cancel_orb_energy_frac")
    nB1 = {k: -v for k, v in B1.items()}
    cases = {
        "numerator = bracket": (Fraction(1, 4), B(**B1), B(**B1)),
        "numerator = bracket of two": (1, B(**B1), t_mul(B(**B1), B(**B2))),
        "weights 2:1": (Fraction(1, 2), norm(t_add(t_mul(2, B(**B1)), B(**B2))), t_mul(B(**B1), B(**B2))),
        "weights 3:2": (1, norm(t_add(t_mul(3, B(**B3)), t_mul(2, B(**B2)))), t_mul(B(**B3), B(**B2))),
        "weights 1:2": (1, norm(t_add(B(**B1), t_mul(2, B(**B2)))), t_mul(B(**B1), B(**B2))),
        "weights 1/2:1": (-2, norm(t_add(t_mul(Fraction(1, 2), B(**B1)), B(**B2))), t_mul(B(**B1), B(**B2))),
        "leftover energy": (1, norm(t_add(B(**B1), E("k"))), t_mul(B(**B1), B(**B2))),
        "leftover after two": (3, norm(t_add(B(**B1), B(**B2), E("l"))), t_mul(B(**B1), B(**B2), B(l=1, d=-1))),
        "squared bracket": (1, B(**B3), t_mul(B(**B1), T("pow", B(**B3), 2))),
        "single squared bracket": (1, B(**B3), T("pow", B(**B3), 2)),
        "shared indices": (1, B(i=2, j=1, a=-2, b=-1), t_mul(B(**B1), B(**B3))),
        "three brackets": (Fraction(1, 3), norm(t_add(B(**B1), t_mul(2, B(**B2)), t_mul(4, B(l=1, d=-1)))),
                           t_mul(B(**B1), B(**B2), B(l=1, d=-1))),
        "nothing matches": (1, B(**B2), B(**B1)),
        "partial match": (1, B(i=1, a=-1), B(**B1)),
        "signs to fix first": (Fraction(1, 2), B(**nB1), t_mul(B(**B1), B(k=-1, c=1))),
        "number numerator": (5, 1, t_mul(B(**B1), B(**B2))),
        "number denominator": (5, B(**B1), 1),
    }
    st = {}
    for name, (pref, num, den) in cases.items():
        w = World(IDX)
        w.extra_hooks["factor_and_remove_number"] = lambda sx, a, kw, w=w: _far_model(w, sx, a, kw)
        sx = w.make(ctx, "cancel_orb_energy_frac")

        def args(pref=pref, num=num, den=den):
            st["me"] = eo_self(w, pref, norm(num), norm(den), ERI)
            st["val"] = eo_value(st["me"])
            return dict(self=st["me"])
        what = f"cancel_orb_energy_frac[{name}]"
        for o in returned(ctx, rule, fn, sx.run(fn, args), what, name):
            vcheck(ctx, rule, fn, o.value, st["val"],
                   f"{what}: the partial fractions add up to pref * eri * num / denom",
                   f"{what}: {pref} * [{fmt(norm(num))}] / [{fmt(norm(den))}] is decomposed into terms of a different value: the "
                   "running prefactor, the bracket that is removed and the numerator that is left do not fit together",
                   key=f"{name} value")
            vcheck(ctx, rule, fn, eo_value(st["me"]), st["val"], f"{what}: the instance keeps its value (only signs are canonicalised)",
                   f"{what}: the instance is modified while cancelling (pref={st['me'].attrs['_pref']}, num={fmt(st['me'].attrs['_num'])}, "
                   f"denom={fmt(st['me'].attrs['_denom'])})", key=f"{name} instance")


# ------------------------------------------------------------------------------------------------ R13b

def _pairs(w, *pp):
    return tuple(w.idx(*p) for p in pp)


def _symmetrised(val, sym_items):
    """1/(n+1) (X + sum_P f_P P X) over the operations with a factor"""
    ops = [(perms, f) for perms, f in sym_items if f is not None]
    parts = [val]
    for perms, f in ops:
        m = permutation_map(None, perms)
        parts.append(t_mul(f, substitute(val, m)))
    return norm(t_mul(Fraction(1, len(ops) + 1), t_add(*parts)))


def _sx_permute_num(ctx, rule, fnref):
    fn = ctx.model.fn(fnref)
    lab = fnref.split(":")[1]
    syms = {
        "two symmetric": lambda w: [(_pairs(w, "ij", "ab"), 1), (_pairs(w, "kl"), 1)],
        "antisymmetric": lambda w: [(_pairs(w, "ij"), -1), (_pairs(w, "ab"), -1), (_pairs(w, "ij", "ab"), 1)],
        "some not common": lambda w: [(_pairs(w, "ij"), None), (_pairs(w, "ij", "ab"), 1), (_pairs(w, "ab"), None)],
        "none common": lambda w: [(_pairs(w, "ij"), None)],
        "no symmetry": lambda w: [],
        "cancels": lambda w: [(_pairs(w, "ia"), 1)],
    }
    nums = {"two symmetric": dict(i=1, a=-1), "antisymmetric": dict(i=1, a=-1), "some not common": dict(i=3, a=-1, k=2),
            "none common": dict(i=1, a=-1), "no symmetry": dict(i=2, a=-2), "cancels": dict(i=1, a=-1)}
    st = {}
    for name, mk in syms.items():
        w = World(IDX)
        w.extra_hooks["factor_and_remove_number"] = lambda sx, a, kw, w=w: _far_model(w, sx, a, kw)

        def des(sx, a, kw, mk=mk, w=w):
            st["kw"] = dict(kw.get("kwargs") or {}, **{k: v for k, v in kw.items() if k != "kwargs"})
            st["pos"] = list(a[1:])
            st["sym"] = mk(w)
            return dict(st["sym"])
        w.extra_hooks["denom_eri_sym"] = des
        sx = w.make(ctx, lab)

        def args(name=name):
            st["me"] = eo_self(w, Fraction(-1, 2), lin(nums[name]), B(**B1), ERI)
            st["sent"] = sym("ERISYM")
            return dict(self=st["me"], eri_sym=st["sent"])
        what = f"{lab}[{name}]"
        for o in returned(ctx, rule, fn, sx.run(fn, args), what, f"{lab} {name}"):
            me = st["me"]
            want = t_mul(Fraction(-1, 2), _symmetrised(lin(nums[name]), st["sym"]))
            got = norm(t_mul(me.attrs["_pref"], raw(me.attrs["_num"])))
            n = len([1 for _, f in st["sym"] if f is not None])
            vcheck(ctx, rule, fn, got, want,
                   f"{what}: pref * num = pref0 * 1/({n}+1) (num0 + sum over the {n} common operations f_P P num0)",
                   f"{what}: the numerator {fmt(lin(nums[name]))} symmetrised with {fmt([(p, f) for p, f in st['sym']])} gives "
                   f"pref={me.attrs['_pref']}, num={fmt(me.attrs['_num'])}; expected the normalised sum over the identity and the "
                   f"{n} operations that leave remainder*denominator invariant, each with its factor", key=f"{lab} {name} normalisation")
            kw = st.get("kw", {})
            ctx.check(rule, fn, kw.get("only_contracted") is True and not st["pos"], "only contracted indices are permuted",
                      f"{what}: the common symmetry is requested with {fmt(kw)} {fmt(st['pos'])} (only_contracted=True expected)",
                      key=f"{lab} {name} contracted")
            ctx.check(rule, fn, kw.get("eri_sym") == st["sent"], "the given symmetry of the remainder is used",
                      f"{what}: eri_sym is not forwarded ({fmt(kw.get('eri_sym'))})", key=f"{lab} {name} eri_sym")
            lf = linear_form(raw(me.attrs["_num"]))
            ctx.check(rule, fn, lf is None or not lf or min(abs(c) for c in lf.values()) == 1,
                      "smallest numerator coefficient moved to the prefactor", f"{what}: numerator left as {fmt(me.attrs['_num'])}",
                      key=f"{lab} {name} pref")
    # number numerator: untouched
    w = World(IDX)
    w.extra_hooks["denom_eri_sym"] = lambda sx, a, kw: {_pairs(w, "ij"): 1}
    sx = w.make(ctx, lab)

    def args():
        st["me"] = eo_self(w, 3, 1, B(**B1), ERI)
        return dict(self=st["me"], eri_sym=None)
    for o in returned(ctx, rule, fn, sx.run(fn, args), f"{lab}[number]", f"{lab} number"):
        vcheck(ctx, rule, fn, eo_value(st["me"]), norm(t_mul(3, ERI, T("pow", B(**B1), -1))), "a number numerator is left alone",
               f"{lab}[number]", key=f"{lab} number")


def _sx_symmetrize(ctx, rule, fnref):
    fn = ctx.model.fn(fnref)
    lab = fnref.split(":")[1]
    X = norm(t_mul(Fraction(1, 2), ERI, tensor("Amplitude", "t2", ("i", "j"), ("a", "b"), 0), E("i")))
    st = {}
    for name, mk in (("three operations", lambda w: [(_pairs(w, "ij"), -1), (_pairs(w, "ab"), -1), (_pairs(w, "ij", "ab"), 1)]),
                     ("one operation", lambda w: [(_pairs(w, "ij", "ab"), 1)]), ("no symmetry", lambda w: [])):
        w = World(IDX)

        def symh(sx, a, kw, mk=mk, w=w):
            st["kw"], st["pos"] = dict(kw), list(a[1:])
            st["sym"] = mk(w)
            return dict(st["sym"])
        w.extra_hooks["symmetry"] = symh
        sx = w.make(ctx, lab)
        outs = sx.run(fn, lambda: dict(self=as_self(w, w.terms_of(w.expr(X))[0], EC + "Term", names=("sympy", "assumptions"))))
        what = f"{lab}[{name}]"
        for o in returned(ctx, rule, fn, outs, what, f"{lab} {name}"):
            n = len(st["sym"])
            vcheck(ctx, rule, fn, o.value, _symmetrised(X, st["sym"]),
                   f"{what}: 1/({n}+1) (X + sum over the {n} operations f_P P X)",
                   f"{what}: the sum over the identity and the {n} symmetry operations is not normalised by 1/({n}+1) / an "
                   "operation is applied without its factor", key=f"{lab} {name} normalisation")
            kw = st.get("kw", {})
            oc = kw.get("only_contracted", st["pos"][0] if st["pos"] else None)
            kw = {k: v for k, v in kw.items() if v is not False}
            ctx.check(rule, fn, oc is True and not kw.get("only_target"), "only contracted indices are permuted",
                      f"{what}: symmetry requested with {fmt(kw)} {fmt(st['pos'])}", key=f"{lab} {name} contracted")


def _sx_derivative(ctx, rule, fnref):
    """derivative: the contribution of one tensor occurrence is symmetrised with the symmetry of the removed tensor"""
    fn = ctx.model.fn(fnref)
    lab = fnref.split(":")[1]
    REM = tensor("Amplitude", "t2", ("i", "j"), ("a", "b"), 0)
    st = {}
    for name, exponent, mk in (("V", 1, lambda w: [(_pairs(w, "ij"), -1), (_pairs(w, "ab"), -1), (_pairs(w, "ij", "ab"), 1)]),
                               ("V**2", 2, lambda w: [(_pairs(w, "ij", "ab"), 1)]), ("no symmetry", 1, lambda w: [])):
        w = World(IDX)
        X = norm(t_mul(Fraction(1, 4), T("pow", ERI, exponent), REM))

        def symh(sx, a, kw, mk=mk, w=w):
            st["sym"] = mk(w)
            return dict(st["sym"])
        w.extra_hooks["symmetry"] = symh
        w.extra_hooks["minimize_tensor_indices"] = lambda sx, a, kw: (arg(a, kw, 0, "tensor_indices"), ())
        w.extra_hooks["diff"] = lambda sx, a, kw: T("call", "diff", (raw(a[0]), raw(a[1])), ())
        w.extra_hooks["Index"] = lambda sx, a, kw: sym("$x")
        sx = w.make(ctx, lab)
        outs = sx.run(fn, lambda: dict(expr=w.expr(X, target_idx=()), t_string=NAMES["eri"]))
        what = f"{lab}[{name}]"
        for o in returned(ctx, rule, fn, outs, what, f"{lab} {name}"):
            res = o.value
            inner = [c.args[1][0] for v in (res.values() if isinstance(res, dict) else []) for c in subterms(raw(v))
                     if c.op == "call" and c.args[0] == "diff"]
            if len(inner) != 1:
                ctx.bad(rule, fn, f"{what}: expected one differentiated contribution, got {fmt(res)}", key=f"{lab} {name} shape")
                continue
            n = len(st["sym"])
            contrib = norm(t_mul(Fraction(1, 4), REM, T("pow", sym("$x"), exponent)))
            vcheck(ctx, rule, fn, inner[0], _symmetrised(contrib, st["sym"]),
                   f"{what}: 1/({n}+1) (X + sum over the {n} operations of the removed tensor f_P P X)",
                   f"{what}: the sum over the identity and the {n} symmetry operations of the removed tensor is not normalised by "
                   f"1/({n}+1) / an operation is applied without its factor", key=f"{lab} {name} normalisation")


def _remainder_symmetry(w, only_contracted):
    """Model of Term.symmetry for the remainder Z^{ij}_{ab} (antisymmetric) with the targets i, j and the contracted
    a, b: all operations, or those that permute contracted indices only."""
    full = [(_pairs(w, "ij"), -1), (_pairs(w, "ab"), -1), (_pairs(w, "ij", "ab"), 1)]
    return [x for x in full if not only_contracted or x[0] == _pairs(w, "ab")]


def _sx_common_symmetry(ctx, rule):
    """denom_eri_sym / permute_num evaluated together (nothing in between hooked) on terms with and without
    denominator, with and without a given remainder symmetry, the remainder carrying target indices: the numerator
    may only be symmetrised with operations on contracted indices that leave remainder * denominator invariant."""
    Z = tensor("AntiSymmetricTensor", "Z", ("i", "j"), ("a", "b"), 0)
    st = {}
    dens = {"no denominator": 1, "invariant denominator": B(**B1), "denominator without the symmetry": B(i=1, a=-1),
            "squared denominator": T("pow", B(**B1), 2)}

    def world():
        w = World(IDX)
        w.extra_hooks["factor_and_remove_number"] = lambda sx, a, kw, w=w: _far_model(w, sx, a, kw)

        def symh(sx, a, kw, w=w):
            st.setdefault("flags", []).append((kw.get("only_contracted", False), kw.get("only_target", False)))
            return dict(_remainder_symmetry(w, kw.get("only_contracted", False) is True))
        w.extra_hooks["symmetry"] = symh
        return w

    def common(w, den, ops):
        out = []
        for perms, f in ops:
            m = permutation_map(w, perms)
            pd = substitute(norm(den), m)
            out.append((perms, f if same_value(pd, den) else -f if same_value(pd, t_mul(-1, den)) else None))
        return out
    # -- denom_eri_sym called the way a caller writes it: eri_sym=None, only_contracted as keyword
    fn = ctx.model.fn(EOd + "denom_eri_sym")
    for dname, den in dens.items():
        for oc in (True, False):
            w = world()
            sx = w.make(ctx, "denom_eri_sym")

            def args(den=den, oc=oc):
                st["flags"] = []
                st["me"] = eo_self(w, 1, B(i=1, a=-1), norm(den), Z)
                st["me"].attrs["_eri"] = w.terms_of(w.expr(Z, target_idx=w.idx("i", "j")))[0]
                return sx.bind(fn, [st["me"]], {"eri_sym": None, "only_contracted": oc})
            what = f"denom_eri_sym[{dname}, only_contracted={oc}, symmetry on the fly]"
            for o in returned(ctx, rule, fn, sx.run(fn, args), what, what):
                exp = dict(common(w, den, _remainder_symmetry(w, oc)))
                got = o.value if isinstance(o.value, dict) else None
                tgt = got is not None and any(raw_name(x) in ("i", "j") for perms in got for pq in perms for x in pq)
                ctx.check(rule, fn, got == exp and not (oc and tgt),
                          f"{what}: the symmetry of the remainder is determined with the requested restriction",
                          f"{what}: returns {fmt(got)}, expected {fmt(exp)}" +
                          ("; operations on the target indices i, j are returned although only contracted indices were requested "
                           "(the flag does not reach Term.symmetry on this path)" if oc and tgt else ""), key=what)
    # -- permute_num on top of it
    fn = ctx.model.fn(EOd + "permute_num")
    for dname, den in dens.items():
        for given in (False, True):
            w = world()
            sx = w.make(ctx, "permute_num")
            numc = dict(i=1, a=-1)

            def args(den=den, given=given):
                st["flags"] = []
                st["me"] = eo_self(w, Fraction(1, 2), lin(numc), norm(den), Z)
                st["me"].attrs["_eri"] = w.terms_of(w.expr(Z, target_idx=w.idx("i", "j")))[0]
                return dict(self=st["me"], eri_sym=dict(_remainder_symmetry(w, True)) if given else None)
            what = f"permute_num[{dname}, {'given' if given else 'no'} remainder symmetry, targets i j]"
            for o in returned(ctx, rule, fn, sx.run(fn, args), what, what):
                me = st["me"]
                ops = common(w, den, _remainder_symmetry(w, True))
                want = t_mul(Fraction(1, 2), _symmetrised(lin(numc), ops))
                got = norm(t_mul(me.attrs["_pref"], raw(me.attrs["_num"])))
                vcheck(ctx, rule, fn, got, want,
                       f"{what}: numerator symmetrised with the operations on contracted indices that leave remainder*denominator invariant",
                       f"{what}: pref*num becomes {fmt(got)}; expected {fmt(norm(want))}: only permutations of contracted indices "
                       "common to remainder and denominator may act on the numerator (a permutation of the target indices i, j changes "
                       "the value of the term)", key=what)
                lf = linear_form(raw(me.attrs["_num"]))
                ctx.check(rule, fn, lf is None or "j" not in lf, f"{what}: no orbital energy of the other target index appears",
                          f"{what}: the numerator {fmt(me.attrs['_num'])} contains e_j: a permutation of target indices was applied",
                          key=what + " targets")


_SYMMETRISERS = {EOd + "permute_num": _sx_permute_num, EC + "Term.symmetrize": _sx_symmetrize,
                 "derivative:derivative": _sx_derivative}


def symmetriser_normalisation(ctx, rule, fnref):
    """A symmetriser `x -> 1/(n+1) (x + sum_P f_P P x)` is evaluated for small symmetry groups and compared with that
    formula (normalisation by the number of operations + 1, every operation once with its factor)."""
    if fnref not in _SYMMETRISERS:
        raise AnalysisError(f"symmetriser_normalisation: no scenario for {fnref}")
    _SYMMETRISERS[fnref](ctx, rule, fnref)


def r13b(ctx):
    rule = "R13b"
    for ref in _SYMMETRISERS:
        symmetriser_normalisation(ctx, rule, ref)
    _sx_common_symmetry(ctx, rule)
    # common symmetry of remainder and denominator
    fn = ctx.model.fn(EOd + "denom_eri_sym")
    st = {}
    D12 = norm(t_mul(B(**B1), B(**B2)))
    table = {
        "invariant": (D12, lambda w: [(_pairs(w, "ij"), -1), (_pairs(w, "ij", "ab"), 1), (_pairs(w, "ab"), -1)],
                      lambda s: [f for _, f in s]),
        "sign change": (B(i=1, k=-1), lambda w: [(_pairs(w, "ik"), 1), (_pairs(w, "ik", "ac"), -1)], lambda s: [-f for _, f in s]),
        "changed": (D12, lambda w: [(_pairs(w, "ik"), 1), (_pairs(w, "ac"), -1), (_pairs(w, "ij"), 1)], lambda s: [None, None, 1]),
        "swapped brackets": (norm(t_mul(B(i=1, a=-1), B(k=1, c=-1))), lambda w: [(_pairs(w, "ik", "ac"), 1), (_pairs(w, "ik"), -1)],
                             lambda s: [1, None]),
        "squared": (T("pow", B(**B1), 2), lambda w: [(_pairs(w, "ij"), -1), (_pairs(w, "ik"), 1)], lambda s: [-1, None]),
    }
    for name, (den, mk, want) in table.items():
        w = World(IDX)
        sx = w.make(ctx, "denom_eri_sym")

        def args(den=den, mk=mk):
            st["me"] = eo_self(w, 1, B(i=1, a=-1), den, ERI)
            st["sym"] = mk(w)
            return sx.bind(fn, [st["me"]], {"eri_sym": dict(st["sym"])})
        what = f"denom_eri_sym[{name}]"
        for o in returned(ctx, rule, fn, sx.run(fn, args), what, f"denom_eri_sym {name}"):
            exp = dict(zip([p for p, _ in st["sym"]], want(st["sym"])))
            ctx.check(rule, fn, isinstance(o.value, dict) and o.value == exp,
                      f"{what}: P D = D keeps the factor of the remainder, P D = -D negates it, otherwise None",
                      f"{what}: for the denominator {fmt(den)} and the remainder symmetry {fmt(st['sym'])} the common symmetry is "
                      f"{fmt(o.value)}, expected {fmt(exp)}", key=f"denom_eri_sym {name}")
            vcheck(ctx, rule, fn, st["me"].attrs["_denom"], den, "the denominator of the instance is not modified",
                   f"{what}: denominator afterwards", key=f"denom_eri_sym {name} pure")
    # number denominator: the symmetry of the remainder
    for name, given in (("given", True), ("on the fly", False)):
        w = World(IDX)
        w.extra_hooks["symmetry"] = lambda sx, a, kw: st.__setitem__("kw", dict(kw)) or {"marker": 1}
        sx = w.make(ctx, "denom_eri_sym")

        def args(given=given):
            st["me"] = eo_self(w, 1, B(i=1, a=-1), 1, ERI)
            return sx.bind(fn, [st["me"]], {"eri_sym": {"given": 1} if given else None, "only_contracted": True})
        for o in returned(ctx, rule, fn, sx.run(fn, args), f"denom_eri_sym[number, {name}]", f"denom_eri_sym number {name}"):
            kw = st.get("kw") or {}
            ok = o.value == ({"given": 1} if given else {"marker": 1}) and \
                (given or (kw.get("only_contracted") is True and not kw.get("only_target")))
            ctx.check(rule, fn, ok, f"number denominator, symmetry {name}: the symmetry of the remainder",
                      f"denom_eri_sym[number, {name}] returns {fmt(o.value)}", key=f"denom_eri_sym number {name}")


# ------------------------------------------------------------------------------------------------ R13c

def interp_D(t, salt):
    """Meaning of the symbolic denominator: D^{upper}_{lower} (SymmetricTensor, bra-ket antisymmetric) stands for
    1 / (sum of the upper orbital energies - sum of the lower orbital energies)."""
    if isinstance(t, T) and t.op == "tensor" and t.args[1] == NAMES["sym_orb_denom"]:
        cls, name, up, lo, bks = t.args
        if cls != "SymmetricTensor" or bks != -1:
            return None
        s = sum((value(E(u), salt) for u in up), Fraction(0)) - sum((value(E(x), salt) for x in lo), Fraction(0))
        return 1 / s if s != 0 else None
    return None


def _has_D(v):
    return any(x.op == "tensor" and x.args[1] == NAMES["sym_orb_denom"] for x in subterms(raw(v)))


def r13c(ctx):
    rule = "R13c"
    D = NAMES["sym_orb_denom"]
    st = {}
    # -- writer: explicit brackets -> D tensors
    fn = ctx.model.fn(EOd + "symbolic_denominator")
    nB1 = {k: -v for k, v in B1.items()}
    cases = {"single bracket": B(**B1), "two brackets": t_mul(B(**B1), T("pow", B(**B2), 2)), "single cube": T("pow", B(**B3), 3),
             "reversed bracket": t_mul(B(**nB1), T("pow", B(k=-1, c=1), 3)), "only added": t_mul(B(i=1, j=1), B(**B2)),
             "only subtracted": T("pow", B(a=-1, b=-1), 2)}
    for name, den in cases.items():
        w = World(IDX)
        sx = w.make(ctx, "symbolic_denominator")

        def args(den=den):
            st["me"] = eo_self(w, 1, B(i=1, a=-1), norm(den), ERI)
            return dict(self=st["me"])
        what = f"symbolic_denominator[{name}]"
        for o in returned(ctx, rule, fn, sx.run(fn, args), what, f"writer {name}"):
            vcheck(ctx, rule, fn, o.value, T("pow", norm(den), -1),
                   f"{what}: product of D^(added)_(subtracted) ** exponent (SymmetricTensor, bra-ket symmetry -1) = 1 / denominator",
                   f"{what}: {fmt(norm(den))} is written as a product of tensors that does not stand for 1/denominator (D^(U)_(L) "
                   "= 1/(sum e_U - sum e_L) must be a SymmetricTensor with bra-ket symmetry -1, the added energies above, the "
                   "subtracted ones below, raised to the exponent of the bracket)", key=f"writer {name}", interp=interp_D)
            reg = w.assumptions_of(o.value)["antisym_tensors"] if isinstance(o.value, Obj) else ()
            ctx.check(rule, fn, D in reg, "the name of the symbolic denominator is registered as bra-ket antisymmetric in the result",
                      f"{what}: antisym_tensors of the result are {reg}", key=f"writer {name} register")
    w = World(IDX)
    sx = w.make(ctx, "symbolic_denominator")

    def args():
        st["me"] = eo_self(w, 1, 1, 1, ERI, )
        st["me"].attrs["_denom"] = w.expr(1, antisym_tensors=("x",))
        return dict(self=st["me"])
    for o in returned(ctx, rule, fn, sx.run(fn, args), "symbolic_denominator[number]", "writer number"):
        reg = w.assumptions_of(o.value)["antisym_tensors"] if isinstance(o.value, Obj) else None
        ctx.check(rule, fn, same_value(o.value, 1) and reg == ("x",), "number denominator: nothing to replace, nothing registered",
                  f"symbolic_denominator[number] returns {fmt(o.value)} with antisym_tensors {reg}", key="writer number")
    for name, den in (("coefficient 2", B(i=2, a=-1)), ("coefficient 1/2", t_mul(B(**B1), B(k=Fraction(1, 2), c=-1)))):
        w = World(IDX)
        sx = w.make(ctx, "symbolic_denominator")
        outs = sx.run(fn, lambda den=den: dict(self=eo_self(w, 1, 1, norm(den), ERI)))
        ctx.check(rule, fn, all(o.kind == "raise" for o in outs), f"bracket with {name}: cannot be written as D, refused",
                  f"symbolic_denominator accepts the bracket {fmt(norm(den))} (coefficients other than +-1 are lost)", key=f"writer {name}")
    # -- reader: D tensor -> explicit bracket
    fn = ctx.model.fn(EC + "Obj.use_explicit_denominators")
    Dt = tensor("SymmetricTensor", D, ("i", "j"), ("a", "b"), -1)
    objs = {"D": Dt, "D**2": T("pow", Dt, 2), "D**-1": T("pow", Dt, -1), "D upper only": tensor("SymmetricTensor", D, ("i",), (), -1),
            "D lower only": T("pow", tensor("SymmetricTensor", D, (), ("a", "b"), -1), 3), "V": ERI, "V**2": T("pow", ERI, 2), "e_i": E("i")}
    for name, val in objs.items():
        for rs in (True, False):
            w = World(IDX)
            sx = w.make(ctx, "Obj.use_explicit_denominators")

            def args(val=val, rs=rs):
                ob = w.objects_of(w.terms_of(w.expr(t_mul(TAMP, val), antisym_tensors=(D, "x")))[0])
                ob = [x for x in ob if same_value(x, val)][0]
                return dict(self=as_self(w, ob, EC + "Obj", names=("name", "base_and_exponent", "sympy", "antisym_tensors", "assumptions",
                                                                   "base", "exponent")), return_sympy=rs)
            what = f"Obj.use_explicit_denominators[{name}{'' if rs else ', wrapped'}]"
            for o in returned(ctx, rule, fn, sx.run(fn, args), what, f"reader {name} {rs}"):
                vcheck(ctx, rule, fn, o.value, val, f"{what}: D^(U)_(L)**n -> (sum e_U - sum e_L)**(-n); other objects untouched",
                       f"{what}: {fmt(val)} is replaced by {fmt(o.value)}, which is not what the symbolic denominator stands for "
                       "(upper energies added, lower subtracted, exponent negated)", key=f"reader {name} {rs}", interp=interp_D)
                ctx.check(rule, fn, not _has_D(o.value), "no symbolic denominator left", f"{what}: result {fmt(o.value)} still contains D",
                          key=f"reader {name} {rs} explicit")
                if not rs:
                    reg = w.assumptions_of(o.value)["antisym_tensors"] if isinstance(o.value, Obj) else None
                    ctx.check(rule, fn, reg == ("x",), "the name of the symbolic denominator is de-registered in the wrapped result",
                              f"{what}: antisym_tensors of the result are {reg}", key=f"reader {name} deregister")
    # -- the term with symbolic denominator: D * pref * num * eri
    fn = ctx.model.fn(EC + "Term.use_symbolic_denominators")
    w = World(IDX)
    SD = T("pow", Dt, 2)

    def eo_hook(sx, a, kw):
        me = eo_self(w, Fraction(-1, 2), B(i=1, a=-1), T("pow", B(**B1), 2), ERI)
        me.attrs["symbolic_denominator"] = lambda sx_, a_, kw_: w.expr(SD, antisym_tensors=(D,))
        st["arg"] = arg(a, kw, 0, "term")
        return me
    w.extra_hooks["EriOrbenergy"] = eo_hook
    sx = w.make(ctx, "Term.use_symbolic_denominators")

    def args():
        st["val"] = norm(t_mul(Fraction(-1, 2), B(i=1, a=-1), T("pow", B(**B1), -2), ERI))
        st["self"] = as_self(w, w.terms_of(w.expr(st["val"]))[0], EC + "Term", names=("sympy",))
        return dict(self=st["self"])
    for o in returned(ctx, rule, fn, sx.run(fn, args), "Term.use_symbolic_denominators", "symbolic product"):
        vcheck(ctx, rule, fn, o.value, st["val"], "symbolic denominator * pref * num * eri is the term",
               "Term.use_symbolic_denominators: the term is rebuilt from parts that do not give its value", key="symbolic product",
               interp=interp_D)
        reg = w.assumptions_of(o.value)["antisym_tensors"] if isinstance(o.value, Obj) else ()
        ctx.check(rule, fn, D in reg and st.get("arg") is st["self"], "the result keeps the registration of D; the term itself is split",
                  f"Term.use_symbolic_denominators: antisym_tensors {reg}", key="symbolic product register")
    # -- Expr level, both directions
    for meth, has in (("use_symbolic_denominators", True), ("use_symbolic_denominators", False)):
        fn = ctx.model.fn(EC + f"Expr.{meth}")
        w = World(IDX)
        vals = [norm(t_mul(ERI, T("pow", B(**B1), -1))), norm(t_mul(2, TAMP, T("pow", B(**B2), -2))), norm(t_mul(-1, ERI, TAMP))]

        def inner(sx, a, kw, has=has):
            t = a[0]
            k = [i for i, v in enumerate(vals) if same_value(t, v)][0]
            return w.expr(T("mcall", raw(t), "M", (), ()), antisym_tensors=(D,) if has and k == 1 else ())
        w.extra_hooks[meth] = inner
        sx = w.make(ctx, f"Expr.{meth}")

        def args():
            ex = w.expr(t_add(*vals))
            st["self"] = as_self(w, ex, EC + "Expr", names=("terms",), _expr=raw(ex), _antisym_tensors=set(), _sym_tensors=set(),
                                 _target_idx=None, _real=False)
            return dict(self=st["self"])
        what = f"Expr.{meth}[{'one term with D' if has else 'no D'}]"
        for o in returned(ctx, rule, fn, sx.run(fn, args), what, f"Expr.{meth} {has}"):
            me = st["self"]
            vcheck(ctx, rule, fn, me.attrs["_expr"], t_add(*[T("mcall", v, "M", (), ()) for v in vals]),
                   f"{what}: every term converted and added once", f"{what}: the converted terms are not added up once each",
                   key=f"Expr.{meth} {has} sum")
            ctx.check(rule, fn, (D in me.attrs["_antisym_tensors"]) == has, "D registered iff a term got a symbolic denominator",
                      f"{what}: antisym tensors afterwards {sorted(me.attrs['_antisym_tensors'])}", key=f"Expr.{meth} {has} register")


# ------------------------------------------------------------------------------------------------ R13d

def _marker(v, meth):
    return T("mcall", raw(v), meth, (), ())


def homomorphism(ctx, rule, method, levels=("Expr", "Term", "Polynom")):
    """M(sum t) = sum M(t),  M(prod o) = prod M(o),  M((sum t)**n) = (sum M(t))**n  with the arguments of the outer
    call forwarded to the inner calls (by parameter name) and the inner calls asked for raw values."""
    inner_cls = {"Expr": "Term", "Term": "Obj", "Polynom": "Term"}
    vals = [norm(t_mul(Fraction(1, 2), ERI, T("pow", B(**B1), -1))), norm(t_mul(-2, TAMP, E("k"))), norm(t_mul(ERI, TAMP))]
    pol = T("pow", t_add(*vals), -2)
    st = {}
    for level in levels:
        fn = ctx.model.fn(f"{EC}{level}.{method}")
        inner = ctx.model.fn(f"{EC}{inner_cls[level]}.{method}")
        outer_params = [a.arg for a in fn.args.args[1:] + fn.args.kwonlyargs]
        inner_params = [a.arg for a in inner.args.args[1:] + inner.args.kwonlyargs]
        for rs in ((True, False) if "return_sympy" in outer_params else (None,)):
            w = World(IDX)
            calls = []

            def hook(sx, a, kw, inner=inner, calls=calls):
                if not (isinstance(a[0], Obj) and a[0].attrs.get("$kind") in ("term", "obj", "polynom")):
                    return NotImplemented
                b = sx.bind(inner, list(a), dict(kw), False, True, True)
                calls.append(b)
                return _marker(a[0], method)
            w.extra_hooks[method] = hook
            sx = w.make(ctx, f"{level}.{method}")

            def args(level=level, rs=rs):
                del calls[:]
                sent = {}
                for p in outer_params:
                    if p == "return_sympy":
                        sent[p] = rs
                    elif p == "target":
                        sent[p] = w.idx("i", "a")
                    else:
                        sent[p] = sym(f"${p}")
                st["sent"] = sent
                if level == "Expr":
                    ex = w.expr(t_add(*vals), antisym_tensors=(NAMES["sym_orb_denom"],))
                    me = as_self(w, ex, EC + "Expr", names=("terms",), _expr=raw(ex), _antisym_tensors={NAMES["sym_orb_denom"]},
                                 _sym_tensors=set(), _target_idx=None, _real=False)
                    st["parts"] = [t.attrs["$value"] for t in me.attrs["terms"]]
                elif level == "Term":
                    t = w.terms_of(w.expr(t_mul(*[vals[0], E("c")])))[0]
                    me = as_self(w, t, EC + "Term", names=("objects", "assumptions", "target", "antisym_tensors", "sym_tensors"))
                    st["parts"] = [x.attrs["$value"] for x in me.attrs["objects"]]
                else:
                    t = w.terms_of(w.expr(t_mul(TAMP, pol)))[0]
                    po = [x for x in w.objects_of(t) if x.attrs["$kind"] == "polynom"][0]
                    me = as_self(w, po, EC + "Polynom", names=("terms", "exponent", "assumptions", "term", "antisym_tensors", "sym_tensors"))
                    st["parts"] = [x.attrs["$value"] for x in me.attrs["terms"]]
                st["me"] = me
                return dict(self=me, **sent)
            what = f"{level}.{method}" + ("" if rs is None else f"[return_sympy={rs}]")
            for o in returned(ctx, rule, fn, sx.run(fn, args), what, what):
                ms = [_marker(v, method) for v in st["parts"]]
                want = t_add(*ms) if level == "Expr" else t_mul(*ms) if level == "Term" else T("pow", t_add(*ms), -2)
                got = st["me"].attrs["_expr"] if level == "Expr" else o.value
                shape = {"Expr": "sum over all terms", "Term": "product over all objects",
                         "Polynom": "(sum over all terms) ** exponent of the polynom"}[level]
                vcheck(ctx, rule, fn, got, want, f"{what}: {shape} of the converted parts, each once",
                       f"{what}: the result is not the {shape} of the converted parts", key=f"{what} shape")
                if level != "Expr" and rs is not None:
                    ctx.check(rule, fn, isinstance(o.value, Obj) != rs, "raw value iff return_sympy", f"{what}: returns {fmt(o.value)}",
                              key=f"{what} wrapping")
                for p in outer_params:
                    if p in ("return_sympy",) or p not in inner_params:
                        continue
                    okf = bool(calls) and all(b.get(p) == st["sent"][p] or b.get(p) is st["sent"][p] for b in calls)
                    ctx.check(rule, fn, okf, f"{what}: parameter `{p}` forwarded",
                              f"{what}: parameter `{p}` is not forwarded to the inner calls (they get {fmt([b.get(p) for b in calls])})",
                              key=f"{what} forward {p}")
                if "return_sympy" in inner_params:
                    ctx.check(rule, fn, bool(calls) and all(b.get("return_sympy") is True for b in calls), f"{what}: inner calls return raw values",
                              f"{what}: inner calls are made with return_sympy={[b.get('return_sympy') for b in calls]}", key=f"{what} raw")
                yield level, rs, w, st, o


def r13d(ctx):
    rule = "R13d"
    D = NAMES["sym_orb_denom"]
    for level, rs, w, st, o in homomorphism(ctx, rule, "use_explicit_denominators"):
        if level == "Expr":
            ctx.check(rule, None, D not in st["me"].attrs["_antisym_tensors"], "Expr.use_explicit_denominators: D de-registered",
                      "Expr.use_explicit_denominators keeps the symbolic denominator registered as antisymmetric tensor",
                      key="Expr.use_explicit_denominators deregister", fn=EC + "Expr.use_explicit_denominators")
        elif rs is False:
            reg = w.assumptions_of(o.value)["antisym_tensors"] if isinstance(o.value, Obj) else None
            ctx.check(rule, None, reg is not None and D not in reg, f"{level}.use_explicit_denominators: D de-registered in the wrapped result",
                      f"{level}.use_explicit_denominators: antisym_tensors of the result {reg}", key=f"{level}.use_explicit_denominators deregister",
                      fn=f"{EC}{level}.use_explicit_denominators")
    for _ in homomorphism(ctx, rule, "block_diagonalize_fock"):
        pass
    for _ in homomorphism(ctx, rule, "expand_antisym_eri"):
        pass
    for level, rs, w, st, o in homomorphism(ctx, rule, "expand_intermediates", levels=("Term", "Polynom")):
        if rs is False:
            tg = w.assumptions_of(o.value)["target_idx"] if isinstance(o.value, Obj) else None
            ctx.check(rule, None, tg is not None and tuple(tg) == tuple(st["sent"]["target"]), f"{level}.expand_intermediates: targets set on the result",
                      f"{level}.expand_intermediates: target indices of the result are {fmt(tg)}", key=f"{level}.expand_intermediates targets",
                      fn=f"{EC}{level}.expand_intermediates")
    _expr_accumulate(ctx, rule, "expand_intermediates", dict(fully_expand=sym("$fully_expand")))
    _obj_expand_antisym_eri(ctx, rule)
    _obj_expand_intermediates(ctx, rule)


def _expr_accumulate(ctx, rule, method, params):
    """Expr.<method> builds the result from the converted terms (each once) and takes over their target indices."""
    fn = ctx.model.fn(f"{EC}Expr.{method}")
    inner = ctx.model.fn(f"{EC}Term.{method}")
    w = World(IDX)
    vals = [norm(t_mul(Fraction(1, 2), ERI, T("pow", B(**B1), -1))), norm(t_mul(-2, TAMP, E("k"))), norm(t_mul(ERI, TAMP))]
    calls, st = [], {}

    def hook(sx, a, kw):
        if not (isinstance(a[0], Obj) and a[0].attrs.get("$kind") == "term"):
            return NotImplemented
        calls.append(sx.bind(inner, list(a), dict(kw), False, True, True))
        return w.expr(_marker(a[0], method), target_idx=w.idx("i", "a"))
    w.extra_hooks[method] = hook
    sx = w.make(ctx, f"Expr.{method}")

    def args():
        del calls[:]
        ex = w.expr(t_add(*vals))
        st["me"] = as_self(w, ex, EC + "Expr", names=("terms",), _expr=raw(ex), _antisym_tensors=set(), _sym_tensors=set(),
                           _target_idx=None, _real=False)
        return dict(self=st["me"], **params)
    what = f"Expr.{method}"
    for o in returned(ctx, rule, fn, sx.run(fn, args), what, what):
        me = st["me"]
        vcheck(ctx, rule, fn, me.attrs["_expr"], t_add(*[_marker(v, method) for v in vals]), f"{what}: every term converted and added once",
               f"{what}: the result is not the sum of the converted terms, each once", key=f"{what} shape")
        for p, v in params.items():
            ctx.check(rule, fn, bool(calls) and all(b.get(p) == v for b in calls), f"{what}: parameter `{p}` forwarded",
                      f"{what}: parameter `{p}` is not forwarded ({fmt([b.get(p) for b in calls])})", key=f"{what} forward {p}")
        ctx.check(rule, fn, all(b.get("return_sympy") in (False, None) for b in calls) or not isinstance(me.attrs["_expr"], Obj),
                  f"{what}: stores a raw value", f"{what}: stores {fmt(me.attrs['_expr'])}", key=f"{what} raw")
        tg = me.attrs.get("_target_idx")
        if tg is None:
            tg = me.attrs["$ass"].get("target_idx")
        ctx.check(rule, fn, tg is not None and [raw_name(x) for x in tg] == ["i", "a"], f"{what}: target indices of the converted terms kept",
                  f"{what}: target indices of the result are {fmt(tg)}, the converted terms carry (i, a)", key=f"{what} targets")


def _obj_expand_antisym_eri(ctx, rule):
    fn = ctx.model.fn(EC + "Obj.expand_antisym_eri")
    V, v = NAMES["eri"], NAMES["coulomb"]
    spins = {"no spin": ("", "", "", ""), "abab": ("a", "b", "a", "b"), "abba": ("a", "b", "b", "a"), "aaaa": ("a", "a", "a", "a"),
             "aabb": ("a", "a", "b", "b"), "aaba": ("a", "a", "b", "a"), "abaa": ("a", "b", "a", "a"), "baaa": ("b", "a", "a", "a")}
    for name, sp in spins.items():
        for n in (1, 2):
            for rs in (True, False):
                w = World({x: "general" + (":" + s if s else "") for x, s in zip("pqrs", sp)})
                sx = w.make(ctx, "Obj.expand_antisym_eri")
                val = T("pow", tensor("AntiSymmetricTensor", V, ("p", "q"), ("r", "s"), 1), n)

                def args(val=val, rs=rs):
                    ob = w.objects_of(w.terms_of(w.expr(val))[0])[0]
                    return dict(self=as_self(w, ob, EC + "Obj", names=("name", "bra_ket_sym", "idx", "exponent", "sympy", "assumptions",
                                                                       "base_and_exponent")), return_sympy=rs)
                parts = []
                if sp[0] == sp[2] and sp[1] == sp[3]:
                    parts.append(tensor("SymmetricTensor", v, ("p", "r"), ("q", "s"), 1))
                if sp[0] == sp[3] and sp[1] == sp[2]:
                    parts.append(t_mul(-1, tensor("SymmetricTensor", v, ("p", "s"), ("q", "r"), 1)))
                want = T("pow", t_add(*parts), n) if parts else 0
                what = f"Obj.expand_antisym_eri[{name}, exponent {n}{'' if rs else ', wrapped'}]"
                for o in returned(ctx, rule, fn, sx.run(fn, args), what, what):
                    vcheck(ctx, rule, fn, o.value, want, f"{what}: (<pq||rs>)**n -> ((pr|qs) - (ps|qr))**n with the spin-allowed parts",
                           f"{what}: expanded to {fmt(o.value)}", key=what)
                    if not rs:
                        reg = w.assumptions_of(o.value)["sym_tensors"] if isinstance(o.value, Obj) else ()
                        ctx.check(rule, fn, (v in reg) == bool(parts), "Coulomb integral registered as symmetric iff it was introduced",
                                  f"{what}: sym_tensors of the result {reg}", key=what + " register")
    for name, val, fine in (("other tensor", T("pow", TAMP, 2), True),
                            ("ERI without bra-ket symmetry", tensor("AntiSymmetricTensor", V, ("i", "j"), ("a", "b"), 0), False)):
        w = World(IDX)
        sx = w.make(ctx, "Obj.expand_antisym_eri")
        outs = sx.run(fn, lambda val=val: dict(self=as_self(w, w.objects_of(w.terms_of(w.expr(val))[0])[0], EC + "Obj",
                                                          names=("name", "bra_ket_sym", "idx", "exponent", "sympy", "assumptions")),
                                             return_sympy=True))
        if fine:
            for o in returned(ctx, rule, fn, outs, f"Obj.expand_antisym_eri[{name}]", f"Obj.expand_antisym_eri {name}"):
                vcheck(ctx, rule, fn, o.value, val, "other objects untouched", f"Obj.expand_antisym_eri[{name}]", key=f"Obj.expand_antisym_eri {name}")
        else:
            ctx.check(rule, fn, all(o.kind == "raise" for o in outs), "complex ERI (no bra-ket symmetry) refused",
                      "Obj.expand_antisym_eri expands an ERI without bra-ket symmetry", key=f"Obj.expand_antisym_eri {name}")


def _obj_expand_intermediates(ctx, rule):
    fn = ctx.model.fn(EC + "Obj.expand_intermediates")
    t2 = tensor("Amplitude", "t2", ("i", "j"), ("a", "b"), 0)
    st = {}
    for name, n, known in (("exponent 1", 1, True), ("exponent 2", 2, True), ("exponent 3", 3, True), ("exponent -1", -1, True),
                           ("exponent -2", -2, True), ("exponent 1/2", Fraction(1, 2), True), ("unknown tensor", 2, False)):
        for rs in (True, False):
            w = World(IDX)
            calls = []

            def expand_itmd(sx, a, kw, calls=calls):
                from .c13_model import named
                a2, kw2 = named(sx, "expand_itmd", [None] + list(a), kw)
                calls.append((a2[1:], kw2))
                return sym(f"$X{len(calls)}")

            def intermediates(sx, a, kw, known=known, expand_itmd=expand_itmd):
                it = Obj(None, "itmd")
                it.attrs.update({"expand_itmd": expand_itmd, "$id": True})
                reg = Obj(None, "Intermediates")
                reg.attrs.update({"available": {"LN": it} if known else {}, "$id": True})
                return reg
            w.extra_hooks["Intermediates"] = intermediates
            w.extra_hooks["longname"] = lambda sx, a, kw: "LN"
            sx = w.make(ctx, "Obj.expand_intermediates")

            def args(n=n, rs=rs):
                del calls[:]
                ob = w.objects_of(w.terms_of(w.expr(T("pow", t2, n)))[0])[0]
                st["idx"] = w.idx("i", "j", "a", "b")
                return dict(self=as_self(w, ob, EC + "Obj", names=("base", "exponent", "idx", "sympy", "assumptions", "term")),
                            target=w.idx("i", "a"), return_sympy=rs, fully_expand=sym("$FE"))
            what = f"Obj.expand_intermediates[{name}{'' if rs else ', wrapped'}]"
            for o in returned(ctx, rule, fn, sx.run(fn, args), what, what):
                if not known:
                    vcheck(ctx, rule, fn, o.value, T("pow", t2, n), "unknown tensor untouched", what, key=what)
                    continue
                sep = is_num(n) and Fraction(n).denominator == 1 and n > 1
                want = t_mul(*[sym(f"$X{k + 1}") for k in range(n)]) if sep else T("pow", sym("$X1"), n)
                vcheck(ctx, rule, fn, o.value, want,
                       f"{what}: " + ("product of n separate expansions (fresh contracted indices each)" if sep else "definition ** exponent"),
                       f"{what}: t2**{n} is expanded to {fmt(o.value)}; " +
                       ("an intermediate with exponent n > 1 must be expanded once per factor: with a single expansion raised to the "
                        "power n all factors share the contracted indices of the definition (each summation index occurs 2n times)"
                        if sep else "the exponent of the object is lost"), key=what)
                okk = bool(calls) and all(not a and kw.get("return_sympy") is True and kw.get("fully_expand") == sym("$FE")
                                          and tuple(kw.get("indices", ())) == tuple(st["idx"]) for a, kw in calls)
                ctx.check(rule, fn, okk, f"{what}: definition expanded on the indices of the object, flag forwarded, raw value requested",
                          f"{what}: expand_itmd called with {fmt([kw for _, kw in calls])}", key=what + " call")
                if not rs:
                    tg = w.assumptions_of(o.value)["target_idx"] if isinstance(o.value, Obj) else None
                    ctx.check(rule, fn, tg is not None and [raw_name(x) for x in tg] == ["i", "a"], "targets set on the wrapped result",
                              f"{what}: target indices of the result {fmt(tg)}", key=what + " targets")
    # objects that are no tensors
    w = World(IDX)
    sx = w.make(ctx, "Obj.expand_intermediates")
    dl = tensor("KroneckerDelta", "delta", ("i", "j"))
    outs = sx.run(fn, lambda: dict(self=as_self(w, w.objects_of(w.terms_of(w.expr(dl))[0])[0], EC + "Obj",
                                                names=("base", "exponent", "idx", "sympy", "assumptions", "term")),
                                   target=None, return_sympy=True, fully_expand=True))
    for o in returned(ctx, rule, fn, outs, "Obj.expand_intermediates[delta]", "Obj.expand_intermediates delta"):
        vcheck(ctx, rule, fn, o.value, dl, "non-tensor objects untouched", "Obj.expand_intermediates[delta]", key="Obj.expand_intermediates delta")


# ------------------------------------------------------------------------------------------------ R13f

def _fock(p, q, n=1):
    return T("pow", tensor("AntiSymmetricTensor", NAMES["fock"], (p,), (q,), 1), n)


def r13f(ctx):
    rule = "R13f"
    st = {}
    # -- block diagonalisation: only f_ov / f_vo vanish
    fn = ctx.model.fn(EC + "Obj.block_diagonalize_fock")
    table = [("f_ij", _fock("i", "j"), True), ("f_ab", _fock("a", "b"), True), ("f_ia", _fock("i", "a"), False),
             ("f_ai", _fock("a", "i"), False), ("f_ia**2", _fock("i", "a", 2), False), ("f_ij**2", _fock("i", "j", 2), True),
             ("f_ip", _fock("i", "p"), True), ("f_pa", _fock("p", "a"), True), ("f_pq", _fock("p", "q"), True), ("f_ii", _fock("i", "i"), True),
             ("V_ijab", ERI, True), ("x_ia", tensor("AntiSymmetricTensor", "x", ("i",), ("a",), 0), True), ("e_i", E("i"), True),
             ("number", Fraction(1, 2), True)]
    for name, val, keep in table:
        for rs in (True, False):
            w = World(IDX)
            sx = w.make(ctx, "Obj.block_diagonalize_fock")
            outs = sx.run(fn, lambda val=val, rs=rs: dict(
                self=as_self(w, w.objects_of(w.terms_of(w.expr(val))[0])[0], EC + "Obj", names=("name", "space", "sympy", "assumptions", "idx")),
                return_sympy=rs))
            what = f"Obj.block_diagonalize_fock[{name}{'' if rs else ', wrapped'}]"
            for o in returned(ctx, rule, fn, outs, what, what):
                vcheck(ctx, rule, fn, o.value, val if keep else 0,
                       f"{what}: " + ("kept" if keep else "zero (occupied-virtual block)"),
                       f"{what}: result {fmt(o.value)}; exactly the Fock elements with two specific and different spaces (f_ov / f_vo) "
                       "vanish - a general index contains the diagonal block", key=what)
    # -- diagonalisation of one element
    fn = ctx.model.fn(EC + "Obj.diagonalize_fock")
    cases = [  # name, value, target, expected (diag, {replaced: survivor})
        ("f_ij, i target", _fock("i", "j"), ("i",), (E("i"), {"j": "i"})),
        ("f_ij, j target", _fock("i", "j"), ("j",), (E("j"), {"i": "j"})),
        ("f_ji, j target", _fock("j", "i"), ("j",), (E("j"), {"i": "j"})),
        ("f_ij, both contracted", _fock("i", "j"), (), (E("i"), {"j": "i"})),
        ("f_ij, both target", _fock("i", "j"), ("i", "j"), (_fock("i", "j"), {})),
        ("f_ab, b target", _fock("a", "b"), ("b",), (E("b"), {"a": "b"})),
        ("f_ij**2, i target", _fock("i", "j", 2), ("i",), (T("pow", E("i"), 2), {"j": "i"})),
        ("f_ab**3, contracted", _fock("a", "b", 3), ("i",), (T("pow", E("a"), 3), {"b": "a"})),
        ("f_ij**-1, i target", _fock("i", "j", -1), ("i",), (T("pow", E("i"), -1), {"j": "i"})),
        ("f_ia", _fock("i", "a"), (), (0, {})),
        ("f_ii", _fock("i", "i"), (), (_fock("i", "i"), {})),
        ("f_ip, p contracted", _fock("i", "p"), ("i",), (E("i"), {"p": "i"})),
        ("f_ip, i contracted", _fock("i", "p"), ("p",), (_fock("i", "p"), {})),
        ("V_ijab", ERI, ("i",), (ERI, {})),
        ("e_i", E("i"), (), (E("i"), {})),
    ]
    for name, val, tg, (wd, wsub) in cases:
        for rs in (True, False):
            w = World(IDX)
            sx = w.make(ctx, "Obj.diagonalize_fock")

            def args(val=val, tg=tg, rs=rs):
                ex = w.expr(t_mul(TAMP, val), target_idx=w.idx(*tg))
                ob = [x for x in w.objects_of(w.terms_of(ex)[0]) if same_value(x, val)][0]
                return dict(self=as_self(w, ob, EC + "Obj", names=("name", "idx", "sympy", "exponent", "assumptions", "term", "base")),
                            target=w.idx(*tg), return_sympy=rs)
            what = f"Obj.diagonalize_fock[{name}{'' if rs else ', wrapped'}]"
            for o in returned(ctx, rule, fn, sx.run(fn, args), what, what):
                res = o.value
                if not (isinstance(res, tuple) and len(res) == 2 and isinstance(res[1], dict)):
                    ctx.bad(rule, fn, f"{what}: returns {fmt(res)}", key=what + " shape")
                    continue
                sub = {raw_name(k): raw_name(v) for k, v in res[1].items()}
                okv = True
                try:
                    okv = same_value(res[0], wd)
                except AnalysisError:
                    okv = False
                ctx.check(rule, fn, okv and sub == wsub,
                          f"{what}: f_pq**n -> e_r**n with r the index that survives delta_pq (a contracted index is removed), "
                          "the removed index is replaced by r; off-diagonal block 0; unevaluable delta: element kept",
                          f"{what}: result {fmt(res[0])} with substitution {sub}; expected {fmt(wd)} with {wsub}", key=what)
                if not rs:
                    t_ = w.assumptions_of(res[0])["target_idx"] if isinstance(res[0], Obj) else None
                    ctx.check(rule, fn, t_ is not None and [raw_name(x) for x in t_] == list(tg), "targets set on the wrapped result",
                              f"{what}: target indices of the result {fmt(t_)}", key=what + " targets")
    # target taken from the term if not given
    w = World(IDX)
    sx = w.make(ctx, "Obj.diagonalize_fock")

    def args():
        ex = w.expr(t_mul(TAMP, _fock("i", "j"), tensor("NonSymmetricTensor", "x", ("j",))))
        ob = [x for x in w.objects_of(w.terms_of(ex)[0]) if same_value(x, _fock("i", "j"))][0]
        return dict(self=as_self(w, ob, EC + "Obj", names=("name", "idx", "sympy", "exponent", "assumptions", "term")), target=None, return_sympy=True)
    for o in returned(ctx, rule, fn, sx.run(fn, args), "Obj.diagonalize_fock[target of the term]", "diag default target"):
        res = o.value
        sub = {raw_name(k): raw_name(v) for k, v in res[1].items()} if isinstance(res, tuple) and isinstance(res[1], dict) else None
        ctx.check(rule, fn, sub == {"j": "i"} and same_value(res[0], E("i")), "targets default to the targets of the term (i): j is removed",
                  f"Obj.diagonalize_fock[target of the term]: {fmt(res)}", key="diag default target")

    # -- one term: product of the diagonalised objects, substitutions collected, chains resolved
    fn = ctx.model.fn(EC + "Term.diagonalize_fock")
    inner = ctx.model.fn(EC + "Obj.diagonalize_fock")
    X = lambda i: tensor("NonSymmetricTensor", "x", (i,))
    tcases = {
        "independent": ([(E("i"), {"j": "i"}), (E("a"), {"b": "a"}), (t_mul(X("j"), X("b")), {})], None),
        "chain": ([(E("i"), {"j": "i"}), (E("j"), {"k": "j"}), (X("k"), {})], None),
        "chain reversed": ([(E("j"), {"k": "j"}), (E("i"), {"j": "i"}), (X("k"), {})], None),
        "long chain": ([(E("k"), {"l": "k"}), (E("i"), {"j": "i"}), (E("j"), {"k": "j"}), (X("l"), {})], None),
        "same twice": ([(E("i"), {"j": "i"}), (E("i"), {"j": "i"}), (X("j"), {})], None),
        "nothing": ([(ERI, {}), (TAMP, {})], None),
        "conflict": ([(E("i"), {"j": "i"}), (E("k"), {"j": "k"}), (X("j"), {})], "NotImplementedError"),
    }
    for name, (parts, exc) in tcases.items():
        for rs, parent in ((True, "expr"), (False, "expr"), (True, "polynom"), (False, "polynom")):
            w = World(IDX)
            calls = []
            sx = w.make(ctx, "Term.diagonalize_fock")

            def args(parts=parts, rs=rs, parent=parent):
                del calls[:]
                obs = []
                for k, (dg, sb) in enumerate(parts):
                    ob = Obj(None, f"o{k}")

                    def dfo(sx_, a, kw, dg=dg, sb=sb):
                        calls.append(sx_.bind(inner, [None] + list(a), dict(kw), False, True, True))
                        return (dg, {w.index[x]: w.index[y] for x, y in sb.items()})
                    ob.attrs.update({"diagonalize_fock": dfo, "$id": True})
                    obs.append(ob)
                val = t_mul(*[p for p, _ in parts])
                if parent == "expr":
                    t = w.terms_of(w.expr(val))[0]
                else:
                    po = [x for x in w.objects_of(w.terms_of(w.expr(t_mul(TAMP, T("pow", t_add(val, ERI), 2))))[0])
                          if x.attrs["$kind"] == "polynom"][0]
                    t = w.terms_of(po)[0]
                st["tg"] = w.idx("i", "a")
                return dict(self=as_self(w, t, EC + "Term", names=("assumptions", "expr"), objects=tuple(obs), target=w.idx("l",)),
                            target=st["tg"], return_sympy=rs)
            outs = sx.run(fn, args)
            what = f"Term.diagonalize_fock[{name}, in {parent}{'' if rs else ', wrapped'}]"
            if exc:
                ctx.check(rule, fn, all(o.kind == "raise" for o in outs), f"{what}: contradicting substitutions refused",
                          f"{what}: two Fock elements that replace the same index by different indices are accepted", key=what)
                continue
            # independent statement of the expectation: all substitutions closed under chains, applied to the product
            m = {}
            for _, sb in parts:
                m.update(sb)
            closed = {}
            for k in m:
                v, seen = m[k], set()
                while v in m and v not in seen:
                    seen.add(v)
                    v = m[v]
                closed[k] = v
            prod = norm(t_mul(*[p for p, _ in parts]))
            for o in returned(ctx, rule, fn, outs, what, what):
                res = o.value
                if parent == "expr":
                    vcheck(ctx, rule, fn, res, substitute(prod, closed),
                           f"{what}: product of the diagonalised objects with every removed index replaced by its final survivor",
                           f"{what}: result {fmt(res)}; expected {fmt(norm(substitute(prod, closed)))}: the substitutions collected "
                           "from the Fock elements are applied simultaneously, chains (f_ij f_jk: k -> j -> i) have to be resolved "
                           "before", key=what)
                    wrapped = res
                else:
                    okp = isinstance(res, tuple) and len(res) == 2 and isinstance(res[1], dict)
                    sub = {raw_name(k): raw_name(v) for k, v in res[1].items()} if okp else None
                    ctx.check(rule, fn, okp and same_value(res[0], prod) and sub == closed,
                              f"{what}: product and resolved substitutions handed to the parent term",
                              f"{what}: returns {fmt(res)}; expected the product {fmt(prod)} and the substitutions {closed}", key=what)
                    wrapped = res[0] if okp else None
                if not rs:
                    t_ = w.assumptions_of(wrapped)["target_idx"] if isinstance(wrapped, Obj) else None
                    ctx.check(rule, fn, t_ is not None and tuple(t_) == tuple(st["tg"]), "targets set on the wrapped result",
                              f"{what}: target indices of the result {fmt(t_)}", key=what + " targets")
                ctx.check(rule, fn, len(calls) == len(parts) and all(b.get("return_sympy") is True and tuple(b.get("target") or ()) == tuple(st["tg"])
                                                                     for b in calls),
                          f"{what}: every object diagonalised once with the targets of the term, raw values requested",
                          f"{what}: inner calls {fmt([{k: v for k, v in b.items() if k != 'self'} for b in calls])}", key=what + " calls")
    # default target
    w = World(IDX)
    calls = []
    sx = w.make(ctx, "Term.diagonalize_fock")

    def args():
        del calls[:]
        ob = Obj(None, "o0")
        ob.attrs.update({"diagonalize_fock": lambda sx_, a, kw: calls.append(sx_.bind(inner, [None] + list(a), dict(kw), False, True, True)) or (ERI, {}),
                         "$id": True})
        st["tg"] = w.idx("k", "c")
        return dict(self=as_self(w, w.terms_of(w.expr(ERI))[0], EC + "Term", names=("assumptions", "expr"), objects=(ob,), target=st["tg"]),
                    target=None, return_sympy=False)
    for o in returned(ctx, rule, fn, sx.run(fn, args), "Term.diagonalize_fock[default target]", "diag term default target"):
        t_ = w.assumptions_of(o.value)["target_idx"] if isinstance(o.value, Obj) else None
        ctx.check(rule, fn, t_ is not None and tuple(t_) == tuple(st["tg"]) and calls and tuple(calls[0].get("target") or ()) == tuple(st["tg"]),
                  "targets default to the targets of the term and are kept on the result",
                  f"Term.diagonalize_fock[default target]: result targets {fmt(t_)}, inner call target {fmt(calls[0].get('target') if calls else None)}",
                  key="diag term default target")
    # -- the expression
    _expr_accumulate(ctx, rule, "diagonalize_fock", {})
    fn = ctx.model.fn(EC + "Polynom.diagonalize_fock")
    w = World(IDX)
    sx = w.make(ctx, "Polynom.diagonalize_fock")
    outs = sx.run(fn, lambda: dict(self=Obj(EC + "Polynom", "self"), target=None))
    ctx.check(rule, fn, all(o.kind == "raise" for o in outs), "polynoms are refused (not silently kept)",
              "Polynom.diagonalize_fock returns a value", key="polynom refused")


# ------------------------------------------------------------------------------------------------ R13g

def r13g(ctx):
    rule = "R13g"
    RE = "reduce_expr:"
    st = {}
    vals = [norm(t_mul(Fraction(1, 2), ERI, T("pow", B(**B1), -1))), norm(t_mul(-2, TAMP, E("k"))), norm(t_mul(ERI, TAMP)),
            norm(t_mul(3, ERI, E("i"))), norm(t_mul(TAMP, T("pow", B(**B2), -1)))]
    # -- grouping by equal remainder / denominator: every term once, transformed by its own operation
    for name, finder, meth in (("factor_eri_parts", "find_compatible_eri_parts", "subs"), ("factor_denom", "find_compatible_denom", "permute")):
        fn = ctx.model.fn(RE + name)
        for gname, groups in (("two groups", {0: {2: "A", 4: "B"}, 1: {3: "C"}}), ("singletons", {0: {}, 1: {}, 2: {}, 3: {}, 4: {}}),
                              ("one group", {2: {0: "A", 1: "B", 3: "C", 4: "D"}})):
            w = World(IDX)
            op = {}

            def find(sx, a, kw, groups=groups, w=w, op=op):
                st["found"] = (list(a), dict(kw))
                out = {}
                for i, d in groups.items():
                    out[i] = {}
                    for j, tag in d.items():
                        # an operation the model can apply: swap of two indices (different per term)
                        pr = {"A": ("i", "j"), "B": ("a", "b"), "C": ("k", "l"), "D": ("c", "d")}[tag]
                        op[j] = pr
                        out[i][j] = [(w.index[pr[0]], w.index[pr[1]]), (w.index[pr[1]], w.index[pr[0]])] if meth == "subs" else (w.idx(*pr),)
                return out
            w.extra_hooks[finder] = find
            sx = w.make(ctx, name)

            def args():
                op.clear()
                st["e"] = w.expr(t_add(*vals), real=True, target_idx=w.idx("i", "a"))
                return dict(expr=st["e"], **({"eri_sym": sym("$eri_sym")} if name == "factor_denom" else {}))
            what = f"{name}[{gname}]"
            for o in returned(ctx, rule, fn, sx.run(fn, args), what, what):
                res = o.value
                order = [raw(t) for t in w.terms_of(w.expr(t_add(*vals)))]
                want = []
                for i, d in groups.items():
                    want.append(norm(t_add(order[i], *[substitute(order[j], {op[j][0]: op[j][1], op[j][1]: op[j][0]}) for j in d])))
                okl = isinstance(res, list) and len(res) == len(want)
                ok = okl and all(same_value(g, x) for g, x in zip(res, want))
                ctx.check(rule, fn, ok, f"{what}: one sub-expression per key term: the key term plus every matched term transformed by its own "
                          f"{'substitution' if meth == 'subs' else 'permutation'}, each term exactly once",
                          f"{what}: got {fmt(res)}; expected {fmt(want)} (a term is lost, counted twice or added untransformed)", key=what)
                if okl:
                    ctx.check(rule, fn, all(isinstance(g, Obj) and w.assumptions_of(g).get("real") is True and
                                            w.assumptions_of(g).get("target_idx") is not None for g in res),
                              f"{what}: the sub-expressions keep the assumptions of the expression",
                              f"{what}: assumptions of the sub-expressions {[w.assumptions_of(g) if isinstance(g, Obj) else None for g in res]}",
                              key=what + " assumptions")
                if name == "factor_denom":
                    ctx.check(rule, fn, arg(st["found"][0], st["found"][1], 1, "eri_sym") == sym("$eri_sym"),
                              "symmetry of the remainder forwarded", f"{what}: find_compatible_denom called with {fmt(st['found'][1])}", key=what + " eri_sym")
        # single term: unchanged
        w = World(IDX)
        sx = w.make(ctx, name)
        outs = sx.run(fn, lambda: dict(expr=w.expr(vals[0])))
        for o in returned(ctx, rule, fn, outs, f"{name}[single term]", f"{name} trivial"):
            ctx.check(rule, fn, isinstance(o.value, list) and len(o.value) == 1 and same_value(o.value[0], vals[0]), f"{name}: single term unchanged",
                      f"{name}[single term] returns {fmt(o.value)}", key=f"{name} trivial")
    # -- the remainder of a term: everything but numbers and orbital energies, protected by the targets of the full term
    fn = ctx.model.fn(RE + "find_compatible_eri_parts")
    w = World(IDX)
    w.extra_hooks["find_compatible_terms"] = lambda sx, a, kw: st.__setitem__("parts", list(arg(a, kw, 0, "terms"))) or {"marker": 1}
    sx = w.make(ctx, "find_compatible_eri_parts")
    tv = [norm(t_mul(Fraction(-1, 2), ERI, TAMP, E("k"), T("pow", B(**B1), -2), T("pow", E("c"), -1))), norm(t_mul(T("pow", ERI, 2), B(**B3))),
          norm(t_mul(3, TAMP))]
    wantp = [norm(t_mul(ERI, TAMP)), T("pow", ERI, 2), TAMP]

    def args():
        ex = w.expr(t_add(*tv))
        st["terms"] = list(w.terms_of(ex))
        return dict(term_list=st["terms"])
    for o in returned(ctx, rule, fn, sx.run(fn, args), "find_compatible_eri_parts", "eri part"):
        parts = st.get("parts") or []
        order = [[k for k, v in enumerate(tv) if same_value(t, v)][0] for t in st["terms"]]
        ok = len(parts) == len(tv) and all(same_value(p_, wantp[k]) for p_, k in zip(parts, order))
        ctx.check(rule, fn, ok and o.value == {"marker": 1}, "remainder = all objects but numbers and orbital-energy brackets, compared by find_compatible_terms",
                  f"find_compatible_eri_parts compares the parts {fmt(parts)}; expected {fmt([wantp[k] for k in order])}", key="eri part")
        tg = [w.assumptions_of(p_).get("target_idx") if isinstance(p_, Obj) else None for p_ in parts]
        wt = [[raw_name(x) for x in w.target_of(t)] for t in st["terms"]]
        ctx.check(rule, fn, len(tg) == len(wt) and all(t is not None and [raw_name(x) for x in t] == x_ for t, x_ in zip(tg, wt)),
                  "the targets of the full term protect the indices of the remainder",
                  f"find_compatible_eri_parts: the remainders carry the targets {fmt(tg)}, the terms have {wt}", key="eri targets")
    outs = sx.run(fn, lambda: dict(term_list=[w.terms_of(w.expr(tv[0]))[0]]))
    ctx.check(rule, fn, all(o.kind == "return" and o.value == {0: {}} for o in outs), "single term: nothing to compare",
              f"find_compatible_eri_parts[single] {outs}", key="eri part trivial")
    # -- reduce_expr: the value is conserved through the three stages
    _reduce_expr(ctx, rule)


def _reduce_expr(ctx, rule):
    fn = ctx.model.fn("reduce_expr:reduce_expr")
    st = {}
    vals = [norm(t_mul(Fraction(1, 2), ERI, E("i"))), norm(t_mul(-2, TAMP, E("k"))), norm(t_mul(ERI, TAMP))]

    def mk(w, zero=False):
        def split(rec, k):
            """the summands of a record in groups of at most k"""
            v = raw(rec)
            parts = list(v.args) if isinstance(v, T) and v.op == "add" else [v]
            return [w.wrap_like(rec, t_add(*parts[i:i + k])) for i in range(0, len(parts), k)]

        def expand_intermediates(sx, a, kw):
            t = a[0]
            v = raw(t)
            return w.wrap_like(t, t_add(t_mul(v, sym("$A")), t_mul(v, sym("$B")), t_mul(v, t_add(1, t_mul(-1, sym("$A")), t_mul(-1, sym("$B"))))))

        def find_parts(sx, a, kw):
            n = len(arg(a, kw, 0, "term_list"))
            out = {0: {j: [] for j in range(2, n, 2)}}
            if n > 1:
                out[1] = {j: [] for j in range(3, n, 2)}
            return out

        def eo(sx, a, kw):
            t = arg(a, kw, 0, "term")
            me = Obj(None, "eo")
            res = w.wrap_like(t, raw(t))
            me.attrs.update({"$id": True, "eri": w.terms_of(w.wrap_like(t, ERI))[0], "num": w.expr(1),
                             "permute_num": lambda sx_, a_, kw_: me, "cancel_orb_energy_frac": lambda sx_, a_, kw_: res})
            return me
        w.extra_hooks.update({
            "expand_intermediates": expand_intermediates,
            "factor_eri_parts": lambda sx, a, kw: split(arg(a, kw, 0, "expr"), 2),
            "factor_denom": lambda sx, a, kw: split(arg(a, kw, 0, "expr"), 1),
            "substitute_contracted": lambda sx, a, kw: [],
            "find_compatible_eri_parts": find_parts,
            "EriOrbenergy": eo,
            "symmetry": lambda sx, a, kw: {},
        })
        if zero:
            w.extra_hooks["subs"] = lambda sx, a, kw: w.wrap_like(a[0], 0) if isinstance(a[0], Obj) else 0
        return w
    w = mk(World(IDX))
    sx = w.make(ctx, "reduce_expr", max_paths=64)
    outs = sx.run(fn, lambda: dict(expr=w.expr(t_add(*vals), real=True)))
    for o in returned(ctx, rule, fn, outs, "reduce_expr", "reduce_expr value"):
        vcheck(ctx, rule, fn, o.value, t_add(*vals),
               "reduce_expr: every expanded term reaches the result exactly once (expansion, ERI classes, denominators, cancellation, final factoring)",
               "reduce_expr: with value-preserving expansion, grouping and cancellation steps the result differs from the input: a "
               "sub-expression is dropped or added twice between the stages", key="reduce_expr value")
    w = mk(World(IDX), zero=True)
    sx = w.make(ctx, "reduce_expr", max_paths=64)
    outs = sx.run(fn, lambda: dict(expr=w.expr(t_add(*vals), real=True)))
    ctx.check(rule, fn, all(o.kind == "raise" for o in outs), "a substitution of contracted indices that annihilates a sub-expression is refused",
              "reduce_expr continues with a sub-expression that its own index substitution turned into 0", key="zero guard")
    w = mk(World(IDX))
    sx = w.make(ctx, "reduce_expr", max_paths=64)
    outs = sx.run(fn, lambda: dict(expr=w.expr(t_add(*vals), real=False)))
    ctx.check(rule, fn, all(o.kind == "raise" for o in outs), "complex orbitals refused (intermediates are defined for real orbitals)",
              "reduce_expr accepts an expression that is not real", key="real guard")


def run_thorough(ctx):
    """larger families: all weight / power / leftover combinations for two brackets, all sign patterns of three brackets"""
    import itertools
    rule = "R13h"
    fn = ctx.model.fn(EOd + "cancel_orb_energy_frac")
    st = {}
    if ctx.want(rule):
        ws = (Fraction(1, 2), 1, 2, 3)
        for w1, w2, e1, e2, left in itertools.product(ws, ws, (1, 2), (1, 2), (None, "l", "k")):
            w = World(IDX)
            w.extra_hooks["factor_and_remove_number"] = lambda sx, a, kw, w=w: _far_model(w, sx, a, kw)
            sx = w.make(ctx, "cancel_orb_energy_frac")
            num = norm(t_add(t_mul(w1, B(**B1)), t_mul(w2, B(**B2)), *([E(left)] if left else [])))
            den = norm(t_mul(T("pow", B(**B1), e1), T("pow", B(**B2), e2)))

            def args(num=num, den=den):
                st["me"] = eo_self(w, Fraction(-1, 3), num, den, ERI)
                st["val"] = eo_value(st["me"])
                return dict(self=st["me"])
            name = f"{w1} B1 + {w2} B2{' + e_' + left if left else ''} over B1**{e1} B2**{e2}"
            for o in returned(ctx, rule, fn, sx.run(fn, args), f"cancel_orb_energy_frac[{name}]", f"thorough {name}"):
                vcheck(ctx, rule, fn, o.value, st["val"], f"cancel_orb_energy_frac[{name}]: partial fractions add up to the fraction",
                       f"cancel_orb_energy_frac[{name}]: the decomposition has a different value", key=f"thorough {name}")
    rule = "R13a"
    fn = ctx.model.fn(EOd + "canonicalize_sign")
    if ctx.want(rule):
        brs = (B1, B2, dict(l=1, d=-1))
        for signs, exps, nsign, only in itertools.product(itertools.product((1, -1), repeat=3), ((1, 1, 1), (1, 2, 3), (2, 2, 1)), (1, -1),
                                                          (False, True)):
            w = World(IDX)
            sx = w.make(ctx, "canonicalize_sign")
            den = norm(t_mul(*[T("pow", B(**{k: v * s_ for k, v in b.items()}), e) for b, s_, e in zip(brs, signs, exps)]))

            def args(den=den, nsign=nsign, only=only):
                st["me"] = eo_self(w, Fraction(2, 3), B(i=nsign, a=-nsign), den, ERI)
                st["val"] = eo_value(st["me"])
                return dict(self=st["me"], only_denom=only)
            name = f"signs {signs} powers {exps} numerator {nsign} only_denom={only}"
            for o in returned(ctx, rule, fn, sx.run(fn, args), f"canonicalize_sign[{name}]", f"thorough {name}"):
                me = st["me"]
                vcheck(ctx, rule, fn, eo_value(me), st["val"], f"canonicalize_sign[{name}]: value unchanged",
                       f"canonicalize_sign[{name}]: value changed", key=f"thorough {name} value")
                dv = norm(raw(me.attrs["_denom"]))
                fs = list(dv.args) if isinstance(dv, T) and dv.op == "mul" else [dv]
                okd = all(_canonical(w, linear_form(f_.args[0] if isinstance(f_, T) and f_.op == "pow" else f_)) for f_ in fs if not is_num(f_))
                okn = only or _canonical(w, linear_form(raw(me.attrs["_num"])))
                ctx.check(rule, fn, okd and okn, f"canonicalize_sign[{name}]: canonical signs", f"canonicalize_sign[{name}]: left as "
                          f"{fmt(me.attrs['_num'])} / {fmt(dv)}", key=f"thorough {name} signs")


def run(ctx):
    if ctx.want("R13h"):
        r13h(ctx)
    for r, f in (("R13a", r13a), ("R13b", r13b), ("R13c", r13c), ("R13d", r13d), ("R13e", r13e), ("R13f", r13f),
                 ("R13g", r13g)):
        if ctx.want(r):
            f(ctx)
