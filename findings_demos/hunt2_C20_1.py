"""simplify_unitary drops terms of a sum factor (a + b)^1 when the generated
delta is 1 and nothing but the sum (and a number) remains in the term.

U_ij^2 (X_i + Y_i), target i:  sum_j U_ij^2 = 1  ->  X_i + Y_i expected,
the library returns X_i only.
Run from the worktree root: /venv/bin/python hunt_out/1/demo.py
"""
import os
import sys
import itertools
from fractions import Fraction as Fr
sys.path.insert(0, os.getcwd())

from sympy import Add, Mul, Pow  # noqa E402
from adcgen.expr_container import Expr  # noqa E402
from adcgen.indices import get_symbols  # noqa E402
from adcgen.simplify import simplify_unitary  # noqa E402
from adcgen.sympy_objects import (  # noqa E402
    NonSymmetricTensor, KroneckerDelta, Index
)

N = 2
U = [[Fr(3, 5), Fr(4, 5)], [Fr(-4, 5), Fr(3, 5)]]  # orthogonal
VALS = {'X': [Fr(2), Fr(3)], 'Y': [Fr(5), Fr(7)], 'Z': [Fr(11), Fr(13)]}


def factor(f, a):
    if f.is_number:
        return Fr(int(f.p), int(f.q))
    if isinstance(f, Pow):
        return factor(f.base, a) ** int(f.exp)
    if isinstance(f, Add):
        return sum(factor(x, a) for x in f.args)
    if isinstance(f, Mul):
        r = Fr(1)
        for x in f.args:
            r *= factor(x, a)
        return r
    if isinstance(f, KroneckerDelta):
        return Fr(int(a[f.args[0]] == a[f.args[1]]))
    if f.name == 'U':
        return U[a[f.idx[0]]][a[f.idx[1]]]
    return VALS[f.name][a[f.idx[0]]]


def value(expr, tassign):
    """sum of all terms, each summed over its non-target indices"""
    tot = Fr(0)
    for t in Add.make_args(expr):
        free = sorted((s for s in t.atoms(Index) if s not in tassign), key=str)
        for v in itertools.product(range(N), repeat=len(free)):
            a = dict(tassign)
            a.update(zip(free, v))
            tot += factor(t, a)
    return tot


i, j, k = get_symbols('ijk')
Uij = NonSymmetricTensor('U', (i, j))
X, Y, Z = (NonSymmetricTensor(n, (i,)) for n in 'XYZ')

cases = [
    ("U_ij^2 (X_i + Y_i), target i", Uij**2 * (X + Y), 'i'),
    ("2 U_ij^2 (X_i + Y_i), target i", 2 * Uij**2 * (X + Y), 'i'),
    ("U_ij^2 (X_i + Y_i + Z_i), no target", Uij**2 * (X + Y + Z), ''),
    ("U_ij^2 (X_i + Y_i), Einstein convention", Uij**2 * (X + Y), None),
]
failed = False
for descr, t, tg in cases:
    ex = Expr(t) if tg is None else Expr(t, target_idx=tg)
    targets = get_symbols(tg) if tg else []
    for evd in (False, True):
        res = simplify_unitary(ex, 'U', evaluate_deltas=evd).sympy
        for v in itertools.product(range(N), repeat=len(targets)):
            ta = dict(zip(targets, v))
            want, got = value(t, ta), value(res, ta)
            if want != got:
                failed = True
                print(f"{descr} (evaluate_deltas={evd}): result {res}; "
                      f"targets {ta}: input value {want}, result value {got}")
if failed:
    print("DEFECT: simplify_unitary changed the value of the expression")
    sys.exit(1)
print("ok: all values preserved")
sys.exit(0)
