G = "generate_code/generate_code.py"
O = "generate_code/optimize_contractions.py"
WITNESSES = [
    dict(id="c17-f13-revert", prop="C17", file=G, expect="R17d",
         old="        [obj.base.name for obj in term.objects\n         if isinstance(obj.base, Symbol) for _ in range(obj.exponent)]",
         new="        [obj.name for obj in term.objects\n         if isinstance(obj.base, Symbol) for _ in range(obj.exponent)]"),
    dict(id="c17-f7-revert", prop="C17", file=G, expect="R17c",
         old='    if name == f"{tensor_names.eri}_{space}":\n        return f"hf.{space}"', new='    if name.startswith(tensor_names.eri):\n        return f"hf.{space}"'),
    dict(id="c17-misaligned", prop="C17", file=G, expect="R17a",
         old="        if indices:  # we have a tensor\n            tensors.append(name)", new="        tensors.append(name)\n        if indices:  # we have a tensor"),
    dict(id="c17-target-string", prop="C17", file=G, expect="R17a",
         old='        target = "".join(letters[idx.name] for idx in contraction.target)', new='        target = "".join(sorted(letters[idx.name] for idx in contraction.target))'),
    dict(id="c17-einsum-shortcut", prop="C17", file=G, expect="R17a",
         old="    if len(tensors) == 1 and indices[0] == target:", new="    if len(tensors) == 1 and len(indices[0]) == len(target):"),
    dict(id="c17-backend-fallthrough", prop="C17", file=G, expect="R17b",
         old='    else:\n        raise NotImplementedError("Comment token not implemented for backend "\n                                  f"{backend}.")', new='    else:\n        comment_token = "#"'),
    dict(id="c17-sign", prop="C17", file=G, expect="R17d",
         old='    if number_pref < 0:\n        sign = "-"\n        number_pref *= -1', new='    if number_pref < 0:\n        sign = "-"'),
    dict(id="c17-perm-sign", prop="C17", file=G, expect="R17d",
         old='        contrib = ["+ "] if factor == 1 else ["- "]', new='        contrib = ["+ "] if factor == -1 else ["- "]'),
    dict(id="c17-rational-swap", prop="C17", file=G, expect="R17d",
         old='        return f"{prefactor.p} / {prefactor.q}"', new='        return f"{prefactor.q} / {prefactor.p}"'),
    dict(id="c17-symmetry-args", prop="C17", file=G, expect="R17e",
         old="        bra_ket_sym=bra_ket_sym,\n        antisymmetric_result_tensor=antisymmetric_result_tensor", new="        antisymmetric_result_tensor=antisymmetric_result_tensor"),
    dict(id="c17-strip-before", prop="C17", file=G, expect="R17e",
         old="    # try to reduce the number of terms by exploiting permutational symmetry\n", new="    target_indices = target_indices.replace(\",\", \"\")\n"),
    dict(id="c17-spin-lost", prop="C17", file=G, expect="R17e",
         old="                contractions = unoptimized_contraction(\n                    term=term, target_indices=target_indices,\n                    target_spin=target_spin\n                )",
         new="                contractions = unoptimized_contraction(\n                    term=term, target_indices=target_indices\n                )"),
    dict(id="c17-single-obj", prop="C17", file="generate_code/optimize_contractions.py", expect="R16a",
         old="        return [Contraction(indices=tuple(relevant_obj_indices),\n                            names=tuple(relevant_obj_names),",
         new="        return [Contraction(indices=relevant_obj_indices[0],\n                            names=tuple(relevant_obj_names),"),

    # ---- breaking witnesses for the checks introduced with the re-foundation (emitted text is executed)
    dict(id="c17-operands-reversed", prop="C17", file=G, expect="R17a",
         old="            f\"einsum({contr_str}, {', '.join(tensors)})\"", new="            f\"einsum({contr_str}, {', '.join(reversed(tensors))})\""),
    dict(id="c17-factors-dropped", prop="C17", file=G, expect="R17a",
         old="    components = [*factors]\n    # special case: single tensor with the correct target indices", new="    components = []\n    # special case: single tensor with the correct target indices"),
    dict(id="c17-idx-string-sorted", prop="C17", file=G, expect="R17a",
         old='        idx_str = ["".join(letters[idx.name] for idx in indices)', new='        idx_str = ["".join(sorted(letters[idx.name] for idx in indices))'),
    dict(id="c17-cache-miss-silent", prop="C17", file=G, expect="R17a",
         old="            name = contraction_cache.get(name, None)\n            if name is None:", new="            name = contraction_cache.get(name, name)\n            if name is None:"),
    dict(id="c17-lt-contract-target", prop="C17", file=G, expect="R17a",
         old="                f\"contract({'|'.join(s.name for s in contracted)}, \"", new="                f\"contract({'|'.join(target)}, \""),
    dict(id="c17-lt-dot-for-contract", prop="C17", file=G, expect="R17a",
         old="        elif contracted and not target:  # inner product\n            components.append(f\"dot_product({', '.join(tensors)})\")",
         new="        elif contracted and not target:  # inner product\n            components.extend(tensors)"),
    dict(id="c17-lt-partial-trace", prop="C17", file=G, expect="R17a",
         old="            if any(n > 1 for _, n in Counter(contracted_obj_indices).items()):", new="            if any(n > 2 for _, n in Counter(contracted_obj_indices).items()):"),
    dict(id="c17-lt-label-order", prop="C17", file=G, expect="R17a",
         old="            name = f\"{name}({'|'.join(idx.name for idx in indices)})\"", new="            name = f\"{name}({'|'.join(sorted(idx.name for idx in indices))})\""),
    dict(id="c17-cpp-fallthrough", prop="C17", file=G, expect="R17b",
         old="            _format_cpp_prefactor(pref) for pref in prefactor.args\n        )\n    raise NotImplementedError(\n        f\"Formatting of prefactor {prefactor}, {type(prefactor)} \"\n        \"not implemented.\"\n    )",
         new="            _format_cpp_prefactor(pref) for pref in prefactor.args\n        )\n    return str(prefactor)"),
    dict(id="c17-prefactor-backend-default", prop="C17", file=G, expect="R17b",
         old="    else:\n        raise NotImplementedError(f\"Prefactor for backend {backend} not \"\n                                  \"implemented.\")",
         new="    else:\n        number_pref = _format_python_prefactor(number_pref)"),
    dict(id="c17-fock-block", prop="C17", file=G, expect="R17c",
         old='        return f"hf.f{space}"', new='        return f"hf.{space}"'),
    dict(id="c17-libadc-eri-literal", prop="C17", file=G, expect="R17c",
         old='    if name == f"{tensor_names.eri}_{space}":\n        return f"i_{space}"', new='    if name == f"V_{space}":\n        return f"i_{space}"'),
    dict(id="c17-t2eri-number", prop="C17", file=G, expect="R17c",
         old='        return f"pi{n}"', new='        return "pi1"'),
    dict(id="c17-cpp-int-division", prop="C17", file=G, expect="R17d",
         old='        return f"{float(prefactor.p)} / {float(prefactor.q)}"', new='        return f"{prefactor.p} / {prefactor.q}"'),
    dict(id="c17-sqrt-arg", prop="C17", file=G, expect="R17d",
         old='        return f"sqrt({prefactor.args[0]})"', new='        return f"sqrt({prefactor.args[1]})"'),
    dict(id="c17-symbol-exponent", prop="C17", file=G, expect="R17d",
         old="         if isinstance(obj.base, Symbol) for _ in range(obj.exponent)]", new="         if isinstance(obj.base, Symbol)]"),
    dict(id="c17-quarter-literal", prop="C17", file=G, expect="R17d",
         old="    elif prefactor in [Rational(1, 2), Rational(1, 4)]:  # simple Rational\n        return str(float(prefactor))",
         new="    elif prefactor in [Rational(1, 2), Rational(1, 4)]:  # simple Rational\n        return \"0.5\""),
    dict(id="c17-perm-identity", prop="C17", file=G, expect="R17d",
         old='    perm_sym = ["1"]\n', new='    perm_sym = []\n'),
    dict(id="c17-perm-factor-assert", prop="C17", file=G, expect="R17d",
         old="        assert factor in [1, -1]\n", new=""),
    dict(id="c17-inner-outer-swapped", prop="C17", file=G, expect="R17e",
         old="                    inner.append(contr)\n                else:\n                    outer.append(contr)", new="                    outer.append(contr)\n                else:\n                    inner.append(contr)"),
    dict(id="c17-cache-wrong-key", prop="C17", file=G, expect="R17e",
         old="                contraction_cache[contr.contraction_name] = contr_str", new="                contraction_cache[contr.id] = contr_str"),
    dict(id="c17-line-without-prefactor", prop="C17", file=G, expect="R17e",
         old='                f"{prefactor} * {contr_str}  {scaling_comment}"', new='                f"{contr_str}  {scaling_comment}"'),
    dict(id="c17-number-term-dropped", prop="C17", file=G, expect="R17e",
         old="                contraction_code.append(prefactor)\n                continue", new="                continue"),
    dict(id="c17-one-outer-assert", prop="C17", file=G, expect="R17e",
         old="            assert len(outer) == 1\n", new=""),
    # the symmetry analysis refuses a non-Expr with the same error class: the guard is redundant (preserving)
    dict(id="c17-expr-guard-redundant", prop="C17", file=G, expect=None,
         old='    if not isinstance(expr, Expr):\n        raise Inputerror("The expression needs to be provided as \'Expr\'.")\n', new=""),
    dict(id="c17-flag-inverted", prop="C17", file=G, expect="R17e",
         old="            if optimize_contraction_scheme:\n", new="            if not optimize_contraction_scheme:\n"),
    dict(id="c17-limits-swapped", prop="C17", file=G, expect="R17e",
         old="                    target_spin=target_spin, max_itmd_dim=max_itmd_dim,\n                    max_n_simultaneous_contracted=max_n_simultaneous_contracted",
         new="                    target_spin=target_spin, max_itmd_dim=max_n_simultaneous_contracted,\n                    max_n_simultaneous_contracted=max_itmd_dim"),
    dict(id="c17-perm-of-first-class", prop="C17", file=G, expect="R17e",
         old="        perm_str = format_perm_symmetry(perm_symmetry)\n", new="        perm_str = format_perm_symmetry(next(iter(expr_with_perm_sym)))\n"),
    dict(id="c17-unopt-target-order", prop="C17", file=O, expect="R17f",
         old="        target_indices = tuple(get_symbols(target_indices, target_spin))\n    # extract the relevant part of the term",
         new="        target_indices = tuple(sorted(get_symbols(target_indices, target_spin), key=lambda s: s.name))\n    # extract the relevant part of the term"),
    dict(id="c17-unopt-symbol-kept", prop="C17", file=O, expect=["R17f", "R16"],
         old="        elif isinstance(base, Symbol):  # skip symbolic prefactor\n            continue\n        elif not isinstance(base, (SymbolicTensor, KroneckerDelta)):\n            raise NotImplementedError(\"Contractions only implemented for \"",
         new="        elif not isinstance(base, (SymbolicTensor, KroneckerDelta, Symbol)):\n            raise NotImplementedError(\"Contractions only implemented for \""),
    dict(id="c17-unopt-division", prop="C17", file=O, expect=["R17f", "R16"],
         old="        elif exp < 0:\n            raise NotImplementedError(f\"Found object {obj} with exponent \"\n                                      f\"{exp} < 0. Contractions not \"\n                                      \"implemented for divisions.\")\n        elif isinstance(base, Symbol):  # skip symbolic prefactor\n            continue\n        elif not isinstance(base, (SymbolicTensor, KroneckerDelta)):\n            raise NotImplementedError(\"Contractions only implemented for \"",
         new="        elif isinstance(base, Symbol):  # skip symbolic prefactor\n            continue\n        elif not isinstance(base, (SymbolicTensor, KroneckerDelta)):\n            raise NotImplementedError(\"Contractions only implemented for \""),
]

# ---- behaviour-preserving refactorings (new kinds): the checks must stay silent
PRESERVING = [
    # str.format instead of an f-string, operands joined before
    dict(id="c17-p-format-method", prop="C17", file=G, expect=None,
         old="        contr_str = f\"\\\"{','.join(indices)}->{target}\\\"\"\n        components.append(\n            f\"einsum({contr_str}, {', '.join(tensors)})\"\n        )",
         new="        subscripts = '\"{}->{}\"'.format(','.join(indices), target)\n        operands = ', '.join(tensors)\n        components.append('einsum({}, {})'.format(subscripts, operands))"),
    # %-formatting and string concatenation
    dict(id="c17-p-percent-concat", prop="C17", file=G, expect=None,
         edits=[('        return f"hf.{space}"', '        return "hf." + space'),
                ('        return f"hf.f{space}"', '        return "hf.f%s" % space')]),
    # index loop instead of zip, tuple unpacking moved
    dict(id="c17-p-index-loop", prop="C17", file=G, expect=None,
         old="    for name, indices in zip(contraction.names, contraction.indices):\n",
         new="    for pos in range(len(contraction.names)):\n        name = contraction.names[pos]\n        indices = contraction.indices[pos]\n"),
    # Counter replaced by list.count, set of contracted indices hoisted
    dict(id="c17-p-count-instead-of-counter", prop="C17", file=G, expect=None,
         old="            if any(n > 1 for _, n in Counter(contracted_obj_indices).items()):",
         new="            if any(contracted_obj_indices.count(idx) > 1 for idx in contracted_obj_indices):"),
    # abs() / unary minus instead of *= -1, sign by conditional expression
    dict(id="c17-p-abs-sign", prop="C17", file=G, expect=None,
         old='    if number_pref < 0:\n        sign = "-"\n        number_pref *= -1\n    else:\n        sign = "+"',
         new='    sign = "-" if number_pref < 0 else "+"\n    number_pref = abs(number_pref)'),
    dict(id="c17-p-unary-minus", prop="C17", file=G, expect=None,
         old='        sign = "-"\n        number_pref *= -1', new='        sign = "-"\n        number_pref = -number_pref'),
    # dispatch table instead of an if-chain (backend -> formatter)
    dict(id="c17-p-dispatch-table", prop="C17", file=G, expect=None,
         old='    if backend == "einsum":  # python\n        number_pref = _format_python_prefactor(number_pref)\n    elif backend == "libtensor":  # C++\n        number_pref = _format_cpp_prefactor(number_pref)\n    else:\n        raise NotImplementedError(f"Prefactor for backend {backend} not "\n                                  "implemented.")',
         new='    formatters = {"einsum": _format_python_prefactor,\n                  "libtensor": _format_cpp_prefactor}\n    if backend not in formatters:\n        raise NotImplementedError(f"Prefactor for backend {backend} not "\n                                  "implemented.")\n    number_pref = formatters[backend](number_pref)'),
    # branches of the prefactor formatter reordered / nested, q == 1 instead of int()
    dict(id="c17-p-prefactor-branches", prop="C17", file=G, expect=None,
         old='    if prefactor == int(prefactor):  # natural number\n        return str(prefactor)\n    elif prefactor in [Rational(1, 2), Rational(1, 4)]:  # simple Rational\n        return str(float(prefactor))\n    elif isinstance(prefactor, Rational):  # mor ecomplex rational\n        return f"{prefactor.p} / {prefactor.q}"',
         new='    if isinstance(prefactor, Rational):\n        if prefactor.q == 1:  # natural number\n            return str(prefactor)\n        if prefactor == Rational(1, 2) or prefactor == Rational(1, 4):\n            return str(float(prefactor))\n        return f"{prefactor.p} / {prefactor.q}"'),
    # map(str, ...) and a sign table for the permutation operators
    dict(id="c17-p-perm-map", prop="C17", file=G, expect=None,
         old='        contrib = ["+ "] if factor == 1 else ["- "]\n        for perm in permutations:\n            contrib.append(str(perm))\n        perm_sym.append("".join(contrib))',
         new='        perm_sym.append({1: "+ ", -1: "- "}[factor] + "".join(map(str, permutations)))'),
    # per-term code extracted into a helper function; cache built by a loop inside the helper
    dict(id="c17-p-helper-extracted", prop="C17", file=G, expect=None,
         edits=[("            contraction_cache = {}\n            for contr in inner:\n                contr_str = format_contraction(contr, contraction_cache,\n                                               backend=backend)\n                contraction_cache[contr.contraction_name] = contr_str\n            assert len(outer) == 1\n            contr_str = format_contraction(outer[0], contraction_cache,\n                                           backend=backend)\n",
                 "            contr_str = _nested_contraction_string(inner, outer, backend)\n"),
                ("def format_contraction(contraction: Contraction,\n",
                 "def _nested_contraction_string(inner, outer, backend):\n    cache = {}\n    for contr in inner:\n        cache[contr.contraction_name] = format_contraction(\n            contr, cache, backend=backend\n        )\n    assert len(outer) == 1\n    (last,) = outer\n    return format_contraction(last, cache, backend)\n\n\ndef format_contraction(contraction: Contraction,\n")]),
    # inner/outer split by the set of all operand names (a result can only be used later)
    dict(id="c17-p-used-names-set", prop="C17", file=G, expect=None,
         old="            for i, contr in enumerate(contractions):\n                if any(contr.contraction_name in other_contr.names\n                       for other_contr in contractions[i+1:]):\n                    inner.append(contr)\n                else:\n                    outer.append(contr)",
         new="            for i, contr in enumerate(contractions):\n                later_names = {name for other_contr in contractions[i+1:]\n                               for name in other_contr.names}\n                (inner if contr.contraction_name in later_names\n                 else outer).append(contr)"),
    # unconditional separator removal via split/join, keyword -> positional arguments
    dict(id="c17-p-split-join-positional", prop="C17", file=G, expect=None,
         edits=[('    if "," in target_indices:\n        target_indices = target_indices.replace(",", "")\n    if target_spin is not None and "," in target_spin:\n        target_spin = target_spin.replace(",", "")',
                 '    target_indices = "".join(target_indices.split(","))\n    if target_spin is not None:\n        target_spin = "".join(target_spin.split(","))'),
                ("                contractions = unoptimized_contraction(\n                    term=term, target_indices=target_indices,\n                    target_spin=target_spin\n                )",
                 "                contractions = unoptimized_contraction(\n                    term, target_indices, target_spin\n                )")]),
    # the output assembled incrementally (+=) instead of list + join
    dict(id="c17-p-incremental-output", prop="C17", file=G, expect=None,
         edits=[("        contraction_code = '\\n'.join(contraction_code)\n        code.append(\n            \"The scaling comment is given as: [comp_scaling] / [mem_scaling]\\n\"\n            f\"Apply {perm_str} to:\\n{contraction_code}\"\n        )\n    return \"\\n\\n\".join(code)",
                 "        block = (\"The scaling comment is given as: \"\n                 \"[comp_scaling] / [mem_scaling]\\n\")\n        block += \"Apply \" + perm_str + \" to:\"\n        for line in contraction_code:\n            block += \"\\n\" + line\n        code.append(block)\n    result = \"\"\n    for n_block, block in enumerate(code):\n        if n_block:\n            result += \"\\n\\n\"\n        result += block\n    return result")]),
    # libtensor branches: nested ifs with swapped nesting and an explicit boolean
    dict(id="c17-p-libtensor-nesting", prop="C17", file=G, expect=None,
         old="        if contracted and target:  # contract\n            components.append(\n                f\"contract({'|'.join(s.name for s in contracted)}, \"\n                f\"{', '.join(tensors)})\"\n            )\n        elif not contracted and target:  # outer product\n            components.extend(tensors)\n        elif contracted and not target:  # inner product\n            components.append(f\"dot_product({', '.join(tensors)})\")\n        else:\n            raise NotImplementedError(",
         new="        has_target = len(target) > 0\n        if has_target:\n            if len(contracted) == 0:  # outer product\n                components += tensors\n            else:  # contract\n                summed = '|'.join([s.name for s in contracted])\n                components.append(\n                    \"contract(\" + summed + \", \" + ', '.join(tensors) + \")\"\n                )\n        elif contracted:  # inner product\n            components.append(f\"dot_product({', '.join(tensors)})\")\n        else:\n            raise NotImplementedError("),
    # translation through a lookup table
    dict(id="c17-p-translation-table", prop="C17", file=G, expect=None,
         old='    if name == f"{tensor_names.eri}_{space}":\n        return f"hf.{space}"\n    elif name == f"{tensor_names.fock}_{space}":\n        return f"hf.f{space}"\n    return name',
         new='    table = {f"{tensor_names.eri}_{space}": f"hf.{space}",\n             f"{tensor_names.fock}_{space}": f"hf.f{space}"}\n    return table.get(name, name)'),
    # tensors / factors split by two comprehensions over a list of pairs built first
    dict(id="c17-p-pairs-then-split", prop="C17", file=G, expect=None,
         old="        if indices:  # we have a tensor\n            tensors.append(name)\n            # build a string for the indices\n            idx_str.append(\"\".join(idx.name for idx in indices))\n        else:  # we have a factor without indices\n            factors.append(name)\n",
         new="        if not indices:  # we have a factor without indices\n            factors.append(name)\n            continue\n        tensors += [name]\n        letters = [idx.name for idx in indices]\n        idx_str.append(\"\".join(letters))\n"),
    # scaling comment: explicit loops instead of max() over generators, comment token table
    dict(id="c17-p-comment-token-table", prop="C17", file=G, expect=None,
         old='    if backend == "einsum":\n        comment_token = "#"\n    elif backend == "libtensor":\n        comment_token = "//"\n    else:\n        raise NotImplementedError("Comment token not implemented for backend "\n                                  f"{backend}.")\n    return f"{comment_token} {\'\'.join(comp)} / {\'\'.join(mem)}"',
         new='    tokens = {"einsum": "#", "libtensor": "//"}\n    comment_token = tokens.get(backend)\n    if comment_token is None:\n        raise NotImplementedError("Comment token not implemented for backend "\n                                  f"{backend}.")\n    return comment_token + " " + "".join(comp) + " / " + "".join(mem)'),
    # unoptimized_contraction: the dead `contracted` set removed, positional constructor arguments, a temporary
    # (the exponent loop itself is left alone: R16b, owned by C16, inspects it)
    dict(id="c17-p-unopt-dead-code", prop="C17", file=O, expect=None,
         edits=[("        relevant_obj_indices.extend(indices for _ in range(exp))\n        contracted.update(idx for idx in indices if idx not in target_indices)\n    assert len(relevant_obj_indices) == len(relevant_obj_names)\n    return [Contraction(indices=relevant_obj_indices, names=relevant_obj_names,\n                        term_target_indices=target_indices,\n                        external_indices=tuple())]",
                 "        relevant_obj_indices.extend(indices for _ in range(exp))\n    assert len(relevant_obj_indices) == len(relevant_obj_names)\n    hyper = Contraction(relevant_obj_indices, relevant_obj_names,\n                        target_indices, ())\n    return [hyper]"),
                ("    relevant_obj_indices: list[tuple[Index]] = []\n    contracted = set()\n", "    relevant_obj_indices: list[tuple[Index]] = []\n")]),
    # f-string of the number itself, explicit !s conversions
    dict(id="c17-p-fstring-conversions", prop="C17", file=G, expect=None,
         edits=[('    if prefactor == int(prefactor):  # natural number\n        return str(prefactor)', '    if prefactor == int(prefactor):  # natural number\n        return f"{prefactor}"'),
                ('        return f"{prefactor.p} / {prefactor.q}"', '        return f"{prefactor.p!s} / {prefactor.q!s}"')]),
    # the square-root test against sympy's S.Half, Rational(1, 2) literals replaced as well
    dict(id="c17-p-s-half", prop="C17", file=G, expect=None,
         edits=[("from sympy import Symbol, Rational, Pow, Mul, sympify\n", "from sympy import Symbol, Rational, Pow, Mul, sympify, S\n"),
                ("    elif isinstance(prefactor, Pow) and \\\n            prefactor.args[1] == Rational(1, 2):  # sqrt\n        return f\"sqrt({prefactor.args[0]})\"",
                 "    elif isinstance(prefactor, Pow) and prefactor.args[1] == S.Half:  # sqrt\n        base, _ = prefactor.args\n        return f\"sqrt({base})\""),
                ("    elif prefactor in [Rational(1, 2), Rational(1, 4)]:  # simple Rational\n        return str(float(prefactor))",
                 "    elif prefactor in (S.Half, S.Half / 2):  # simple Rational\n        return str(float(prefactor))")]),
    # dict iteration by key and subscript, the symmetry string computed lazily after the terms
    dict(id="c17-p-dict-by-key", prop="C17", file=G, expect=None,
         edits=[("    for perm_symmetry, sub_expr in expr_with_perm_sym.items():\n        perm_str = format_perm_symmetry(perm_symmetry)\n",
                 "    for perm_symmetry in expr_with_perm_sym:\n        sub_expr = expr_with_perm_sym[perm_symmetry]\n"),
                ("            f\"Apply {perm_str} to:\\n{contraction_code}\"", "            f\"Apply {format_perm_symmetry(perm_symmetry)} to:\\n{contraction_code}\"")]),
    # contraction names: join instead of an f-string, prefix test by slicing
    dict(id="c17-p-contraction-name", prop="C17", file="generate_code/contraction.py", expect=None,
         edits=[('        self.contraction_name = f"{self._base_name}_{self.id}"', '        self.contraction_name = "_".join((self._base_name, str(self.id)))'),
                ("        return name.startswith(Contraction._base_name)", "        prefix = Contraction._base_name\n        return name[:len(prefix)] == prefix")]),
    # scaling comment: sorted()[-1] instead of max(), no walrus, explicit loops
    dict(id="c17-p-scaling-comment-loops", prop="C17", file=G, expect=None,
         edits=[("    max_comp_scaling = max(contr.scaling.computational\n                           for contr in contractions)\n",
                 "    max_comp_scaling = sorted(\n        [contr.scaling.computational for contr in contractions]\n    )[-1]\n"),
                ("        if (n := getattr(max_comp_scaling, space)):\n            comp.append(f\"{space[0].capitalize()}^{n}\")",
                 "        n = getattr(max_comp_scaling, space)\n        if n != 0:\n            comp.append(space[0].upper() + \"^\" + str(n))")]),
]
WITNESSES += PRESERVING

# ---- round 5: reverts of the repaired defects F35-F37, F41 and behaviour-preserving twins of the repairs
S_ = "sort_expr.py"
ROUND5 = [
    dict(id="c17-f36-revert", prop="C17", file=G, expect="R17d",
         old="    for obj in term.objects:\n        if isinstance(obj.base, Symbol) and \\\n                not (sympify(obj.exponent).is_Integer and obj.exponent > 0):\n            raise NotImplementedError(f\"Found symbol {obj} with exponent \"\n                                      f\"{obj.exponent} in {term}. Only \"\n                                      \"positive integer exponents are \"\n                                      \"implemented for symbolic prefactors.\")\n",
         new=""),
    dict(id="c17-f36-twin", prop="C17", file=G, expect=None,
         old="    for obj in term.objects:\n        if isinstance(obj.base, Symbol) and \\\n                not (sympify(obj.exponent).is_Integer and obj.exponent > 0):\n            raise NotImplementedError(f\"Found symbol {obj} with exponent \"\n                                      f\"{obj.exponent} in {term}. Only \"\n                                      \"positive integer exponents are \"\n                                      \"implemented for symbolic prefactors.\")\n",
         new="    unsupported = [obj for obj in term.objects if isinstance(obj.base, Symbol)\n                   and (obj.exponent <= 0 or not sympify(obj.exponent).is_Integer)]\n    if len(unsupported) > 0:\n        raise NotImplementedError(\"Only positive integer exponents are \"\n                                  \"implemented for symbolic prefactors: \"\n                                  f\"{unsupported} in {term}.\")\n"),
    dict(id="c17-f37-revert", prop="C17", file=G, expect="R17d",
         edits=[("    elif isinstance(prefactor, Pow) and \\\n            prefactor.args[1] == Rational(1, 2):  # sqrt\n        return f\"sqrt(", "    elif isinstance(prefactor, Pow) and prefactor.args[1] == 0.5:  # sqrt\n        return f\"sqrt("),
                ("    elif isinstance(prefactor, Pow) and \\\n            prefactor.args[1] == Rational(1, 2):  # sqrt\n        return f\"constants::sq", "    elif isinstance(prefactor, Pow) and prefactor.args[1] == 0.5:\n        return f\"constants::sq")]),
    dict(id="c17-f37-revert-cpp-only", prop="C17", file=G, expect="R17d",
         old="    elif isinstance(prefactor, Pow) and \\\n            prefactor.args[1] == Rational(1, 2):  # sqrt\n        return f\"constants::sq", new="    elif isinstance(prefactor, Pow) and prefactor.args[1] == 0.5:\n        return f\"constants::sq"),
    dict(id="c17-f37-twin", prop="C17", file=G, expect=None,
         edits=[("    elif isinstance(prefactor, Pow) and \\\n            prefactor.args[1] == Rational(1, 2):  # sqrt\n        return f\"sqrt(", "    elif isinstance(prefactor, Pow) and 2 * prefactor.args[1] == 1:  # sqrt\n        return f\"sqrt("),
                ("    elif isinstance(prefactor, Pow) and \\\n            prefactor.args[1] == Rational(1, 2):  # sqrt\n        return f\"constants::sq", "    elif isinstance(prefactor, Pow) and prefactor.args[1] in (Rational(2, 4),):\n        return f\"constants::sq")]),
    dict(id="c17-f41-revert-unoptimized", prop="C17", file=O, expect=["R17f", "R17e"],
         old="    return [Contraction(indices=relevant_obj_indices, names=relevant_obj_names,\n                        term_target_indices=target_indices,\n                        external_indices=tuple())]",
         new="    return [Contraction(indices=relevant_obj_indices, names=relevant_obj_names,\n                        term_target_indices=target_indices)]"),
    dict(id="c17-f41-twin-unoptimized", prop="C17", file=O, expect=None,
         old="    return [Contraction(indices=relevant_obj_indices, names=relevant_obj_names,\n                        term_target_indices=target_indices,\n                        external_indices=tuple())]",
         new="    no_other_objects = frozenset()\n    return [Contraction(relevant_obj_indices, relevant_obj_names,\n                        target_indices, no_other_objects)]"),
    dict(id="c17-f35-revert", prop="C17", file=S_, expect="R17h",
         old="                    if other_term_i in kept_terms or \\\n                            other_term_i in removed_terms:",
         new="                    if term_i == other_term_i or other_term_i in removed_terms:"),
    dict(id="c17-f35-twin", prop="C17", file=S_, expect=None,
         edits=[("    kept_terms = set()\n", "    already_kept = []\n"),
                ("            kept_terms.add(term_i)\n", "            already_kept.append(term_i)\n"),
                ("                    if other_term_i in kept_terms or \\\n                            other_term_i in removed_terms:\n                        continue",
                 "                    is_free = other_term_i not in removed_terms and \\\n                        already_kept.count(other_term_i) == 0\n                    if not is_free:\n                        continue")]),
]
WITNESSES += ROUND5

# ---- held-out round 5: seed C17-10 (libtensor: every label that occurs twice is summed) and its preserving twin
# (same interface refactoring - index tuples handed to the helpers - with the summed labels = labels not on the result)
HELDOUT5 = [
    dict(id="c17-seed10-mirror", prop="C17", file=G, expect="R17a",
         edits=[('from ..indices import Index, Indices\n', 'from ..indices import Index, Indices, sort_idx_canonical\n'),
                ('from collections import Counter\n', 'from collections import Counter\nimport itertools\n'),
                ('def format_contraction(contraction: Contraction,\n                       contraction_cache: dict[int, str],\n                       backend: str) -> str:\n    """\n    Builds a backend specific string for the given contraction.\n    """\n    # split the objects in tensors and factors\n    # and transform the indices of the tensors to string\n    tensors: list[str] = []\n    factors: list[str] = []\n    idx_str: list[str] = []\n    for name, indices in zip(contraction.names, contraction.indices):\n        # check the cache for the contraction string of the inner contraction\n        if Contraction.is_contraction(name):\n            name = contraction_cache.get(name, None)\n            if name is None:\n                raise KeyError("Could not find contraction string for inner "\n                               f"contraction {contraction}.")\n        # we have a tensor that we need to treat depening on the backend\n        elif backend == "einsum":  # translate eri and fock matrix\n            name = translate_adcc_names(name, indices)\n        elif backend == "libtensor":\n            # we can not form a partial trace in libtensor\n            contracted_obj_indices = [\n                idx for idx in indices if idx in contraction.contracted\n            ]\n            if any(n > 1 for _, n in Counter(contracted_obj_indices).items()):\n                raise NotImplementedError(\n                    "Libtensor can not handle a partial trace, i.e., a trace "\n                    f"with a tensor as result. Found {indices} on tensor "\n                    f"{name} of contraction\\n{contraction}"\n                )\n            # translate eri and t2eri\n            name = translate_libadc_names(name, indices)\n            name = f"{name}({\'|\'.join(idx.name for idx in indices)})"\n\n        if indices:  # we have a tensor\n            tensors.append(name)\n            # build a string for the indices\n            idx_str.append("".join(idx.name for idx in indices))\n        else:  # we have a factor without indices\n            factors.append(name)\n    # also transform the target indices to string\n    target = "".join(idx.name for idx in contraction.target)\n\n    if backend == "einsum":\n        return format_einsum_contraction(tensors=tensors, factors=factors,\n                                         indices=idx_str, target=target)\n    elif backend == "libtensor":\n        return format_libtensor_contraction(tensors=tensors, factors=factors,\n                                            target=target,\n                                            contracted=contraction.contracted)\n    else:\n        raise NotImplementedError("Contraction not implemented for backend "\n                                  f"{backend}.")\n\n\ndef format_einsum_contraction(tensors: list[str], factors: list[str],\n                              indices: list[str], target: str) -> str:\n    """\n    Builds a contraction string for the given contraction using Python\n    numpy einsum syntax.\n    """\n\n    components = [*factors]\n    # special case: single tensor with the correct target indices\n    # -> no einsum needed\n    if len(tensors) == 1 and indices[0] == target:\n        components.append(tensors[0])\n    elif tensors:  # we need a einsum: reorder or contraction or outer\n        contr_str = f"\\"{\',\'.join(indices)}->{target}\\""\n        components.append(\n            f"einsum({contr_str}, {\', \'.join(tensors)})"\n        )\n    return " * ".join(components)\n\n\ndef format_libtensor_contraction(tensors: list[str], factors: list[str],\n                                 target: str, contracted: tuple[Index]) -> str:\n    """\n    Builds a contraction string for the given contraction using libtensor\n    C++ syntax.\n    """\n\n    components = [*factors]\n    if len(tensors) == 1:  # single tensor\n        assert not contracted  # trace\n        components.append(tensors[0])\n    elif len(tensors) > 1:  # multipe tensors\n        # hyper-contraction only implemented for 3 tensors i think\n        if contracted and target:  # contract\n            components.append(\n                f"contract({\'|\'.join(s.name for s in contracted)}, "\n                f"{\', \'.join(tensors)})"\n            )\n        elif not contracted and target:  # outer product\n            components.extend(tensors)\n        elif contracted and not target:  # inner product\n            components.append(f"dot_product({\', \'.join(tensors)})")\n        else:\n            raise NotImplementedError("No target and contracted indices in "\n                                      f"contraction of {tensors} and "\n                                      f"{factors}.")\n    return " * ".join(components)\n\n\n',
                 'def format_contraction(contraction: Contraction,\n                       contraction_cache: dict[int, str],\n                       backend: str) -> str:\n    """\n    Builds a backend specific string for the given contraction.\n    """\n    # split the objects in tensors and factors\n    # and transform the indices of the tensors to string\n    tensors: list[str] = []\n    factors: list[str] = []\n    tensor_indices: list[tuple[Index]] = []\n    for name, indices in zip(contraction.names, contraction.indices):\n        # check the cache for the contraction string of the inner contraction\n        if Contraction.is_contraction(name):\n            name = contraction_cache.get(name, None)\n            if name is None:\n                raise KeyError("Could not find contraction string for inner "\n                               f"contraction {contraction}.")\n        # we have a tensor that we need to treat depening on the backend\n        elif backend == "einsum":  # translate eri and fock matrix\n            name = translate_adcc_names(name, indices)\n        elif backend == "libtensor":\n            # we can not form a partial trace in libtensor\n            contracted_obj_indices = [\n                idx for idx in indices if idx in contraction.contracted\n            ]\n            if any(n > 1 for _, n in Counter(contracted_obj_indices).items()):\n                raise NotImplementedError(\n                    "Libtensor can not handle a partial trace, i.e., a trace "\n                    f"with a tensor as result. Found {indices} on tensor "\n                    f"{name} of contraction\\n{contraction}"\n                )\n            # translate eri and t2eri\n            name = translate_libadc_names(name, indices)\n            name = f"{name}({\'|\'.join(idx.name for idx in indices)})"\n\n        if indices:  # we have a tensor\n            tensors.append(name)\n            tensor_indices.append(indices)\n        else:  # we have a factor without indices\n            factors.append(name)\n\n    if backend == "einsum":\n        return format_einsum_contraction(tensors=tensors, factors=factors,\n                                         indices=tensor_indices,\n                                         target=contraction.target)\n    elif backend == "libtensor":\n        return format_libtensor_contraction(tensors=tensors, factors=factors,\n                                            indices=tensor_indices,\n                                            target=contraction.target)\n    else:\n        raise NotImplementedError("Contraction not implemented for backend "\n                                  f"{backend}.")\n\n\ndef format_einsum_contraction(tensors: list[str], factors: list[str],\n                              indices: list[tuple[Index]],\n                              target: tuple[Index]) -> str:\n    """\n    Builds a contraction string for the given contraction using Python\n    numpy einsum syntax.\n    """\n    # transform the indices of the tensors and the target indices to string\n    indices = ["".join(idx.name for idx in idx_tpl) for idx_tpl in indices]\n    target = "".join(idx.name for idx in target)\n\n    components = [*factors]\n    # special case: single tensor with the correct target indices\n    # -> no einsum needed\n    if len(tensors) == 1 and indices[0] == target:\n        components.append(tensors[0])\n    elif tensors:  # we need a einsum: reorder or contraction or outer\n        contr_str = f"\\"{\',\'.join(indices)}->{target}\\""\n        components.append(\n            f"einsum({contr_str}, {\', \'.join(tensors)})"\n        )\n    return " * ".join(components)\n\n\ndef format_libtensor_contraction(tensors: list[str], factors: list[str],\n                                 indices: list[tuple[Index]],\n                                 target: tuple[Index]) -> str:\n    """\n    Builds a contraction string for the given contraction using libtensor\n    C++ syntax.\n    """\n    # the labels the tensors have in common are summed by \'contract\'\n    idx_counter = Counter(itertools.chain.from_iterable(indices))\n    contracted = sorted(\n        (idx for idx, n in idx_counter.items() if n > 1),\n        key=sort_idx_canonical\n    )\n\n    components = [*factors]\n    if len(tensors) == 1:  # single tensor\n        assert not contracted  # trace\n        components.append(tensors[0])\n    elif len(tensors) > 1:  # multipe tensors\n        # hyper-contraction only implemented for 3 tensors i think\n        if contracted and target:  # contract\n            components.append(\n                f"contract({\'|\'.join(s.name for s in contracted)}, "\n                f"{\', \'.join(tensors)})"\n            )\n        elif not contracted and target:  # outer product\n            components.extend(tensors)\n        elif contracted and not target:  # inner product\n            components.append(f"dot_product({\', \'.join(tensors)})")\n        else:\n            raise NotImplementedError("No target and contracted indices in "\n                                      f"contraction of {tensors} and "\n                                      f"{factors}.")\n    return " * ".join(components)\n\n\n')]),
    dict(id="c17-seed10-twin", prop="C17", file=G, expect=None,
         edits=[('from ..indices import Index, Indices\n', 'from ..indices import Index, Indices, sort_idx_canonical\n'),
                ('from collections import Counter\n', 'from collections import Counter\nimport itertools\n'),
                ('def format_contraction(contraction: Contraction,\n                       contraction_cache: dict[int, str],\n                       backend: str) -> str:\n    """\n    Builds a backend specific string for the given contraction.\n    """\n    # split the objects in tensors and factors\n    # and transform the indices of the tensors to string\n    tensors: list[str] = []\n    factors: list[str] = []\n    idx_str: list[str] = []\n    for name, indices in zip(contraction.names, contraction.indices):\n        # check the cache for the contraction string of the inner contraction\n        if Contraction.is_contraction(name):\n            name = contraction_cache.get(name, None)\n            if name is None:\n                raise KeyError("Could not find contraction string for inner "\n                               f"contraction {contraction}.")\n        # we have a tensor that we need to treat depening on the backend\n        elif backend == "einsum":  # translate eri and fock matrix\n            name = translate_adcc_names(name, indices)\n        elif backend == "libtensor":\n            # we can not form a partial trace in libtensor\n            contracted_obj_indices = [\n                idx for idx in indices if idx in contraction.contracted\n            ]\n            if any(n > 1 for _, n in Counter(contracted_obj_indices).items()):\n                raise NotImplementedError(\n                    "Libtensor can not handle a partial trace, i.e., a trace "\n                    f"with a tensor as result. Found {indices} on tensor "\n                    f"{name} of contraction\\n{contraction}"\n                )\n            # translate eri and t2eri\n            name = translate_libadc_names(name, indices)\n            name = f"{name}({\'|\'.join(idx.name for idx in indices)})"\n\n        if indices:  # we have a tensor\n            tensors.append(name)\n            # build a string for the indices\n            idx_str.append("".join(idx.name for idx in indices))\n        else:  # we have a factor without indices\n            factors.append(name)\n    # also transform the target indices to string\n    target = "".join(idx.name for idx in contraction.target)\n\n    if backend == "einsum":\n        return format_einsum_contraction(tensors=tensors, factors=factors,\n                                         indices=idx_str, target=target)\n    elif backend == "libtensor":\n        return format_libtensor_contraction(tensors=tensors, factors=factors,\n                                            target=target,\n                                            contracted=contraction.contracted)\n    else:\n        raise NotImplementedError("Contraction not implemented for backend "\n                                  f"{backend}.")\n\n\ndef format_einsum_contraction(tensors: list[str], factors: list[str],\n                              indices: list[str], target: str) -> str:\n    """\n    Builds a contraction string for the given contraction using Python\n    numpy einsum syntax.\n    """\n\n    components = [*factors]\n    # special case: single tensor with the correct target indices\n    # -> no einsum needed\n    if len(tensors) == 1 and indices[0] == target:\n        components.append(tensors[0])\n    elif tensors:  # we need a einsum: reorder or contraction or outer\n        contr_str = f"\\"{\',\'.join(indices)}->{target}\\""\n        components.append(\n            f"einsum({contr_str}, {\', \'.join(tensors)})"\n        )\n    return " * ".join(components)\n\n\ndef format_libtensor_contraction(tensors: list[str], factors: list[str],\n                                 target: str, contracted: tuple[Index]) -> str:\n    """\n    Builds a contraction string for the given contraction using libtensor\n    C++ syntax.\n    """\n\n    components = [*factors]\n    if len(tensors) == 1:  # single tensor\n        assert not contracted  # trace\n        components.append(tensors[0])\n    elif len(tensors) > 1:  # multipe tensors\n        # hyper-contraction only implemented for 3 tensors i think\n        if contracted and target:  # contract\n            components.append(\n                f"contract({\'|\'.join(s.name for s in contracted)}, "\n                f"{\', \'.join(tensors)})"\n            )\n        elif not contracted and target:  # outer product\n            components.extend(tensors)\n        elif contracted and not target:  # inner product\n            components.append(f"dot_product({\', \'.join(tensors)})")\n        else:\n            raise NotImplementedError("No target and contracted indices in "\n                                      f"contraction of {tensors} and "\n                                      f"{factors}.")\n    return " * ".join(components)\n\n\n',
                 'def format_contraction(contraction: Contraction,\n                       contraction_cache: dict[int, str],\n                       backend: str) -> str:\n    """\n    Builds a backend specific string for the given contraction.\n    """\n    # split the objects in tensors and factors\n    # and transform the indices of the tensors to string\n    tensors: list[str] = []\n    factors: list[str] = []\n    tensor_indices: list[tuple[Index]] = []\n    for name, indices in zip(contraction.names, contraction.indices):\n        # check the cache for the contraction string of the inner contraction\n        if Contraction.is_contraction(name):\n            name = contraction_cache.get(name, None)\n            if name is None:\n                raise KeyError("Could not find contraction string for inner "\n                               f"contraction {contraction}.")\n        # we have a tensor that we need to treat depening on the backend\n        elif backend == "einsum":  # translate eri and fock matrix\n            name = translate_adcc_names(name, indices)\n        elif backend == "libtensor":\n            # we can not form a partial trace in libtensor\n            contracted_obj_indices = [\n                idx for idx in indices if idx in contraction.contracted\n            ]\n            if any(n > 1 for _, n in Counter(contracted_obj_indices).items()):\n                raise NotImplementedError(\n                    "Libtensor can not handle a partial trace, i.e., a trace "\n                    f"with a tensor as result. Found {indices} on tensor "\n                    f"{name} of contraction\\n{contraction}"\n                )\n            # translate eri and t2eri\n            name = translate_libadc_names(name, indices)\n            name = f"{name}({\'|\'.join(idx.name for idx in indices)})"\n\n        if indices:  # we have a tensor\n            tensors.append(name)\n            tensor_indices.append(indices)\n        else:  # we have a factor without indices\n            factors.append(name)\n\n    if backend == "einsum":\n        return format_einsum_contraction(tensors=tensors, factors=factors,\n                                         indices=tensor_indices,\n                                         target=contraction.target)\n    elif backend == "libtensor":\n        return format_libtensor_contraction(tensors=tensors, factors=factors,\n                                            indices=tensor_indices,\n                                            target=contraction.target)\n    else:\n        raise NotImplementedError("Contraction not implemented for backend "\n                                  f"{backend}.")\n\n\ndef format_einsum_contraction(tensors: list[str], factors: list[str],\n                              indices: list[tuple[Index]],\n                              target: tuple[Index]) -> str:\n    """\n    Builds a contraction string for the given contraction using Python\n    numpy einsum syntax.\n    """\n    # transform the indices of the tensors and the target indices to string\n    indices = ["".join(idx.name for idx in idx_tpl) for idx_tpl in indices]\n    target = "".join(idx.name for idx in target)\n\n    components = [*factors]\n    # special case: single tensor with the correct target indices\n    # -> no einsum needed\n    if len(tensors) == 1 and indices[0] == target:\n        components.append(tensors[0])\n    elif tensors:  # we need a einsum: reorder or contraction or outer\n        contr_str = f"\\"{\',\'.join(indices)}->{target}\\""\n        components.append(\n            f"einsum({contr_str}, {\', \'.join(tensors)})"\n        )\n    return " * ".join(components)\n\n\ndef format_libtensor_contraction(tensors: list[str], factors: list[str],\n                                 indices: list[tuple[Index]],\n                                 target: tuple[Index]) -> str:\n    """\n    Builds a contraction string for the given contraction using libtensor\n    C++ syntax.\n    """\n    # every label that is not a label of the result is summed by \'contract\'\n    contracted = sorted(\n        {idx for idx in itertools.chain.from_iterable(indices)\n         if idx not in target},\n        key=sort_idx_canonical\n    )\n\n    components = [*factors]\n    if len(tensors) == 1:  # single tensor\n        assert not contracted  # trace\n        components.append(tensors[0])\n    elif len(tensors) > 1:  # multipe tensors\n        # hyper-contraction only implemented for 3 tensors i think\n        if contracted and target:  # contract\n            components.append(\n                f"contract({\'|\'.join(s.name for s in contracted)}, "\n                f"{\', \'.join(tensors)})"\n            )\n        elif not contracted and target:  # outer product\n            components.extend(tensors)\n        elif contracted and not target:  # inner product\n            components.append(f"dot_product({\', \'.join(tensors)})")\n        else:\n            raise NotImplementedError("No target and contracted indices in "\n                                      f"contraction of {tensors} and "\n                                      f"{factors}.")\n    return " * ".join(components)\n\n\n')]),
]
WITNESSES += HELDOUT5

# ---- held-out round 6: seed C17-13 (Obj.longname: block number of the ADC amplitude vectors) - the name table R17i
E_ = "expr_container.py"
_CLASS_OLD = ("                n_o, n_v = space.count(\"o\"), space.count(\"v\")\n"
              "                if n_o == n_v:  # pp-ADC\n"
              "                    n = n_o  # p-h -> 1 // 2p-2h -> 2 etc.\n"
              "                else:  # ip-/ea-/dip-/dea-ADC\n"
              "                    n = min([n_o, n_v]) + 1  # h -> 1 / 2h -> 1 / p-2h -> 2...\n")
HELDOUT6 = [
    # the seeded simplification: agrees for PP/IP/EA, not for DIP/DEA
    dict(id="c17-seed13-mirror", prop="C17", file=E_, expect="R17i", old=_CLASS_OLD,
         new="                n = max(space.count(\"o\"), space.count(\"v\"))\n"),
    # other 'simplifications' of the block number
    dict(id="c17-class-pp-off-by-one", prop="C17", file=E_, expect="R17i", old=_CLASS_OLD,
         new="                n = min(space.count(\"o\"), space.count(\"v\")) + 1\n"),
    dict(id="c17-class-by-lower-indices", prop="C17", file=E_, expect="R17i", old=_CLASS_OLD,
         new="                n = max(len(base.lower), 1) if len(base.lower) != len(base.upper) + 2 else 1\n"),
    dict(id="c17-left-right-swapped", prop="C17", file=E_, expect="R17i",
         old="                lr = \"l\" if name == tensor_names.left_adc_amplitude else 'r'",
         new="                lr = \"l\" if name == tensor_names.right_adc_amplitude else 'r'"),
    dict(id="c17-left-default-literal", prop="C17", file=E_, expect="R17i",
         old="                lr = \"l\" if name == tensor_names.left_adc_amplitude else 'r'",
         new="                lr = \"l\" if name == \"X\" else 'r'"),
    dict(id="c17-t-amplitude-rank-by-indices", prop="C17", file=E_, expect="R17i",
         old="                if ext:\n                    name = f\"{base_name}{len(base.upper)}_{ext}\"",
         new="                if ext:\n                    name = f\"{base_name}{len(self.idx)}_{ext}\""),
    dict(id="c17-t-amplitude-order-dropped", prop="C17", file=E_, expect="R17i",
         old="                if ext:\n                    name = f\"{base_name}{len(base.upper)}_{ext}\"",
         new="                if ext:\n                    name = f\"{base_name}{len(base.upper)}\""),
    dict(id="c17-t-amplitude-unequal-accepted", prop="C17", file=E_, expect="R17i",
         old="                if len(base.upper) != len(base.lower):\n                    raise RuntimeError(\"Number of upper and lower indices not \"\n                                       f\"equal for t-amplitude {self}.\")\n",
         new=""),
    dict(id="c17-density-block-dropped", prop="C17", file=E_, expect="R17i",
         old="                    name = f\"{base_name}0_{ext}_{self.space}\"", new="                    name = f\"{base_name}0_{ext}\""),
    dict(id="c17-density-default-base", prop="C17", file=E_, expect="R17i",
         old="                    base_name = tensor_names.defaults().get(\"gs_density\")", new="                    base_name = tensor_names.gs_density"),
    dict(id="c17-t2eri-prefix-only", prop="C17", file=E_, expect="R17i",
         old="            elif name.startswith('t2eri'):  # t2eri", new="            elif 't2eri' in name:  # t2eri"),
    dict(id="c17-t2sq-prefix", prop="C17", file=E_, expect="R17i",
         old="            elif name == 't2sq':", new="            elif name.startswith('t2sq'):"),
    dict(id="c17-block-sorted", prop="C17", file=E_, expect=["R17i", "R17g"],
         old="            else:  # arbitrary other tensor\n                name += f\"_{self.space}\"",
         new="            else:  # arbitrary other tensor\n                name += f\"_{''.join(sorted(self.space))}\""),
    # ---- behaviour-preserving twins
    dict(id="c17-seed13-twin-bool-sum", prop="C17", file=E_, expect=None, old=_CLASS_OLD,
         new="                n_o, n_v = space.count(\"o\"), space.count(\"v\")\n"
             "                n = min(n_o, n_v) + (n_o != n_v)\n"),
    dict(id="c17-seed13-twin-max-for-small-difference", prop="C17", file=E_, expect=None, old=_CLASS_OLD,
         new="                n_o = sum(1 for sp in space if sp == \"o\")\n"
             "                n_v = len(space) - n_o\n"
             "                if abs(n_o - n_v) <= 1:  # pp-/ip-/ea-ADC\n"
             "                    n = max(n_o, n_v)\n"
             "                else:  # dip-/dea-ADC\n"
             "                    n = sorted((n_o, n_v))[0] + 1\n"),
    dict(id="c17-p-longname-lr-table", prop="C17", file=E_, expect=None,
         old="                lr = \"l\" if name == tensor_names.left_adc_amplitude else 'r'\n                name = f\"u{lr}{n}\"",
         new="                sides = {tensor_names.right_adc_amplitude: \"r\",\n                         tensor_names.left_adc_amplitude: \"l\"}\n                name = \"u\" + sides[name] + str(n)"),
    dict(id="c17-p-longname-t-amplitude-suffix", prop="C17", file=E_, expect=None,
         old="                if ext:\n                    name = f\"{base_name}{len(base.upper)}_{ext}\"\n                else:  # name for t-amplitudes without a order\n                    name = f\"{base_name}{len(base.upper)}\"",
         new="                rank = len(base.lower)  # == len(base.upper)\n                name = base_name + str(rank) + (\"_\" + ext if ext else \"\")"),
    dict(id="c17-p-longname-density-parts", prop="C17", file=E_, expect=None,
         old="                if ext:\n                    name = f\"{base_name}0_{ext}_{self.space}\"\n                else:  # name for gs-dentity without a order\n                    name = f\"{base_name}0_{self.space}\"",
         new="                parts = [f\"{base_name}0\", ext, self.space]\n                name = \"_\".join(part for part in parts[:2] if part)\n                name = name + \"_\" + parts[2]"),
    dict(id="c17-p-longname-early-returns", prop="C17", file=E_, expect=None,
         edits=[("            elif name.startswith('t2eri'):  # t2eri\n                name = f\"t2eri_{name[5:]}\"\n            elif name == 't2sq':\n                pass\n            else:  # arbitrary other tensor\n                name += f\"_{self.space}\"\n        elif isinstance(base, KroneckerDelta):  # deltas -> d_oo / d_vv\n            name = f\"d_{self.space}\"\n        return name",
                 "            elif name[:5] == 't2eri':  # t2eri\n                return \"t2eri_\" + name[len('t2eri'):]\n            elif name != 't2sq':  # arbitrary other tensor\n                return \"_\".join((name, self.space))\n            return name\n        if isinstance(base, KroneckerDelta):  # deltas -> d_oo / d_vv\n            return \"d_%s\" % self.space\n        return None")]),
]
WITNESSES += HELDOUT6

# ---- F55 (tensors without indices are operands, not part of the prefactor) and F54 (einsum subscripts)
_F55_NEW = ("            if not term.idx and not any(isinstance(o.base, SymbolicTensor)\n"
            "                                        for o in term.objects):\n")
ROUND6_DEFECTS = [
    dict(id="c17-F55-revert", prop="C17", file=G, expect="R17e", old=_F55_NEW,
         new="            if not term.idx:  # term is just a prefactor\n"),
    dict(id="c17-F55-twin", prop="C17", file=G, expect=None, old=_F55_NEW,
         new="            scalar_tensors = [o for o in term.objects\n"
             "                              if isinstance(o.base, SymbolicTensor)]\n"
             "            if len(term.idx) == 0 and len(scalar_tensors) == 0:\n"),
]
WITNESSES += ROUND6_DEFECTS
_F54_NEW = ("        letters = einsum_subscripts(contraction)\n"
            "        idx_str = [\"\".join(letters[idx.name] for idx in indices)\n"
            "                   for indices in contraction.indices if indices]\n"
            "        target = \"\".join(letters[idx.name] for idx in contraction.target)\n")
ROUND6_F54 = [
    # the subscripts are the concatenated full names again
    dict(id="c17-F54-revert", prop="C17", file=G, expect="R17a", old=_F54_NEW, new=""),
    # every numbered name gets the letter of its name: not injective (i1, i2 -> i)
    dict(id="c17-F54-first-letter", prop="C17", file=G, expect="R17a",
         old="        letter = next((c for c in candidates if c not in used), None)", new="        letter = name[0]"),
    # the letters of the single-letter names are not reserved
    dict(id="c17-F54-used-not-reserved", prop="C17", file=G, expect="R17a",
         old="    used = set(letters.values())\n    for name, space in names.items():", new="    used = set()\n    for name, space in names.items():"),
    # the target indices get their own map
    dict(id="c17-F54-target-unmapped", prop="C17", file=G, expect="R17a",
         old="        target = \"\".join(letters[idx.name] for idx in contraction.target)\n", new=""),
    # twin: the letter pool as one string, explicit loop instead of next(); sorted first-come assignment is kept
    dict(id="c17-F54-twin", prop="C17", file=G, expect=None,
         edits=[("        candidates = itertools.chain(name[0], Indices.base[space],\n                                     ascii_letters)\n        letter = next((c for c in candidates if c not in used), None)\n",
                 "        pool = name[:1] + \"\".join(Indices.base[space]) + ascii_letters\n        letter = None\n        for candidate in pool:\n            if candidate not in used:\n                letter = candidate\n                break\n"),
                ("        letters = einsum_subscripts(contraction)\n        idx_str = [\"\".join(letters[idx.name] for idx in indices)\n                   for indices in contraction.indices if indices]\n",
                 "        letters = einsum_subscripts(contraction)\n        idx_str = []\n        for indices in contraction.indices:\n            if len(indices) > 0:\n                idx_str.append(\"\".join([letters[idx.name] for idx in indices]))\n")]),
    # twin: a different but injective choice of letters (from the end of the alphabet)
    dict(id="c17-F54-twin-other-letters", prop="C17", file=G, expect=None,
         old="        candidates = itertools.chain(name[0], Indices.base[space],\n                                     ascii_letters)",
         new="        candidates = reversed(ascii_letters)"),
]
WITNESSES += ROUND6_F54
