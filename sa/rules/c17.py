"""C17 generated contraction code: the emitted program is evaluated against the expression."""
from __future__ import annotations

import math
from fractions import Fraction

from ..model import AnalysisError
from ..symex import Symex, Rec
from ..terms import T, show
from . import c16
from . import emitted as em

EXPLANATION = (
    "Every function of generate_code.py is evaluated by the abstract evaluator (sa.symex) on concrete abstract records "
    "(indices, contractions, terms, objects, sympy numbers as a small exact domain c*sqrt(n), permutation operators; the "
    "configured tensor names are set to non-default values) and the *emitted text* is executed by an independent "
    "interpreter (sa/rules/emitted.py: brute-force einsum, contract, dot_product, labelled products, C++ integer "
    "division, permutation operators, comments) on deterministic pseudo-random tensor values; the value is compared "
    "with the value of the expression computed from the term structure for every assignment of the target indices in "
    "the requested order. No check looks at source text, local names or statement layout. "
    "R17a: format_contraction / format_einsum_contraction / format_libtensor_contraction on a table of contractions "
    "(reorder, diagonal, trace, pair, hyper-contraction, outer product, inner product, scalar factor, general-space "
    "indices, look-alike names, nested inner contraction from the cache) evaluate to sum_contracted prod operands in "
    "target order (einsum) / by labels (libtensor), incl. target indices that sit on two or three operands of one "
    "contraction (elementwise products), and numbered index names (i3, a12, k4 next to k; F54): the einsum subscripts "
    "are single letters, one per index of the contraction (the emitted text is executed, 52 distinct indices are served "
    "with distinct letters, 53 refused with NotImplementedError), libtensor labels are the names; a missing inner "
    "contraction raises, libtensor partial traces are refused with NotImplementedError. R17b: format_contraction, format_scaling_comment, "
    "format_prefactor refuse an unknown backend with NotImplementedError and _format_python_prefactor/"
    "_format_cpp_prefactor refuse numbers outside integer/rational/sqrt/products; the scaling comment is a one-line "
    "comment of the backend. R17c: decision table of translate_adcc_names / translate_libadc_names over configured and "
    "look-alike tensor names (equality with <configured name>_<block>, never a prefix, never the default literal). "
    "R17d: format_prefactor on a table of integers, rationals, square roots, products, signs, symbols with exponents "
    "for both backends evaluates to the term's prefactor (C++ integer division is honoured); format_perm_symmetry on a "
    "table of symmetries denotes 1 + sum factor*prod P (factors other than +-1 refused). "
    "R17e: generate_code evaluated end to end with exploit_perm_sym, optimize_contractions and "
    "term_memory_requirements as recorded black boxes and the library's own unoptimized_contraction evaluated through "
    "(on an independent model of the Contraction constructor and the index factory): the symmetry analysis gets the "
    "unmodified targets/spin/bra-ket symmetry/tensor class, the scheme builders get the separator-free targets, spin "
    "and limits, the builder is selected by the flag, non-Expr input is refused, schemes with more than one outer "
    "contraction are refused, and the whole program (all symmetry classes, all terms, pure-number terms, inner "
    "contractions before the outer one) evaluates to sum_classes O_class(sum_terms prefactor * symbols * contraction) "
    "for both backends and both builders, on hand-built scenarios (incl. tensors without indices alone, next to numbers "
    "and symbols, squared, next to a contraction: a scalar tensor is an operand of the program, F55) and on "
    "pseudo-random terms with closed schemes (20 quick / 120 thorough). R17f: unoptimized_contraction evaluated on terms with exponents, deltas, symbols, "
    "spin yields one hyper-contraction whose operand list is the term's tensors/deltas exponent-many times (names and "
    "indices aligned) with the requested target indices, and sums every index that is not a requested target index - "
    "also one that occurs only once (external_indices); divisions are refused. R17h: exploit_perm_sym on expressions "
    "that contain a contribution several times (duplicates up to contracted-index names): the returned classes "
    "re-expand to the expression, no term twice (term worlds and permutation oracle of C10). Reference behaviour "
    "after the repairs F35-F37, F41, F54, F55: exact numbers never equal floats (sympy >= 1.13; sqrt prefactors are emitted and "
    "executed end to end), symbols with exponents that are not positive integers are refused with "
    "NotImplementedError (table and end to end), targets given explicitly sum single-occurrence indices (hand-built "
    "and pseudo-random non-Einstein terms, rule-side model of Contraction(..., external_indices)). "
    "R17i: the operand names (Obj.longname, evaluated together with the library's tensor constructors, Obj.base/space "
    "and the tensor_names predicates, for default and renamed tensor names, use_default_names False/True) as a decision "
    "table against names stated independently: ADC amplitude vectors are u{l|r}{n} with n the number of the block in "
    "the vector of its ADC variant, by enumeration of the excitation classes of PP (ph, 2p2h, ..), IP (h, 2h1p, ..), EA "
    "(p, 2p1h, ..), DIP (2h, 3h1p, ..) and DEA (2p, 3p1h, ..) up to 6 (thorough 8) indices, left/right by the "
    "configured name, either index placement, squared, spin labelled, other tensor class; t-amplitudes "
    "<base><number of upper indices>[_<order/cc>] for ranks 1-3 (unequal upper/lower refused with RuntimeError); "
    "densities <base>0[_<order>]_<block> (unequal refused); t2eri_<n>, t2sq, every other tensor <name>_<block> in the "
    "tensor's index order, look-alike names of the special tensors are ordinary tensors, deltas d_<block>, symbols "
    "have no operand name. A sum over the axes "
    "of a single tensor has no libtensor expression and has to be refused. Also R16a/R16b/R16g (scheme shape and "
    "closure, owned by C16) and R10a-c (conservation law of exploit_perm_sym, owned by C10), which the emitted "
    "program depends on.")
ASSUMPTIONS = [
    "optimize_contractions, exploit_perm_sym and term_memory_requirements are black boxes here: "
    "generate_code is evaluated on valid schemes/symmetry classes built by the rule (C16 / C15 decide the builders); "
    "Obj.longname is decided separately as a name table (R17i, R17g) and enters the end-to-end scenarios as that table",
    "R17i: amplitude blocks whose numbers of occupied and virtual indices differ by more than two belong to none of "
    "the five ADC variants; their names are not decided. The tensor's index order (block string) is taken from the "
    "library's own constructors (canonical ordering is decided by the tensor properties, not here)",
    "bounded: the tables of contractions, prefactors, symmetries and the pseudo-random terms listed in the evidence; "
    "index ranges 2 (occ, general) and 3 (virt); one fixed pseudo-random value per tensor element",
    "libtensor semantics assumed by the interpreter: contract(l, ...) sums the listed labels over the product of any "
    "number of operands, dot_product sums all labels, a product of labelled tensors is the product by labels (a shared "
    "label is elementwise, a label repeated on one tensor addresses its diagonal), results are assigned by label; "
    "whether libtensor itself accepts n-ary dot_product/contract, a shared label in a direct product or a repeated "
    "label is not decided",
    "the text of the scaling comment (N^k: O^n V^m) is not decided, only that it is a one-line comment of the backend",
    "exception messages are not decided, only the exception class",
    "format_einsum_contraction / format_libtensor_contraction are helpers of format_contraction: they are evaluated "
    "through it only (their own parameter lists are not an anchor); the refusal of a product of several index-free "
    "'tensors' in format_libtensor_contraction is unreachable through format_contraction and not decided",
    "libtensor, sum over the axes of a single tensor (sum_a A_ia -> i): the library refuses with AssertionError instead "
    "of the documented NotImplementedError; both classes are accepted as refusal here (reported, not decided)",
]

GC = "generate_code.generate_code:"
OC = "generate_code.optimize_contractions:"
CO = "generate_code.contraction:"
SPACE = {"o": "occ", "v": "virt", "g": "general"}
ERI, FOCK = "W", "g"              # configured names used by the scenarios (deliberately not the defaults)


# ------------------------------------------------------------------ abstract values

class SNum:
    """Exact model of a sympy number c*sqrt(n) (c rational, n squarefree): Integer/Rational (n = 1), Pow(n, 1/2)
    (c = 1), Mul(c, Pow(n, 1/2)); ``other`` marks a number of a kind the formatters do not know (e.g. pi)."""

    def __init__(self, c, n=1, other=None):
        c, n = Fraction(c), int(n)
        k = 2
        while k * k <= n:
            while n % (k * k) == 0:
                n //= k * k
                c *= k
            k += 1
        self.c, self.n, self.other = c, n, other

    # python protocol used by the evaluated code
    def _coerce(self, o):
        if isinstance(o, SNum):
            return o
        if isinstance(o, (int, Fraction)) and not isinstance(o, bool):
            return SNum(o)
        return None               # sympy >= 1.13: an exact number never equals a float (Rational(1, 2) != 0.5)

    def _num(self, o):
        return o.value() if isinstance(o, SNum) else float(o)

    def value(self):
        return float(self.c) * math.sqrt(self.n) * (math.pi if self.other else 1.0)

    def __eq__(self, o):
        o = self._coerce(o)
        return o is not None and (self.c, self.n, self.other) == (o.c, o.n, o.other)

    def __ne__(self, o):
        return not self.__eq__(o)

    def __hash__(self):
        return hash((self.c, self.n, self.other))

    def __lt__(self, o):
        return self.value() < self._num(o)

    def __gt__(self, o):
        return self.value() > self._num(o)

    def __le__(self, o):
        return self.value() <= self._num(o)

    def __ge__(self, o):
        return self.value() >= self._num(o)

    def __mul__(self, o):
        o = self._coerce(o)
        if o is None:
            return NotImplemented
        return SNum(self.c * o.c, self.n * o.n, self.other or o.other)

    __rmul__ = __mul__

    def __truediv__(self, o):
        o = self._coerce(o)
        if o is None or o.other:
            return NotImplemented
        if o.c == 0:
            raise ZeroDivisionError
        return SNum(self.c / (o.c * o.n), self.n * o.n, self.other)

    def __rtruediv__(self, o):
        o = self._coerce(o)
        return NotImplemented if o is None else o.__truediv__(self)

    def __neg__(self):
        return SNum(-self.c, self.n, self.other)

    def __abs__(self):
        return SNum(abs(self.c), self.n, self.other)

    def __int__(self):
        return int(self.value())

    def __index__(self):
        if self.n != 1 or self.other or self.c.denominator != 1:
            raise TypeError(f"'{self.kind()}' object cannot be interpreted as an integer")
        return int(self.c)

    def __float__(self):
        return self.value()

    def __str__(self):            # sympy's str
        if self.other:
            return self.other if self.c == 1 else f"{self.c}*{self.other}"
        if self.n == 1:
            return str(self.c)
        num, den = self.c.numerator, self.c.denominator
        text = f"sqrt({self.n})" if abs(num) == 1 else f"{abs(num)}*sqrt({self.n})"
        return ("-" if num < 0 else "") + text + (f"/{den}" if den != 1 else "")

    __repr__ = __str__

    def __deepcopy__(self, memo):
        return self

    # evaluator protocol
    def kind(self):
        if self.other:
            return "NumberSymbol" if self.c == 1 else "Mul"
        if self.n == 1:
            return "Integer" if self.c.denominator == 1 else "Rational"
        return "Pow" if self.c == 1 else "Mul"

    def sx_isinstance(self, sx, cname):
        k = self.kind()
        if cname in ("Rational", "Number"):
            return k in ("Integer", "Rational")
        if cname in ("Expr", "Basic", "Atom") and cname != "Expr":
            return True
        return cname == k

    def sx_getattr(self, sx, attr, node):
        k = self.kind()
        if attr in ("p", "numerator") and k in ("Integer", "Rational"):
            return self.c.numerator
        if attr in ("q", "denominator") and k in ("Integer", "Rational"):
            return self.c.denominator
        if attr == "args":
            if k == "Pow":
                return (SNum(self.n), SNum(Fraction(1, 2)))
            if k == "Mul":
                rest = SNum(1, self.n, self.other)
                return (SNum(self.c), rest)
            return ()
        if attr == "is_number":
            return True
        if attr in ("is_Rational", "is_rational"):
            return k in ("Integer", "Rational")
        if attr in ("is_Integer", "is_integer"):
            return k == "Integer"
        if attr == "is_negative":
            return self.value() < 0
        if attr == "is_positive":
            return self.value() > 0
        sx.unsupported(node, f"attribute {attr} of a sympy number is not modelled")

    def sx_term(self):
        return T("sym", f"<{self}>")

    def sx_str(self, sx):
        return str(self)


class Ordered(Rec):
    """A record of a dataclass(order=True): compared by the tuple of its fields."""

    def key(self):
        return tuple(self.attrs[f] for f in self.attrs["_fields"])

    def __lt__(self, o):
        return self.key() < o.key()

    def __gt__(self, o):
        return self.key() > o.key()

    def __le__(self, o):
        return self.key() <= o.key()

    def __ge__(self, o):
        return self.key() >= o.key()


def index(name, space, spin=""):
    sp = SPACE[space]
    return Rec("indices:Index", name + (f"_{spin}" if spin else ""), name=name, space=sp, spin=spin,
               space_and_spin=(sp, spin), dummy_index=10000 + sum(ord(ch) * 131 ** k for k, ch in enumerate(name + spin)))


class World:
    """Indices by name (one record per name and spin: identity is equality, as for adcgen's Index)."""

    def __init__(self):
        self.idx = {}

    def __call__(self, names, spin=None):
        out = []
        for k, n in enumerate(names):
            s = spin[k] if spin else ""
            sp = "o" if n[0] in "ijklmno" else "v" if n[0] in "abcdefgh" else "g"
            key = (n, s)
            if key not in self.idx:
                self.idx[key] = index(n, sp, s)
            out.append(self.idx[key])
        return tuple(out)


def spaces_of(indices):
    return "".join(i.attrs["space"][0] for i in indices)


def scaling_component(total, general, virt, occ):
    return Ordered(CO + "ScalingComponent", "scaling_component", total=total, general=general, virt=virt, occ=occ,
                   _fields=("total", "general", "virt", "occ"))


def scaling_of(contracted, target):
    def comp(ix):
        sp = spaces_of(ix)
        return scaling_component(len(sp), sp.count("g"), sp.count("v"), sp.count("o"))
    c, m = comp(tuple(contracted) + tuple(target)), comp(target)
    return Ordered(CO + "Scaling", "scaling", computational=c, memory=m, _fields=("computational", "memory"))


class Names:
    """contraction names as the library's own Contraction.__init__ / is_contraction build and recognise them."""

    def __init__(self, model):
        self.model = model
        self.cache = {}

    def __call__(self, ident):
        if ident not in self.cache:
            holder = []

            def args():
                r = Rec(CO[:-1] + ":Contraction", "contraction")
                holder.append(r)
                return dict(self=r, indices=(), names=(), term_target_indices=())
            noop = lambda sx, a, kw: None
            sx = Symex(self.model, inline=lambda q: True, what="Contraction.__init__",
                       hooks={"next": lambda sx, a, kw: ident, "Contraction._determine_contracted_and_target": noop,
                              "Contraction._determine_scaling": noop, "_determine_contracted_and_target": noop,
                              "_determine_scaling": noop})
            outs = sx.run(CO + "Contraction.__init__", args)
            rec = holder[-1] if holder else None
            name = rec.attrs.get("contraction_name") if rec is not None else None
            if name is None and rec is not None:           # a computed attribute
                try:
                    name = sx.getattr(rec, "contraction_name", None)
                except AnalysisError:
                    name = None
            if not isinstance(name, str) or not name:
                raise AnalysisError(f"C17: Contraction.__init__ does not give a concrete contraction_name: {outs}")
            self.cache[ident] = name
        return self.cache[ident]


def contraction(cname, ident, names, indices, term_target, external=None):
    """A Contraction record; contracted/target by the documented split: an index is a target index of the contraction
    iff it is a target index of the term, or it occurs once in the contraction and (``external`` given) also occurs on an
    object of the term outside of the contraction; every other index is summed.  ``external`` None: every index that
    occurs once is kept (documented default).  The order of ``term_target`` is adopted if the sets agree."""
    count = {}
    for ix in indices:
        for i in ix:
            count[i] = count.get(i, 0) + 1
    order = lambda i: ({"g": 0, "o": 1, "v": 2}[i.attrs["space"][0]], i.attrs["spin"], i.attrs["name"])
    keep = lambda i, n: i in term_target or (n == 1 and (external is None or i in external))
    contracted = sorted((i for i, n in count.items() if not keep(i, n)), key=order)
    target = sorted((i for i, n in count.items() if keep(i, n)), key=order)
    if sorted(term_target, key=order) == target:
        target = list(term_target)
    return Rec(CO + "Contraction", cname(ident), indices=tuple(indices), names=tuple(names), contracted=tuple(contracted),
               target=tuple(target), scaling=scaling_of(contracted, target), id=ident, contraction_name=cname(ident))


def tensor_names_rec():
    return Rec("tensor_names:TensorNames", "tensor_names", eri=ERI, coulomb="u", fock=FOCK, operator="D",
               gs_amplitude="s", gs_density="r", left_adc_amplitude="L", right_adc_amplitude="R", orb_energy="eps",
               sym_orb_denom="Q")


def fields_hook(sx, a, kw):
    """dataclasses.fields(C): one record per annotated field of the class, in order."""
    from ..symex import ClassRef
    import ast
    if len(a) == 1 and isinstance(a[0], ClassRef):
        c = a[0].module.classes[a[0].qual]
        return tuple(Rec(None, f"field {st.target.id}", name=st.target.id) for st in c.body
                     if isinstance(st, ast.AnnAssign) and isinstance(st.target, ast.Name))
    return NotImplemented


class PermRec(Rec):
    """symmetry.Permutation (a tuple subclass) as a record with items."""

    def __getitem__(self, k):
        return self.attrs["_items"][k]

    def __iter__(self):
        return iter(self.attrs["_items"])

    def __len__(self):
        return len(self.attrs["_items"])


def permutation(p, q):
    return PermRec("symmetry:Permutation", f"P_{p.label}{q.label}", _items=(p, q))


def sympify_hook(sx, a, kw):
    """sympy.sympify of a number: the number in the exact domain."""
    if len(a) == 1 and isinstance(a[0], SNum):
        return a[0]
    if len(a) == 1 and isinstance(a[0], (int, Fraction)) and not isinstance(a[0], bool):
        return SNum(a[0])
    return NotImplemented


def make_sx(ctx, what, hooks=None, **kw):
    hk = {"tensor_names": tensor_names_rec(), "fields": fields_hook,
          "S": Rec(None, "S", Half=SNum(Fraction(1, 2)), One=SNum(1), Zero=SNum(0), NegativeOne=SNum(-1)),
          "term_memory_requirements": lambda sx, a, k: scaling_component(0, 0, 0, 0), "sympify": sympify_hook}
    hk.update(hooks or {})
    return Symex(ctx.model, inline=lambda q: True, hooks=hk, what=what, **kw)


def concrete(outs):
    """The single concrete string a function returns, or a description of what it does instead."""
    if len(outs) == 1 and outs[0].kind == "return" and isinstance(outs[0].value, str):
        return outs[0].value, None
    if len(outs) == 1 and outs[0].kind == "raise":
        return None, f"raises {outs[0].exc}"
    if len(outs) == 1:
        return None, f"returns the non-text value {show(outs[0].value)[:160]}"
    return None, f"{len(outs)} outcomes depending on {sorted({show(a) for o in outs for a, _ in o.path})[:3]}"


def refused(outs, exc="NotImplementedError"):
    return bool(outs) and all(o.kind == "raise" and o.exc == exc for o in outs)


# --------------------------------------------------------------------------- operands

def token_env(backend, operands, extra=None, symbols=None):
    """What the operand tokens of an emitted program have to denote: independent statement of the adcc / libadc naming
    (hf.<block>, hf.f<block>; i_<block>, pi<n>), everything else under its own long name."""
    tensors, scalars = {}, {}
    for name, indices in operands:
        sp = spaces_of(indices)
        key = operand_key(name, sp)
        if key[0] == "eri":
            tok = f"hf.{sp}" if backend == "einsum" else f"i_{sp}"
        elif key[0] == "fock" and backend == "einsum":
            tok = f"hf.f{sp}"
        elif key[0] == "t2eri" and backend == "libtensor":
            tok = f"pi{key[1]}"
        else:
            tok = name
        if not indices:
            scalars[tok] = em.value_of(key, ())
        else:
            if tok in tensors and tensors[tok] != (key, sp):
                raise AnalysisError(f"C17 scenario: token {tok} denotes two tensors")
            tensors[tok] = (key, sp)
    tensors.update(extra or {})
    return em.Env(tensors, symbols or {}, scalars)


def operand_key(name, sp):
    """Identity of the tensor an object long name stands for."""
    if name == f"{ERI}_{sp}":
        return ("eri", sp)
    if name == f"{FOCK}_{sp}":
        return ("fock", sp)
    if name.startswith("t2eri_") and name[6:].isdigit():
        return ("t2eri", name[6:], sp)
    if name == f"d_{sp}" and sp:
        return ("delta", sp)
    return ("tensor", name, sp)


def idx_pairs(indices):
    return [(i.attrs["name"], i.attrs["space"][0]) for i in indices]


# ------------------------------------------------------------------------------- R17a

def contraction_cases(w, cname):
    """(label, contraction, cache entries {name: (inner contraction | scalar operand list)}, both backends?)."""
    i, j, k, l, a, b, c = w("ijklabc")
    cases = []

    def add(label, names, indices, target, inner=None, external=None):
        cases.append((label, contraction(cname, 90 + len(cases), names, indices, target, external), inner or {}))
    add("reorder x_ai -> ia", ["x_vo"], [(a, i)], (i, a))
    add("identity x_ia -> ia", ["x_ov"], [(i, a)], (i, a))
    add("eri block reordered", [f"{ERI}_oovv"], [(i, j, a, b)], (i, a, j, b))
    add("pair A_ij B_jk", ["A_oo", "B_oo"], [(i, j), (j, k)], (i, k))
    add("pair, requested order ki", ["A_oo", "B_oo"], [(i, j), (j, k)], (k, i))
    add("fock and eri", [f"{FOCK}_ov", f"{ERI}_ovov"], [(j, b), (i, a, j, b)], (i, a))
    add("hyper-contraction of three", ["A_ov", "B_ov", "C_oo"], [(i, a), (j, a), (i, j)], ())
    add("outer product", ["A_ov", "B_ov"], [(i, a), (j, b)], (i, j, a, b))
    add("inner product", ["A_ov", "B_ov"], [(i, a), (i, a)], ())
    add("scalar factor times tensor", ["c0", "B_ov"], [(), (i, a)], (i, a))
    add("scalar factor times pair", ["c0", "A_oo", "B_ov"], [(), (i, j), (j, a)], (i, a))
    add("look-alike names", [f"{ERI}x_oo", f"{FOCK}{FOCK}_ov"], [(i, j), (j, a)], (i, a))
    add("t2eri", ["t2eri_3", "B_ov"], [(i, j, k, a), (k, a)], (i, j))
    p_, q_ = w("pq")
    add("general-space indices", [f"{FOCK}_gg", "B_go"], [(p_, q_), (q_, i)], (p_, i))
    add("diagonal d_ii -> i", ["A_oo"], [(i, i)], (i,))
    add("target index on both operands", ["A_oo", "B_oo"], [(i, k), (i, k)], (i,))
    add("elementwise product A_ia B_ia -> ia", ["A_ov", "B_ov"], [(i, a), (i, a)], (i, a))
    add("elementwise in i, outer in a, b", ["A_ov", "B_ov"], [(i, a), (i, b)], (i, a, b))
    add("target index on three operands, one summed", ["A_oo", "B_ov", "C_ov"], [(i, j), (j, a), (i, a)], (i, a))
    add("scalar factor times the sum of a tensor", ["c0", "A_ov"], [(), (i, a)], (), external=())
    add("two scalar factors times a pair", ["c0", "c1", "A_oo", "B_ov"], [(), (), (i, j), (j, a)], (i, a))
    add("only scalar factors", ["c0", "c1"], [(), ()], ())
    add("double diagonal A_iaia -> ia", ["A_ovov"], [(i, a, i, a)], (i, a))
    add("transposition A_ij -> ji", ["A_oo"], [(i, j)], (j, i))
    # numbered index names (what get_generic_indices / wicks hand out): einsum subscripts have to be single letters,
    # one letter per index of the contraction (F54); libtensor labels are the names
    i3, j3, k4, l4, k12, i1, i2 = w(["i3", "j3", "k4", "l4", "k12", "i1", "i2"])
    a3, b3, c3, d3, a12 = w(["a3", "b3", "c3", "d3", "a12"])
    add("numbered names, reorder x_a3i3 -> i3a3", ["x_vo"], [(a3, i3)], (i3, a3))
    add("numbered names, identity x_i3a3", ["x_ov"], [(i3, a3)], (i3, a3))
    add("numbered names, pair A_i3j B_jk12", ["A_oo", "B_oo"], [(i3, j), (j, k12)], (i3, k12))
    add("numbered names, inner product", ["A_oovv", "B_oovv"], [(k4, l4, c3, d3), (k4, l4, c3, d3)], ())
    add("numbered names next to their letters i, i1, i2", ["A_oo", "B_oo"], [(i, i1), (i1, i2)], (i, i2))
    add("numbered names i1 i2 i3 j3 of one letter", ["A_oo", "B_oo", "C_oo"], [(i1, i2), (i2, i3), (i3, j3)], (j3, i1))
    add("numbered names, eri and fock", [f"{FOCK}_ov", f"{ERI}_ovov"], [(j3, b3), (i3, a3, j3, b3)], (i3, a3))
    add("numbered names, elementwise and outer", ["A_ov", "B_ov"], [(i3, a3), (i3, a12)], (i3, a12, a3))
    inner_n = contraction(cname, 6, ["A_oo", "B_ov"], [(i3, k4), (k4, a3)], (i3, l4))
    add("numbered names, nested inner contraction", [cname(6), "C_ov"], [inner_n.attrs["target"], (i1, a3)], (i3, i1), {cname(6): inner_n})
    # nested: the first operand is the result of an earlier contraction
    inner = contraction(cname, 7, ["A_oo", "B_ov"], [(i, j), (j, a)], (i, l))
    add("nested inner contraction", [cname(7), "C_ov"], [inner.attrs["target"], (l, a)], (i, l), {cname(7): inner})
    inner0 = contraction(cname, 8, ["A_ov", "B_ov"], [(i, a), (i, a)], (k, l))
    add("nested scalar contraction", [cname(8), "C_oo"], [(), (k, l)], (k, l), {cname(8): inner0})
    return cases


def expected_contraction(contr, inner, backend):
    """Value table of a contraction over its own target indices + the flat operand list it stands for."""
    flat = []
    for name, ix in zip(contr.attrs["names"], contr.attrs["indices"]):
        if name in inner:
            sub = inner[name]
            flat.extend(zip(sub.attrs["names"], sub.attrs["indices"]))
        else:
            flat.append((name, ix))
    target = idx_pairs(contr.attrs["target"])
    # the summed indices of an inner contraction never occur outside of it (closure), so one flat sum is the value
    ops = [(operand_key(n, spaces_of(ix)), idx_pairs(ix)) for n, ix in flat]
    return flat, target, em.product_value(ops, target)


def emitted_value(text, env, backend, target):
    try:
        return em.as_table(em.run_expression(text, env, backend), target, backend), None
    except em.EvalError as e:
        return None, str(e)


def em_subscripts_ok(text, count):
    """The einsum subscript string of ``text`` consists of single letters, ``count`` distinct ones."""
    import re
    m = re.search(r'einsum\("([^"]*)"', text)
    if not m or not re.fullmatch(r"[A-Za-z,]*->[A-Za-z]*", m.group(1)):
        return False
    return len(set(m.group(1)) - set(",->")) == count


def r17a(ctx):
    rule = "R17a"
    fn = ctx.model.fn(GC + "format_contraction")
    w = World()
    cname = Names(ctx.model)
    n = 0
    for backend in ("einsum", "libtensor"):
        for label, contr, inner in contraction_cases(w, cname):
            sx = make_sx(ctx, f"format_contraction[{label}]")
            # the cache holds what format_contraction emitted for the inner contractions
            cache, bad = {}, None
            for nm, sub in inner.items():
                s, why = concrete(sx.run(fn, lambda: dict(contraction=sub, contraction_cache={}, backend=backend)))
                if s is None:
                    bad = why
                cache[nm] = s
            flat, target, want = expected_contraction(contr, inner, backend)
            key = f"{backend} {label}"
            if bad:
                ctx.bad(rule, fn, f"{key}: inner contraction {bad}", key=key)
                continue
            outs = sx.run(fn, lambda: dict(contraction=contr, contraction_cache=dict(cache), backend=backend))
            if backend == "libtensor" and lt_single_sum(contr.attrs["indices"], contr.attrs["contracted"]):
                n += 1
                ok = bool(outs) and all(o.kind == "raise" and o.exc in ("AssertionError", "NotImplementedError") for o in outs)
                ctx.check(rule, fn, ok, f"{key}: refused (no libtensor expression for a sum over one tensor)",
                          f"format_contraction({key}): a sum over the axes of a single tensor has to be refused, but: {outs}", key=key)
                continue
            text, why = concrete(outs)
            if text is None:
                ctx.bad(rule, fn, f"format_contraction({key}) {why}", key=key)
                continue
            env = token_env(backend, flat)
            got, err = emitted_value(text, env, backend, target)
            n += 1
            if err:
                ctx.bad(rule, fn, f"{key}: emitted `{text}` is not executable: {err}", key=key)
                continue
            d = em.first_difference(got, want)
            ctx.check(rule, fn, d is None, f"{key}: `{text}` evaluates to the contraction",
                      f"{key}: emitted `{text}` does not evaluate to sum_contracted prod operands in the order "
                      f"{[t for t, _ in target]}: at {d[0] if d else ''} it gives {d[1] if d else ''}, expected {d[2] if d else ''}",
                      key=key)
        # a missing inner contraction is an error, never an operand called "contraction_n"
        i, j, a = w("ija")
        c = contraction(cname, 55, [cname(54), "C_ov"], [(i, j), (j, a)], (i, a))
        sx = make_sx(ctx, "format_contraction[cache miss]")
        outs = sx.run(fn, lambda: dict(contraction=c, contraction_cache={}, backend=backend))
        ctx.check(rule, fn, bool(outs) and all(o.kind == "raise" for o in outs), f"{backend}: unknown inner contraction refused",
                  f"{backend}: an inner contraction that was never emitted is silently used as an operand: {outs}",
                  key=f"{backend} cache miss")
    ctx.floor(rule, "contractions executed", n, 68)
    # einsum: a contraction with more distinct indices than letters has no subscript string: refused, 52 are served
    for count, served in ((52, True), (53, False)):
        many = w([f"i{k}" for k in range(1, 27)] + [f"a{k}" for k in range(1, count - 25)])
        c = contraction(cname, 65, ["A_big", "B_big"], [many[:30], many[20:]], (), external=())
        sx = make_sx(ctx, f"format_contraction[{count} indices]")
        outs = sx.run(fn, lambda: dict(contraction=c, contraction_cache={}, backend="einsum"))
        text, _ = concrete(outs)
        ok = refused(outs) if not served else (text is not None and em_subscripts_ok(text, count))
        ctx.check(rule, fn, ok, f"einsum: {count} distinct indices " + ("served with distinct letters" if served else "refused with NotImplementedError"),
                  f"format_contraction(einsum): a contraction over {count} distinct numbered indices " +
                  ("is not emitted with one letter per index" if served else "has to be refused with NotImplementedError (52 letters)") +
                  f", but: {[o.value if o.kind == 'return' else 'raises ' + str(o.exc) for o in outs][:1]}", key=f"einsum {count} indices")
    # libtensor: documented refusals
    i, j, a, b = w("ijab")
    sx = make_sx(ctx, "format_contraction[partial trace]")
    c = contraction(cname, 60, ["A_oov", "B_ov"], [(i, i, a), (j, a)], (j,))
    outs = sx.run(fn, lambda: dict(contraction=c, contraction_cache={}, backend="libtensor"))
    ctx.check(rule, fn, refused(outs), "libtensor: partial trace refused with NotImplementedError",
              f"libtensor: a partial trace (A_iia B_ja) is emitted: {outs}", key="libtensor partial trace")


# ------------------------------------------------------------------------------- R17b

def r17b(ctx):
    rule = "R17b"
    w = World()
    cname = Names(ctx.model)
    i, j, a = w("ija")
    c = contraction(cname, 70, ["A_oo", "B_ov"], [(i, j), (j, a)], (i, a))
    term = term_rec(w, SNum(2), [], [("A", (i, j), 1), ("B", (j, a), 1)])
    scen = {"format_contraction": lambda be: dict(contraction=c, contraction_cache={}, backend=be),
            "format_scaling_comment": lambda be: dict(term=term, contractions=[c], backend=be),
            "format_prefactor": lambda be: dict(term=term, backend=be)}
    for name, args in scen.items():
        fn = ctx.model.fn(GC + name)
        for be in ("fortran", "", "Einsum"):
            sx = make_sx(ctx, name)
            outs = sx.run(fn, lambda: args(be))
            ctx.check(rule, fn, refused(outs), f"{name}: backend {be!r} refused with NotImplementedError",
                      f"{name}: the unknown backend {be!r} is not refused: {outs}", key=f"{name} refuse {be!r}")
        for be in ("einsum", "libtensor"):
            sx = make_sx(ctx, name)
            outs = sx.run(fn, lambda: args(be))
            text, why = concrete(outs)
            ok = text is not None
            if ok and name == "format_scaling_comment":
                ok = text.startswith(em.COMMENT[be]) and "\n" not in text
                why = f"returns `{text}`, which is not a one-line {be} comment"
            ctx.check(rule, fn, ok, f"{name}: backend {be} served", f"{name}({be}) {why}", key=f"{name} serve {be}")
    for name in ("_format_python_prefactor", "_format_cpp_prefactor"):
        fn = ctx.model.fn(GC + name)
        for label, num in (("pi", SNum(1, 1, "pi")), ("2*pi", SNum(2, 1, "pi")), ("cube root", CubeRoot())):
            sx = make_sx(ctx, name)
            outs = sx.run(fn, lambda: dict(prefactor=num))
            ctx.check(rule, fn, refused(outs), f"{name}: {label} refused with NotImplementedError",
                      f"{name}: a prefactor of an unknown kind ({label}) is not refused: {outs}", key=f"{name} refuse {label}")


class CubeRoot(SNum):
    """2**(1/3): a Pow that is not a square root."""

    def __init__(self):
        super().__init__(1)
        self.other = "2**(1/3)"

    def value(self):
        return 2 ** (1 / 3)

    def kind(self):
        return "Pow"

    def sx_getattr(self, sx, attr, node):
        if attr == "args":
            return (SNum(2), SNum(Fraction(1, 3)))
        return super().sx_getattr(sx, attr, node)


# ------------------------------------------------------------------------------- R17c

def r17c(ctx):
    rule = "R17c"
    w = World()
    i, j, a, b, k = w("ijabk")
    table = {
        "translate_adcc_names": [
            (f"{ERI}_oovv", (i, j, a, b), "hf.oovv"), (f"{ERI}_ovov", (i, a, j, b), "hf.ovov"), (f"{ERI}_oo", (i, j), "hf.oo"),
            (f"{FOCK}_ov", (i, a), "hf.fov"), (f"{FOCK}_oo", (i, j), "hf.foo"),
            (f"{ERI}x_oo", (i, j), f"{ERI}x_oo"), (f"{ERI}{ERI}_oovv", (i, j, a, b), f"{ERI}{ERI}_oovv"),
            (f"{FOCK}2_ov", (i, a), f"{FOCK}2_ov"), (f"x{ERI}_oo", (i, j), f"x{ERI}_oo"), (f"{ERI}_oo_x", (i, j), f"{ERI}_oo_x"),
            ("V_oovv", (i, j, a, b), "V_oovv"), ("f_ov", (i, a), "f_ov"), ("A_ov", (i, a), "A_ov"), ("t2eri_3", (i, j, k, a), "t2eri_3"),
            (ERI, (), ERI)],
        "translate_libadc_names": [
            (f"{ERI}_oovv", (i, j, a, b), "i_oovv"), (f"{ERI}_ovov", (i, a, j, b), "i_ovov"),
            (f"{ERI}x_oo", (i, j), f"{ERI}x_oo"), (f"{ERI}{ERI}_oovv", (i, j, a, b), f"{ERI}{ERI}_oovv"), (f"x{ERI}_oo", (i, j), f"x{ERI}_oo"),
            (f"{FOCK}_ov", (i, a), f"{FOCK}_ov"), ("V_oovv", (i, j, a, b), "V_oovv"), ("A_ov", (i, a), "A_ov"),
            ("t2eri_3", (i, j, k, a), "pi3"), ("t2eri_5", (i, j, k, a), "pi5")],
    }
    for name, rows in table.items():
        fn = ctx.model.fn(GC + name)
        for tname, ix, want in rows:
            sx = make_sx(ctx, name)
            outs = sx.run(fn, lambda: dict(name=tname, indices=ix))
            got, why = concrete(outs)
            ctx.check(rule, fn, got == want, f"{name}({tname}, {spaces_of(ix)}) = {want}",
                      f"{name}: the tensor {tname} with indices in {spaces_of(ix) or 'no space'} (configured eri={ERI}, fock={FOCK}) is emitted as "
                      f"`{got}`" + (f" ({why})" if why else "") + f", expected `{want}`", key=f"{name} {tname}")


# ------------------------------------------------------------------------------- R17d

def obj_rec(w, name, indices, exponent, kind="tensor"):
    """One Obj of a term: a tensor / delta / symbol with an exponent."""
    sp = spaces_of(indices)
    if kind == "symbol" and not isinstance(exponent, SNum):
        exponent = SNum(exponent)           # x**n: the exponent is a sympy Integer / Rational
    classes = {"tensor": ("SymbolicTensor", "AntiSymmetricTensor", "TensorSymbol"), "delta": ("KroneckerDelta",),
               "symbol": ("Symbol",), "number": ()}[kind]
    base = Rec(None, f"{name}{''.join(i.label for i in indices)}", classes, name=name, idx=tuple(indices),
               is_number=(kind == "number"))
    long = f"d_{sp}" if kind == "delta" else (f"t2eri_{name[5:]}" if name.startswith("t2eri") else f"{name}_{sp}")
    sympy = Rec(None, f"{base.label}^{exponent}", ("Pow",) if exponent != 1 else classes, is_number=(kind == "number"),
                args=(base, exponent))
    return Rec("expr_container:Obj", f"obj {base.label}^{exponent}", base=base, exponent=exponent, base_and_exponent=(base, exponent),
               idx=tuple(indices), space=sp, spin="".join(i.attrs["spin"] for i in indices), sympy=sympy,
               longname=lambda sx, a, kw: long if kind in ("tensor", "delta") else None, _kind=kind, _long=long)


def term_rec(w, pref, symbols, tensors, with_number_obj=True):
    """A Term record: prefactor, symbols [(name, exponent)], tensors [(name, indices, exponent)] (name 'delta' = delta)."""
    objs = []
    if with_number_obj:
        n = obj_rec(w, str(pref), (), 1, "number")
        objs.append(n)
    for s, e in symbols:
        objs.append(obj_rec(w, s, (), e, "symbol"))
    for t, ix, e in tensors:
        objs.append(obj_rec(w, t, ix, e, "delta" if t == "delta" else "tensor"))
    every = []
    for o in objs:
        for i in o.attrs["idx"]:
            if i not in every:
                every.append(i)
    return Rec("expr_container:Term", f"term {pref}", prefactor=pref, objects=tuple(objs), idx=tuple(every),
               _symbols=list(symbols), _tensors=list(tensors))


def symbol_value(name):
    return 1.0 + (em.value_of(("symbol", name), ()) % 5) / 4.0


PREFACTORS = [SNum(1), SNum(-1), SNum(2), SNum(-3), SNum(12), SNum(Fraction(1, 2)), SNum(Fraction(-1, 2)), SNum(Fraction(1, 4)),
              SNum(Fraction(-1, 4)), SNum(Fraction(3, 2)), SNum(Fraction(-2, 3)), SNum(Fraction(1, 3)), SNum(Fraction(-5, 12)),
              SNum(1, 2), SNum(-1, 2), SNum(Fraction(1, 2), 2), SNum(Fraction(-1, 2), 2), SNum(Fraction(1, 3), 3), SNum(2, 6),
              SNum(Fraction(-3, 4), 2)]


def r17d(ctx):
    rule = "R17d"
    w = World()
    fn = ctx.model.fn(GC + "format_prefactor")
    i, a = w("ia")
    n = 0
    for backend in ("einsum", "libtensor"):
        for pref in PREFACTORS:
            for symbols in ([], [("c", 1)], [("c", 2), ("z", 1)]):
                if symbols and pref not in PREFACTORS[:6] + PREFACTORS[13:15]:
                    continue
                term = term_rec(w, pref, symbols, [("A", (i, a), 1)])
                sx = make_sx(ctx, "format_prefactor")
                outs = sx.run(fn, lambda: dict(term=term, backend=backend))
                key = f"{backend} {pref} {symbols}"
                text, why = concrete(outs)
                if text is None:
                    ctx.bad(rule, fn, f"format_prefactor({pref}, symbols {symbols}, {backend}) {why}", key=key)
                    continue
                want = pref.value()
                for s, e in symbols:
                    want *= symbol_value(s) ** e
                env = em.Env({}, {s: symbol_value(s) for s, _ in symbols}, {})
                try:
                    got = em.run_expression(text, env, backend)
                    err = None if isinstance(got, (int, float)) else "not a number"
                except em.EvalError as e:
                    got, err = None, str(e)
                n += 1
                ok = err is None and abs(got - want) <= 1e-9 * (1 + abs(want))
                ctx.check(rule, fn, ok, f"{key}: `{text}`",
                          f"format_prefactor: the prefactor {pref}{''.join(f' * {s}^{e}' for s, e in symbols)} is emitted for {backend} as "
                          f"`{text}`, which " + (f"is not executable: {err}" if err else f"evaluates to {got} instead of {want}"), key=key)
    ctx.floor(rule, "prefactors executed", n, 40)
    # a symbol in a denominator or under a root has no representation as repeated factor: refused, never dropped
    for backend in ("einsum", "libtensor"):
        for label, symbols in (("2/x", [("x", -1)]), ("2/x^2", [("x", -2)]), ("2 sqrt(x)", [("x", Fraction(1, 2))]),
                               ("2 c/x", [("c", 1), ("x", -1)]), ("2 x^(-1/2)", [("x", Fraction(-1, 2))])):
            for tensors in ([], [("A", (i, a), 1)]):
                term = term_rec(w, SNum(2), symbols, tensors)
                sx = make_sx(ctx, "format_prefactor")
                outs = sx.run(fn, lambda: dict(term=term, backend=backend))
                ctx.check(rule, fn, refused(outs), f"{backend}: {label} refused with NotImplementedError",
                          f"format_prefactor({backend}): the prefactor {label}{' of a term with tensors' if tensors else ''} has a symbol with an "
                          f"exponent that is not a positive integer; it has to be refused with NotImplementedError, but: "
                          f"{[o.value if o.kind == 'return' else 'raises ' + str(o.exc) for o in outs][:2]}",
                          key=f"symbol exponent {backend} {label}{' tensors' if tensors else ''}")
    # permutation operators
    ps = ctx.model.fn(GC + "format_perm_symmetry")
    i, j, a, b = w("ijab")
    P = {"ij": permutation(i, j), "ab": permutation(a, b), "ia": permutation(i, a)}
    tokens = {perm_token(ctx, p): tuple(x.attrs["name"] for x in p.attrs["_items"]) for p in P.values()}
    if len(tokens) != len(P):
        raise AnalysisError("C17: permutation operators are not distinguishable in the emitted text")
    target = idx_pairs((i, j, a, b))
    table = {p: em.value_of("sym", p) for p in em.positions([em.DIM[s] for _, s in target])}
    for label, sym in (("none", ()), ("-P_ij", (((P["ij"],), -1),)), ("+P_ij", (((P["ij"],), 1),)),
                       ("-P_ij -P_ab +P_ijP_ab", (((P["ij"],), -1), ((P["ab"],), -1), ((P["ij"], P["ab"]), 1))),
                       ("+P_ijP_ab", (((P["ij"], P["ab"]), 1),)), ("-P_ab +P_ij", (((P["ab"],), -1), ((P["ij"],), 1)))):
        sx = make_sx(ctx, "format_perm_symmetry")
        outs = sx.run(ps, lambda: dict(perm_symmetry=sym))
        text, why = concrete(outs)
        key = f"perm {label}"
        if text is None:
            ctx.bad(rule, ps, f"format_perm_symmetry({label}) {why}", key=key)
            continue
        want = em.apply_operator([(1.0, [])] + [(float(f), [tuple(x.attrs["name"] for x in p.attrs["_items"]) for p in perms]) for perms, f in sym],
                                 table, target)
        try:
            got = em.apply_operator(em.parse_operator(text, tokens), table, target)
            err = None
        except em.EvalError as e:
            got, err = None, str(e)
        d = None if err else em.first_difference(got, want)
        ctx.check(rule, ps, not err and d is None, f"{key}: `{text}`",
                  f"format_perm_symmetry: the symmetry {label} is emitted as `{text}`, which " +
                  (f"is not an operator: {err}" if err else "does not denote 1 + sum factor * prod P"), key=key)
    for f in (2, 0, -2):
        sx = make_sx(ctx, "format_perm_symmetry")
        outs = sx.run(ps, lambda: dict(perm_symmetry=(((P["ij"],), f),)))
        ctx.check(rule, ps, bool(outs) and all(o.kind == "raise" for o in outs), f"factor {f} refused",
                  f"format_perm_symmetry: a symmetry with the factor {f} is printed as a sign: {outs}", key=f"perm factor {f}")


# ------------------------------------------------------------------------------- R17e

def term_value(term, target):
    ops = []
    for t, ix, e in term.attrs["_tensors"]:
        sp = spaces_of(ix)
        key = ("delta", sp) if t == "delta" else operand_key(f"t2eri_{t[5:]}" if t.startswith("t2eri") else f"{t}_{sp}", sp)
        ops.extend([(key, idx_pairs(ix))] * e)
    pref = term.attrs["prefactor"].value()
    for s, e in term.attrs["_symbols"]:
        pref *= symbol_value(s) ** e
    return em.product_value(ops, target, pref)


def term_operands(term):
    out = []
    for o in term.attrs["objects"]:
        if o.attrs["_kind"] in ("tensor", "delta"):
            out.extend([(o.attrs["_long"], o.attrs["idx"])] * o.attrs["exponent"])
    return out


class Pipeline:
    """One end-to-end scenario of generate_code: the symmetry classes and the schemes are given (black boxes), the
    calls are recorded."""

    def __init__(self, ctx, w, cname, target_str, spin, classes, schemes, tgt, **opts):
        self.ctx, self.w, self.cname = ctx, w, cname
        self.target_str, self.spin, self.classes, self.schemes, self.opts = target_str, spin, classes, schemes, opts
        self.tgt = tgt
        self.calls = []
        self.made = 0
        self.refuse = opts.pop("refuse", None)      # (exception classes, why): the scenario has to be refused
        self.refusal_reason = ""
        self.optimize = True
        self.expr = Rec("expr_container:Expr", "EXPR", terms=tuple(t for _, ts in classes for t in ts))

    def hooks(self):
        m = self.ctx.model

        def rec(qual, short):
            fn = m.fn(qual)

            def hook(sx, a, kw):
                b = sx.bind(fn, a, kw, fill_defaults=True)
                self.calls.append((short, b))
                if short == "exploit_perm_sym":
                    return {sym: Rec("expr_container:Expr", f"class{k}", terms=tuple(ts)) for k, (sym, ts) in enumerate(self.classes)}
                if short == "optimize_contractions":
                    return list(self.schemes[id(b.get("term"))])
                # the unoptimised scheme is built by the library's own function (evaluated), on top of the index
                # factory and the Contraction constructor below
                from ..symex import Func
                return sx._invoke(Func(fn, [], fn._module, fn._qual), a, kw, None)
            return hook

        def get_symbols(sx, a, kw):
            b = sx.bind(m.fn("indices:get_symbols"), a, kw, fill_defaults=True)
            names, spins = b.get("indices"), b.get("spins")
            if not isinstance(names, str) or not (spins is None or isinstance(spins, str)):
                return NotImplemented
            return list(self.w(names, spins))

        def new_contraction(sx, a, kw):
            b = sx.bind(m.fn(CO + "Contraction.__init__"), [None] + list(a), kw, fill_defaults=True)
            self.made += 1
            try:
                names, indices, tt = list(b["names"]), [tuple(ix) for ix in b["indices"]], tuple(b["term_target_indices"])
            except (TypeError, KeyError):
                raise AnalysisError(f"C17: Contraction(...) built from {b}")
            return contraction(self.cname, 5000 + self.made, names, indices, tt, ext_of(b))
        return {"exploit_perm_sym": rec("sort_expr:exploit_perm_sym", "exploit_perm_sym"),
                "optimize_contractions": rec(OC + "optimize_contractions", "optimize_contractions"),
                "unoptimized_contraction": rec(OC + "unoptimized_contraction", "unoptimized_contraction"),
                "get_symbols": get_symbols, "Contraction": new_contraction}

    def expected_refusal(self, backend, optimize):
        """Exception classes generate_code has to refuse the scenario with (None: a program is expected)."""
        if self.refuse:
            self.refusal_reason = self.refuse[1]
            return set(self.refuse[0])
        if backend == "libtensor":
            for _, ts in self.classes:
                for t in ts:
                    ops = term_operands(t)
                    if not ops:
                        continue
                    if optimize:
                        single = any(lt_single_sum(c.attrs["indices"], c.attrs["contracted"]) for c in self.schemes[id(t)])
                    else:
                        single = lt_single_sum([ix for _, ix in ops], [i for _, ix in ops for i in ix if i not in self.tgt])
                    if single:
                        # TODO(finding): the refusal is an AssertionError, not the documented NotImplementedError
                        self.refusal_reason = "a sum over the axes of a single tensor (no libtensor expression)"
                        return {"AssertionError", "NotImplementedError"}
        return None

    def run(self, backend, optimize=True):
        self.calls = []
        self.optimize = optimize
        sx = make_sx(self.ctx, "generate_code", hooks=self.hooks())
        args = dict(expr=self.expr, target_indices=self.target_str, target_spin=self.spin, backend=backend,
                    optimize_contraction_scheme=optimize)
        args.update(self.opts)
        return sx.run(self.ctx.model.fn(GC + "generate_code"), lambda: dict(args))


def pipelines(ctx, w, cname):
    i, j, k, l, a, b, c = w("ijklabc")
    P = {"ij": permutation(i, j), "ab": permutation(a, b)}
    out = []
    # 1: r_ijab, two symmetry classes, nested schemes, eri/fock blocks, symbols, sqrt prefactor
    t1 = term_rec(w, SNum(Fraction(-1, 2)), [("c", 2)], [(ERI, (i, j, a, b), 1)])
    t2 = term_rec(w, SNum(2), [], [("A", (i, k), 1), ("B", (k, l), 1), ("C", (l, j, a, b), 1)])
    t3 = term_rec(w, SNum(Fraction(1, 2), 2), [], [(FOCK, (k, c), 1), ("X", (k, c), 1), ("Y", (i, j, a, b), 1)])
    tgt = (i, j, a, b)
    c20 = contraction(cname, 20, ["A_oo", "B_oo"], [(i, k), (k, l)], tgt)
    c21 = contraction(cname, 21, [cname(20), "C_oovv"], [c20.attrs["target"], (l, j, a, b)], tgt)
    c30 = contraction(cname, 30, [f"{FOCK}_ov", "X_ov"], [(k, c), (k, c)], tgt)
    c31 = contraction(cname, 31, [cname(30), "Y_oovv"], [(), (i, j, a, b)], tgt)
    c10 = contraction(cname, 10, [f"{ERI}_oovv"], [(i, j, a, b)], tgt)
    out.append(("ijab nested", Pipeline(
        ctx, w, cname, "ij,ab", None,
        [((((P["ij"],), -1), ((P["ab"],), -1), ((P["ij"], P["ab"]), 1)), [t1, t2]), ((), [t3])],
        {id(t1): [c10], id(t2): [c20, c21], id(t3): [c30, c31]}, tgt,
        bra_ket_sym=1, antisymmetric_result_tensor=False, max_itmd_dim=3, max_n_simultaneous_contracted=2)))
    # 2: requested order differs from the canonical one, spin labelled, three-step scheme
    ia, aa_ = w("ia", "aa")
    jb, bb = w("jb", "bb")
    kk, cc = w("kc", "aa")
    tgt2 = (aa_, ia, bb, jb)
    t4 = term_rec(w, SNum(-1), [("z", 1)], [("A", (ia, kk), 1), ("B", (kk, cc), 1), ("C", (cc, aa_), 1), ("D", (jb, bb), 1)])
    d0 = contraction(cname, 40, ["A_oo", "B_ov"], [(ia, kk), (kk, cc)], tgt2)
    d1 = contraction(cname, 41, [cname(40), "C_vv"], [d0.attrs["target"], (cc, aa_)], tgt2)
    d2 = contraction(cname, 42, [cname(41), "D_ov"], [d1.attrs["target"], (jb, bb)], tgt2)
    t5 = term_rec(w, SNum(3), [], [("E", (ia, aa_, jb, bb), 1)])
    e0 = contraction(cname, 43, ["E_ovov"], [(ia, aa_, jb, bb)], tgt2)
    out.append(("aibj spin", Pipeline(ctx, w, cname, "ai,bj", "aa,bb", [((), [t4, t5])], {id(t4): [d0, d1, d2], id(t5): [e0]}, tgt2,
                                      bra_ket_sym=-1, antisymmetric_result_tensor=True, max_itmd_dim=4,
                                      max_n_simultaneous_contracted=3)))
    # 3: a number: pure prefactor terms and a full contraction
    t6 = term_rec(w, SNum(Fraction(3, 2)), [("c", 1)], [])
    t7 = term_rec(w, SNum(-2), [], [("A", (i, a), 1), ("B", (i, a), 1)])
    t8 = term_rec(w, SNum(1, 3), [], [])
    f0 = contraction(cname, 50, ["A_ov", "B_ov"], [(i, a), (i, a)], ())
    out.append(("scalar", Pipeline(ctx, w, cname, "", None, [((), [t6, t7, t8])], {id(t7): [f0]}, ())))
    # 4: an exponent: the only closed scheme is the hyper-contraction
    t9 = term_rec(w, SNum(Fraction(1, 4)), [], [("A", (i, a), 2), ("B", (a, b), 1)])
    g0 = contraction(cname, 60, ["A_ov", "A_ov", "B_vv"], [(i, a), (i, a), (a, b)], (i, b))
    # 5: symbols in a denominator / under a root: refused by both backends (never emitted without the symbol)
    u1 = term_rec(w, SNum(2), [("x", -1)], [])
    u2 = term_rec(w, SNum(3), [("c", 1)], [])
    out.append(("number 2/x + 3c", Pipeline(ctx, w, cname, "", None, [((), [u2, u1])], {}, (),
                                             refuse=(("NotImplementedError",), "a symbol with the exponent -1 (2/x)"))))
    u3 = term_rec(w, SNum(Fraction(1, 2)), [("x", Fraction(1, 2))], [("A", (i, a), 1), ("B", (i, a), 1)])
    out.append(("sqrt(x) A_ia B_ia", Pipeline(ctx, w, cname, "", None, [((), [u3])], {id(u3): closed_scheme(cname, 70, term_operands(u3), ())}, (),
                                               refuse=(("NotImplementedError",), "a symbol with the exponent 1/2"))))
    # 6: targets given explicitly (not the Einstein convention): an index that occurs once and is not a target is summed
    for lab, tens, tstr, tg in (("sum_a A_ia -> i", [("A", (i, a), 1)], "i", (i,)),
                                ("sum_ab A_ia B_jb -> ji", [("A", (i, a), 1), ("B", (j, b), 1)], "j,i", (j, i)),
                                ("sum_ia A_ia B_ijb -> jb", [("A", (i, a), 1), ("B", (i, j, b), 1)], "jb", (j, b)),
                                ("A_ik B_kja C_jb -> ba", [("A", (i, k), 1), ("B", (k, j, a), 1), ("C", (j, b), 1)], "ba", (b, a)),
                                ("sum_ijab A_ia B_jb -> number", [("A", (i, a), 1), ("B", (j, b), 1)], "", ())):
        v = term_rec(w, SNum(Fraction(-3, 2)), [], tens)
        out.append((lab, Pipeline(ctx, w, cname, tstr, None, [((), [v])], {id(v): closed_scheme(cname, 100 + 10 * len(out), term_operands(v), tg)}, tg)))
    # 7: tensors without indices (F55): a scalar tensor is an operand of the program, alone, next to numbers/symbols,
    # next to another scalar tensor and next to a contraction
    e1 = term_rec(w, SNum(2), [], [("E0", (), 1)])
    e2 = term_rec(w, SNum(Fraction(-1, 2)), [("c", 1)], [("E0", (), 1), ("F0", (), 2)])
    e3 = term_rec(w, SNum(3), [("c", 2)], [])
    e4 = term_rec(w, SNum(Fraction(1, 3)), [], [("E0", (), 1), ("A", (i, a), 1), ("B", (i, a), 1)])
    out.append(("scalar tensor 2 E0", Pipeline(ctx, w, cname, "", None, [((), [e1])],
                                                {id(e1): closed_scheme(cname, 300, term_operands(e1), ())}, ())))
    out.append(("scalar tensors -c/2 E0 F0^2 + 3 c^2 + E0 A_ia B_ia / 3", Pipeline(
        ctx, w, cname, "", None, [((), [e2, e3, e4])],
        {id(e2): closed_scheme(cname, 310, term_operands(e2), ()), id(e4): closed_scheme(cname, 320, term_operands(e4), ())}, ())))
    e5 = term_rec(w, SNum(-2), [], [("E0", (), 1), ("A", (i, a), 1)])
    out.append(("scalar tensor times tensor -2 E0 A_ia -> ai", Pipeline(ctx, w, cname, "ai", None, [((), [e5])],
                                                                        {id(e5): closed_scheme(cname, 330, term_operands(e5), (a, i))}, (a, i))))
    out.append(("exponent", Pipeline(ctx, w, cname, "ib", None, [((), [t9])], {id(t9): [g0]}, (i, b),
                                     max_itmd_dim=7, max_n_simultaneous_contracted=5)))
    return out


def perm_token(ctx, p):
    """The text the library prints for one permutation operator (its own __str__, evaluated)."""
    sx = make_sx(ctx, "Permutation.__str__")
    s, why = concrete(sx.run(ctx.model.fn("symmetry:Permutation.__str__"), lambda: dict(self=p)))
    if s is None:
        raise AnalysisError(f"C17: str(Permutation) {why}")
    return s


def operator_of(sym):
    return [(1.0, [])] + [(float(f), [tuple(x.attrs["name"] for x in p.attrs["_items"]) for p in perms]) for perms, f in sym]


def ext_of(bound):
    """The external indices handed to Contraction(...) (None if not given)."""
    e = bound.get("external_indices")
    if e is None:
        return None
    try:
        return tuple(e)
    except TypeError:
        raise AnalysisError(f"C17: Contraction(..., external_indices={e!r})")


def lt_single_sum(operand_indices, contracted):
    """libtensor has no expression for a sum over the axes of a single tensor: such a contraction is refused."""
    return sum(1 for ix in operand_indices if ix) == 1 and bool(contracted)


def closed_scheme(cname, ident, operands, tgt):
    """A valid contraction scheme by the documented rules: contract the first two objects of the pool, pulling in every
    object that still carries an index the group would sum (closure), until one object is left."""
    pool = list(operands)
    scheme = []
    while True:
        group = [0, 1] if len(pool) > 1 else [0]
        while True:
            count = {}
            for g in group:
                for i in pool[g][1]:
                    count[i] = count.get(i, 0) + 1
            summed = {i for i, n in count.items() if n > 1 and i not in tgt}
            more = [k for k in range(len(pool)) if k not in group and any(i in summed for i in pool[k][1])]
            if not more:
                break
            group = sorted(group + more)
        external = tuple(i for k in range(len(pool)) if k not in group for i in pool[k][1])
        c = contraction(cname, ident + len(scheme), [pool[g][0] for g in group], [pool[g][1] for g in group], tgt, external)
        scheme.append(c)
        pool = [(c.attrs["contraction_name"], c.attrs["target"])] + [p for k, p in enumerate(pool) if k not in group]
        if len(pool) == 1:
            return scheme


def random_pipelines(ctx, w, cname, count, seed=17):
    """Pseudo-random terms (2-4 tensors, 0-3 target indices, 1-3 summed indices, 0-2 indices that occur once and
    are summed, exponents, eri/fock blocks, symbols,
    rational and sqrt prefactors, permutation classes over target pairs) with a closed scheme each."""
    import os
    import random
    rnd = random.Random(seed + int(os.environ.get("VERIF_SEED", "0") or 0))
    out = []
    for k in range(count):
        occ, virt = list(w("ijkl")), list(w("abcd"))
        pool = occ + virt
        rnd.shuffle(pool)
        nt, ns = rnd.randint(0, 3), rnd.randint(1, 3)
        tgt, summed = pool[:nt], pool[nt:nt + ns]
        rnd.shuffle(tgt)
        terms = []
        schemes = {}
        for tno in range(rnd.randint(1, 3)):
            ntens = rnd.randint(2, 4)
            slots = [[] for _ in range(ntens)]
            for i in tgt:
                for pos in rnd.sample(range(ntens), rnd.choice((1, 1, 2))):
                    slots[pos].append(i)
            for i in summed:
                for pos in rnd.sample(range(ntens), rnd.choice((2, 2, 3)) if ntens > 2 else 2):
                    slots[pos].append(i)
            # targets are given explicitly: an index may also occur once without being a target (summed over one axis)
            singles = rnd.sample(pool[nt + ns:], rnd.randint(1, 2)) if rnd.random() < 0.4 else []
            for i in singles:
                slots[rnd.randrange(ntens)].append(i)
            tensors = []
            for pos, ix in enumerate(slots):
                if not ix:
                    ix = [rnd.choice(tgt)] if tgt else [summed[0]]
                    if not tgt:
                        slots[(pos + 1) % ntens].append(summed[0]) if summed[0] not in slots[(pos + 1) % ntens] else None
                rnd.shuffle(ix)
                sp = spaces_of(ix)
                name = ERI if len(ix) == 4 and rnd.random() < 0.5 else FOCK if len(ix) == 2 and rnd.random() < 0.3 else "ABCD"[pos]
                tensors.append((name, tuple(ix), 1))
            if rnd.random() < 0.3:          # an exponent: the tensor occurs twice with the same indices
                nm, ix, _ = tensors[0]
                if all(i in tgt for i in ix):
                    tensors[0] = (nm, ix, 2)
            # every summed index has to occur at least twice (Einstein convention), else it would be a target index
            cnt = {}
            for _, ix, e in tensors:
                for i in ix:
                    cnt[i] = cnt.get(i, 0) + e
            if any(cnt.get(i, 0) < 2 for i in summed) or any(i not in cnt for i in tgt) \
                    or any(n_ == 1 for i, n_ in cnt.items() if i not in tgt and i not in singles):
                continue
            symbols = rnd.choice(([], [], [("c", 1)], [("c", 2), ("z", 1)]))
            t = term_rec(w, rnd.choice(PREFACTORS), symbols, tensors)
            terms.append(t)
            schemes[id(t)] = closed_scheme(cname, 1000 + 20 * len(out) + 5 * tno, term_operands(t), tuple(tgt))
        if not terms:
            continue
        classes = [((), terms)]
        pairs = [(p, q) for p in tgt for q in tgt if p is not q and p.attrs["space"] == q.attrs["space"] and p.attrs["name"] < q.attrs["name"]]
        if pairs and rnd.random() < 0.7:
            p, q = pairs[0]
            sym = (((permutation(p, q),), rnd.choice((1, -1))),)
            classes = [(sym, terms[:1])] + ([((), terms[1:])] if terms[1:] else [])
        tstr = "".join(i.attrs["name"] for i in tgt)
        if len(tstr) > 1 and rnd.random() < 0.5:
            tstr = tstr[:1] + "," + tstr[1:]
        opts = {}
        if rnd.random() < 0.5:
            opts = dict(max_itmd_dim=rnd.randint(2, 6), max_n_simultaneous_contracted=rnd.randint(2, 4),
                        bra_ket_sym=rnd.choice((0, 1, -1)), antisymmetric_result_tensor=rnd.random() < 0.5)
        out.append((f"random {k}: " + " + ".join(" ".join(f"{n_}_{''.join(i.attrs['name'] for i in ix)}{'^%d' % e if e > 1 else ''}"
                                                            for n_, ix, e in t.attrs["_tensors"]) for t in terms) + f" -> {tstr or 'number'}",
                    Pipeline(ctx, w, cname, tstr, None, classes, schemes, tuple(tgt), **opts)))
    return out


def check_pipeline(ctx, rule, fn, label, pl):
    """generate_code on one scenario, both backends, both scheme builders; returns the number of programs generated."""
    n = 0
    target = idx_pairs(pl.tgt)
    # the value of the expression: sum over the classes of operator(sum of the terms)
    want = None
    ptok = {}
    for sym, terms in pl.classes:
        acc = None
        for t in terms:
            tv = term_value(t, target)
            acc = tv if acc is None else {p: acc[p] + tv[p] for p in acc}
        acc = em.apply_operator(operator_of(sym), acc, target)
        want = acc if want is None else {p: want[p] + acc[p] for p in want}
        for perms, _ in sym:
            for p in perms:
                ptok[perm_token(ctx, p)] = tuple(x.attrs["name"] for x in p.attrs["_items"])
    for backend, optimize in (("einsum", True), ("libtensor", True), ("einsum", False), ("libtensor", False)):
        key = f"{label} {backend}{'' if optimize else ' unoptimised'}"
        n += 1
        outs = pl.run(backend, optimize)
        exp = pl.expected_refusal(backend, optimize)
        if exp:
            ok = bool(outs) and all(o.kind == "raise" and o.exc in exp for o in outs)
            ctx.check(rule, fn, ok, f"{key}: refused ({' / '.join(sorted(exp))})",
                      f"generate_code[{key}]: {pl.refusal_reason} has to be refused with {' or '.join(sorted(exp))}, but: "
                      f"{[o.value if o.kind == 'return' else 'raises ' + str(o.exc) for o in outs][:2]}", key=f"program {key}")
            continue
        text, why = concrete(outs)
        if text is None:
            ctx.bad(rule, fn, f"generate_code[{key}] {why}", key=f"program {key}")
            continue
        # what the black boxes were asked
        by = {}
        for short, b in pl.calls:
            by.setdefault(short, []).append(b)
        sep_free = pl.target_str.replace(",", "")
        spin_free = pl.spin.replace(",", "") if pl.spin is not None else None
        ex = by.get("exploit_perm_sym", [])
        want_ex = dict(expr=pl.expr, target_indices=pl.target_str, target_spin=pl.spin,
                       bra_ket_sym=pl.opts.get("bra_ket_sym", 0),
                       antisymmetric_result_tensor=pl.opts.get("antisymmetric_result_tensor", True))
        got_ex = [{k: b.get(k) for k in want_ex} for b in ex]
        ctx.check(rule, fn, got_ex == [want_ex], f"{key}: symmetry analysis of the expression with the given targets, spin, "
                  "bra-ket symmetry and tensor class",
                  f"generate_code[{key}]: exploit_perm_sym is called with {got_ex}, expected once with {want_ex}",
                  key=f"exploit args {key}")
        builder = "optimize_contractions" if optimize else "unoptimized_contraction"
        other = "unoptimized_contraction" if optimize else "optimize_contractions"
        want_b = []
        # every term that holds a tensor or delta (with or without indices) gets a scheme; pure number/symbol terms do not
        for t in (t for _, ts in pl.classes for t in ts if t.attrs["idx"] or term_operands(t)):
            d = dict(term=t, target_indices=sep_free, target_spin=spin_free)
            if optimize:
                d.update(max_itmd_dim=pl.opts.get("max_itmd_dim"),
                         max_n_simultaneous_contracted=pl.opts.get("max_n_simultaneous_contracted"))
            want_b.append(d)
        got_b = [{k: b.get(k) for k in want_b[0]} for b in by.get(builder, [])] if want_b else by.get(builder, [])
        hide = lambda ds: [{k: v for k, v in g.items() if k != "term"} for g in ds]
        ctx.check(rule, fn, got_b == want_b and not by.get(other),
                  f"{key}: {builder} once per term with the separator-free targets, spin" + (" and limits" if optimize else ""),
                  f"generate_code[{key}] (optimize_contraction_scheme={optimize}): {builder} is called with "
                  f"{hide(got_b)}, expected {hide(want_b)} for the terms in order; {other} is called {len(by.get(other, []))} times",
                  key=f"{builder} args {key}")
        # the program
        operands = [op for _, ts in pl.classes for t in ts for op in term_operands(t)]
        symbols = {s_: symbol_value(s_) for _, ts in pl.classes for t in ts for s_, _ in t.attrs["_symbols"]}
        env = token_env(backend, operands, symbols=symbols)
        try:
            got = em.run_program(text, env, backend, target, ptok)
            err = None
        except em.EvalError as e:
            got, err = None, str(e)
        d = None if err else em.first_difference(got, want)
        ctx.check(rule, fn, not err and d is None, f"{key}: the emitted program evaluates to the expression",
                  f"generate_code[{key}]: the emitted program " +
                  (f"is not executable: {err}" if err else f"differs from the expression at {d[0]}: {d[1]} instead of {d[2]}" if d else "")
                  + f"; program: {text[:600]!r}", key=f"program {key}")
    return n


def r17e(ctx):
    rule = "R17e"
    fn = ctx.model.fn(GC + "generate_code")
    w = World()
    cname = Names(ctx.model)
    n = 0
    for label, pl in pipelines(ctx, w, cname):
        n += check_pipeline(ctx, rule, fn, label, pl)
    for label, pl in random_pipelines(ctx, w, cname, 120 if ctx.tier == "thorough" else 20):
        n += check_pipeline(ctx, rule, fn, label, pl)
    ctx.floor(rule, "programs generated", n, 56)
    # input guard
    sx = make_sx(ctx, "generate_code")
    for bad_expr, what in (("X_ia", "a string"), (Rec("expr_container:Term", "a term"), "a Term")):
        outs = sx.run(fn, lambda: dict(expr=bad_expr, target_indices="ia"))
        ctx.check(rule, fn, bool(outs) and all(o.kind == "raise" and o.exc == "Inputerror" for o in outs), f"{what} instead of an Expr refused",
                  f"generate_code accepts {what} as expression: {outs}", key=f"input {what}")
    # exactly one outer contraction
    i, j, a, b = w("ijab")
    t = term_rec(w, SNum(1), [], [("A", (i, a), 1), ("B", (j, b), 1)])
    s0 = contraction(cname, 80, ["A_ov"], [(i, a)], (i, a, j, b))
    s1 = contraction(cname, 81, ["B_ov"], [(j, b)], (i, a, j, b))
    pl = Pipeline(ctx, w, cname, "iajb", None, [((), [t])], {id(t): [s0, s1]}, (i, a, j, b))
    outs = pl.run("einsum")
    ctx.check(rule, fn, bool(outs) and all(o.kind == "raise" for o in outs), "a scheme with two results is refused",
              f"generate_code emits a program for a scheme with two unconnected contractions (one of them is lost): {outs}",
              key="one outer")


# ------------------------------------------------------------------------------- R17f

def r17f(ctx):
    """unoptimized_contraction: the hyper-contraction generate_code emits directly."""
    rule = "R17f"
    fn = ctx.model.fn(OC + "unoptimized_contraction")
    w = World()
    i, j, a, b = w("ijab")
    cases = [("x_ia^2 y_a", term_rec(w, SNum(2), [("c", 1)], [("x", (i, a), 2), ("y", (a,), 1)]), "i", None, (i,)),
             ("x_ia delta_ij^3", term_rec(w, SNum(-1), [], [("x", (i, a), 1), ("delta", (i, j), 3)]), "ja", None, (j, a)),
             ("A_ia B_jb", term_rec(w, SNum(1), [], [("A", (i, a), 1), ("B", (j, b), 1)]), "iajb", None, (i, a, j, b)),
             ("A_ia", term_rec(w, SNum(1), [], [("A", (i, a), 1)]), "ai", None, (a, i)),
             ("spin labelled A_ia B_ia", term_rec(w, SNum(1), [], [("A", w("ia", "ab"), 1), ("B", w("ia", "ab"), 1)]), "ai", "ba",
              tuple(reversed(w("ia", "ab")))),
             # targets given explicitly: every other index is summed, also one that occurs only once
             ("sum_a A_ia", term_rec(w, SNum(1), [], [("A", (i, a), 1)]), "i", None, (i,)),
             ("sum_ab A_ia B_jb", term_rec(w, SNum(1), [], [("A", (i, a), 1), ("B", (j, b), 1)]), "ji", None, (j, i)),
             ("sum_ija A_ia B_j", term_rec(w, SNum(3), [], [("A", (i, a), 1), ("B", (j,), 1)]), "", None, ())]
    for label, term, tstr, spin, tgt in cases:
        made = []

        def get_symbols(sx, a_, kw):
            b_ = sx.bind(ctx.model.fn("indices:get_symbols"), a_, kw, fill_defaults=True)
            if not isinstance(b_.get("indices"), str):
                return NotImplemented
            return list(w(b_["indices"], b_.get("spins")))

        def new_contraction(sx, a_, kw):
            b_ = sx.bind(ctx.model.fn(CO + "Contraction.__init__"), [None] + list(a_), kw, fill_defaults=True)
            made.append(b_)
            return Rec(CO + "Contraction", f"contraction{len(made)}", **{k: v for k, v in b_.items() if k != "self"})
        cname = Names(ctx.model)
        sx = make_sx(ctx, "unoptimized_contraction", hooks={"get_symbols": get_symbols, "Contraction": new_contraction})
        outs = sx.run(fn, lambda: dict(term=term, target_indices=tstr, target_spin=spin))
        key = f"unoptimized {label}"
        ok = len(outs) == 1 and outs[0].kind == "return" and isinstance(outs[0].value, (list, tuple)) and len(outs[0].value) == 1 \
            and len(made) == 1
        if not ok:
            ctx.bad(rule, fn, f"unoptimized_contraction({label}) does not return a list with one Contraction: {outs}", key=key)
            continue
        b_ = made[0]
        try:
            got = sorted((n, tuple(x.label for x in ix)) for n, ix in zip(list(b_["names"]), list(b_["indices"])))
            aligned = len(list(b_["names"])) == len(list(b_["indices"]))
        except (TypeError, AttributeError):
            got, aligned = None, False
        want = sorted((o.attrs["_long"], tuple(x.label for x in o.attrs["idx"])) for o in term.attrs["objects"]
                      if o.attrs["_kind"] in ("tensor", "delta") for _ in range(o.attrs["exponent"]))
        ctx.check(rule, fn, aligned and got == want, f"{label}: operands = tensors and deltas, exponent-many times",
                  f"unoptimized_contraction({label}): the hyper-contraction has the operands {got}, expected {want}", key=key)
        tt = b_.get("term_target_indices")
        ctx.check(rule, fn, isinstance(tt, (tuple, list)) and tuple(tt) == tgt, f"{label}: requested target indices {tstr}",
                  f"unoptimized_contraction({label}): term target indices {tt} instead of {[x.label for x in tgt]}", key=key + " target")
        # the hyper-contraction sums every index that is not a requested target index (also one that occurs once)
        try:
            c = contraction(cname, 1, list(b_["names"]), [tuple(ix) for ix in b_["indices"]], tuple(tt), ext_of(b_))
            summed = sorted(x.label for x in c.attrs["contracted"])
        except (TypeError, KeyError):
            summed = None
        want_s = sorted({x.label for o in term.attrs["objects"] for x in o.attrs["idx"] if x not in tgt})
        ctx.check(rule, fn, summed == want_s, f"{label}: the contraction sums {want_s}",
                  f"unoptimized_contraction({label}, targets {tstr or 'none'}): the contraction built with external_indices="
                  f"{b_.get('external_indices')!r} sums {summed}, but every index that is not a target index has to be summed: {want_s}",
                  key=key + " summed")
    # refusals
    bad = term_rec(w, SNum(1), [], [("x", (i, a), -1)])
    sx = make_sx(ctx, "unoptimized_contraction", hooks={"get_symbols": lambda sx, a_, kw: list(w(a_[0]))})
    outs = sx.run(fn, lambda: dict(term=bad, target_indices="ia", target_spin=None))
    ctx.check(rule, fn, refused(outs), "negative exponent refused", f"a tensor with exponent -1 is contracted: {outs}", key="unoptimized division")


def r17g(ctx):
    """Emitted operand names keep tensor kinds apart: a Kronecker delta must not get the name of a configured tensor."""
    rule = "R17g"
    from . import c11
    from ..symex import Obj as _Obj
    fn = ctx.model.fn("expr_container:Obj.longname")
    w = c11.TensorWorld(ctx.model)
    fields = c11.class_attrs(ctx.model.cls("tensor_names:TensorNames"))
    n = 0
    for (p, q, sp) in (("i", "j", "oo"), ("a", "b", "vv"), ("i", "a", "ov")):
        x, y = c11.tensor_index(p), c11.tensor_index(q)
        d = _Obj("sympy_objects:KroneckerDelta", "<delta>")
        d.attrs.update(args=(x, y), is_number=False)
        dname = w.longname(d)
        for field, tname in sorted(fields.items()):
            if not isinstance(tname, str) or field in ("gs_amplitude", "gs_density", "left_adc_amplitude", "right_adc_amplitude"):
                continue
            for kind, groups in (("AntiSymmetricTensor", [(x,), (y,)]), ("NonSymmetricTensor", [(x, y)])):
                try:
                    t, _ = w.construct(kind, tname, groups, 0 if kind == "AntiSymmetricTensor" else None)
                    tn = w.longname(t)
                except AnalysisError:
                    continue
                n += 1
                ctx.check(rule, fn, tn != dname, f"delta_{p}{q} ({dname}) and {field} tensor {tname}_{p}{q} ({tn}) have different emitted names",
                          f"the Kronecker delta delta_{p}{q} and the configured {field} tensor `{tname}` on the same indices are both emitted "
                          f"as `{dname}`: in the generated contraction code the delta and the tensor are the same operand",
                          key=f"delta name collision {field} {sp} {kind}")
    ctx.floor(rule, "delta/tensor name pairs", n, 10)


def r17h(ctx):
    """The symmetry classes generate_code prints ("Apply (1 +- P) to:") for expressions that contain the same
    contribution more than once (duplicates up to the names of contracted indices, the normal state of raw results):
    re-expanding the classes exploit_perm_sym returns gives the expression, no term twice.  Evaluated with the abstract
    term worlds of C10 (terms t_k = coefficient * monomial, permutation oracle)."""
    rule = "R17h"
    from . import c10
    fn = ctx.model.fn("sort_expr:exploit_perm_sym")
    X, Zt = c10.X, c10.Z
    m_ij, m_ji = (X("a", "i"), Zt("b", "j")), (X("a", "j"), Zt("b", "i"))
    worlds = [
        ("X_ij - X_ji - X_ji", [(1, m_ij), (-1, m_ji), (-1, m_ji)], {("ij",): -1}, True),
        ("X_ij + X_ij - X_ji", [(1, m_ij), (1, m_ij), (-1, m_ji)], {("ij",): -1}, True),
        ("X_ij - X_ji - X_ji + X_ij", [(1, m_ij), (-1, m_ji), (-1, m_ji), (1, m_ij)], {("ij",): -1}, True),
        ("X_ij + X_ji + X_ji (symmetric)", [(1, m_ij), (1, m_ji), (1, m_ji)], {("ij",): 1}, False),
        ("X_ij - X_ji - X_ji - X_ji", [(1, m_ij), (-1, m_ji), (-1, m_ji), (-1, m_ji)], {("ij",): -1}, True),
    ]
    n = 0
    for note, terms, symm, anti in worlds:
        w = c10.World(f"dup{n}", terms)
        scen = c10._ExploitScen(w, symm, target="ijab")
        what = f"exploit_perm_sym[{note}]"
        outs = c10._run_exploit(ctx, scen, lambda: dict(expr=scen.expr(), antisymmetric_result_tensor=anti), what)
        o = c10.one_return(ctx, rule, fn, outs, what, key=f"duplicates {note} shape")
        n += 1
        if o is None or not isinstance(o.value, dict):
            if o is not None:
                ctx.bad(rule, fn, f"{what}: does not return the dict of classes", key=f"duplicates {note} return")
            continue
        total, ok = {}, True
        for key, val in o.value.items():
            parts = c10._parts_of(val)
            if parts is None or not isinstance(key, tuple):
                ok = False
                ctx.bad(rule, fn, f"{what}: class {show(key)} is not a plain sum of terms: {show(val)[:200]}", key=f"duplicates {note} part")
                continue
            for i, c in parts.items():
                total = c10.lin_add(total, w.term(i), c)
                for pf in key:
                    perms, f = pf if isinstance(pf, tuple) and len(pf) == 2 else (None, None)
                    if perms in symm:
                        total = c10.lin_add(total, w.permuted(i, perms), c * f)
                    else:
                        ok = False
        diff = c10.lin_add(total, w.total(), -1)
        ctx.check(rule, fn, ok and total == w.total(), f"{what}: the classes re-expand to the expression",
                  f"{what}: applying the printed operators to the returned classes "
                  f"{ {show(k): show(v) for k, v in o.value.items()} } does not give the {len(terms)} input terms back "
                  f"(difference {c10._show_lin(diff)}): a contribution is emitted twice or lost", key=f"duplicates {note}")
    ctx.floor(rule, "expressions with duplicate terms", n, 5)


# ------------------------------------------------------------------------------- R17i

# the first excitation class (holes, particles) of the five ADC variants; class n has n - 1 further particle-hole pairs
ADC_VARIANTS = {"pp": (1, 1), "ip": (1, 0), "ea": (0, 1), "dip": (2, 0), "dea": (0, 2)}
OCC_NAMES, VIRT_NAMES, GEN_NAMES = "ijklmno", "abcdefgh", "pqrs"


def amplitude_blocks(max_indices):
    """[(variant, class number n, holes, particles)]: every block of the amplitude vectors of the five ADC variants with
    at most ``max_indices`` indices.  The n-th block of the vector of a variant is addressed as u{l|r}{n}."""
    out = []
    for variant, (h1, p1) in ADC_VARIANTS.items():
        n = 1
        while h1 + p1 + 2 * (n - 1) <= max_indices:
            out.append((variant, n, h1 + n - 1, p1 + n - 1))
            n += 1
    return out


def _longname_world(ctx, renamed):
    from . import c11
    return c11.TensorWorld(ctx.model, renamed)


def _power(tensor, exponent):
    """tensor**exponent as sympy holds it: a Pow with args (base, exponent)."""
    from ..symex import Obj as _Obj
    p = _Obj(None, f"<{tensor.name}**{exponent}>")
    p.attrs.update(_classes=("Pow",), args=(tensor, exponent), is_number=False)
    return p


def _indices_of(letters, spin=None):
    from . import c11
    return tuple(c11.mk_index(ch, None, spin[k] if spin else "") for k, ch in enumerate(letters))


def r17i(ctx):
    """Obj.longname, the operand names of the emitted program, as a decision table: the library's own tensor
    constructors and Obj.longname / Obj.base / Obj.space / the tensor_names predicates are evaluated on every kind of
    object; the expected names are stated here independently (block of the amplitude vector by enumeration of the
    excitation classes of the five ADC variants; t-amplitudes by the number of upper indices and the order; densities
    by order and block; t2eri; other tensors by block)."""
    rule = "R17i"
    from . import c11
    from ..symex import Obj as _Obj
    fn = ctx.model.fn("expr_container:Obj.longname")
    thorough = ctx.tier == "thorough"
    worlds = [("default names", None, dict(left="X", right="Y", t="t", p="p", eri="V")),
              ("renamed tensors", {"left_adc_amplitude": "Lv", "right_adc_amplitude": "Rv", "gs_amplitude": "amp",
                                   "gs_density": "rho", "eri": ERI, "fock": FOCK},
               dict(left="Lv", right="Rv", t="amp", p="rho", eri=ERI))]
    n_amp = n_other = 0

    def name_of(w, sympy_obj, default):
        outs = w.sx.run(fn, lambda: dict(self=w.container(sympy_obj), use_default_names=default))
        if len(outs) != 1:
            return f"<{len(outs)} outcomes>"
        return outs[0].value if outs[0].kind == "return" else f"<raises {outs[0].exc}>"

    def build(w, kind, name, upper, lower, spin=None, bks=0):
        up = _indices_of(upper, spin[:len(upper)] if spin else None)
        lo = _indices_of(lower, spin[len(upper):] if spin else None)
        if kind == "NonSymmetricTensor":
            return w.construct(kind, name, [up + lo], None)[0]
        return w.construct(kind, name, [up, lo], bks)[0]

    def block_of(w, tensor):
        return "".join(x.attrs["space"][0] for x in w.read_idx(tensor))

    def decide(w, tag, what, sympy_obj, want, key, defaults=(False, True)):
        for default in defaults:
            exp = want[default] if isinstance(want, dict) else want
            got = name_of(w, sympy_obj, default)
            ctx.check(rule, fn, got == exp, f"{tag}: {what} -> {exp}" + (" (default names)" if default else ""),
                      f"Obj.longname(use_default_names={default}) [{tag}]: {what} is named `{got}` in the generated code, expected `{exp}`",
                      key=f"{key} {tag} default={default}")

    for tag, renamed, nm_ in worlds:
        w = _longname_world(ctx, renamed)
        # ---- ADC amplitude vectors: block number by enumeration of the excitation classes
        for variant, n, holes, parts in amplitude_blocks(8 if thorough else 6):
            occ, virt = OCC_NAMES[:holes], VIRT_NAMES[:parts]
            for side, lr in (("left", "l"), ("right", "r")):
                for placement, (upper, lower) in (("virt upper", (virt, occ)), ("occ upper", (occ, virt))):
                    t = build(w, "Amplitude", nm_[side], upper, lower)
                    n_amp += 1
                    decide(w, tag, f"{variant}-ADC {side} amplitude, {holes}h{parts}p block ({placement})", t, f"u{lr}{n}",
                           key=f"amplitude {variant} {holes}h{parts}p {side} {placement}")
            # squared amplitude, spin labelled amplitude, amplitude held as another tensor class: same operand
            t = build(w, "Amplitude", nm_["right"], virt, occ)
            decide(w, tag, f"{variant}-ADC right amplitude squared, {holes}h{parts}p", _power(t, 2), f"ur{n}",
                   key=f"amplitude {variant} {holes}h{parts}p squared", defaults=(False,))
            if holes + parts <= 4:
                t = build(w, "Amplitude", nm_["left"], virt, occ, spin=("ab" * 4)[:holes + parts])
                decide(w, tag, f"{variant}-ADC left amplitude with spin, {holes}h{parts}p", t, f"ul{n}",
                       key=f"amplitude {variant} {holes}h{parts}p spin", defaults=(False,))
                t = build(w, "NonSymmetricTensor", nm_["right"], occ, virt)
                decide(w, tag, f"{variant}-ADC right amplitude (NonSymmetricTensor), {holes}h{parts}p", t, f"ur{n}",
                       key=f"amplitude {variant} {holes}h{parts}p nonsym", defaults=(False,))
        # ---- ground state amplitudes: <base><number of upper indices>[_<order and cc>]
        base = nm_["t"]
        for ext in ("", "1", "2", "3", "12", "cc", "1cc", "2cc"):
            for rank in (1, 2, 3):
                t = build(w, "Amplitude", base + ext, VIRT_NAMES[:rank], OCC_NAMES[:rank])
                n_other += 1
                decide(w, tag, f"t-amplitude {base + ext} of rank {rank}", t,
                       {False: f"{base}{rank}" + (f"_{ext}" if ext else ""), True: f"t{rank}" + (f"_{ext}" if ext else "")},
                       key=f"t-amplitude {ext or 'no order'} rank {rank}")
        for upper, lower in (("a", "ij"), ("ab", "i"), ("", "ij")):
            t = build(w, "Amplitude", base + "2", upper, lower)
            n_other += 1
            decide(w, tag, f"t-amplitude {base}2 with {len(upper)} upper and {len(lower)} lower indices", t, "<raises RuntimeError>",
                   key=f"t-amplitude unequal {len(upper)}/{len(lower)}")
        # ---- ground state densities: <base>0[_<order>]_<block>
        base = nm_["p"]
        for ext in ("", "1", "2", "12"):
            for upper, lower in (("i", "j"), ("i", "a"), ("a", "i"), ("a", "b"), ("ij", "ab"), ("p", "q")):
                t = build(w, "AntiSymmetricTensor", base + ext, upper, lower, bks=1)
                sp = block_of(w, t)             # the block is read off the tensor's own index order
                n_other += 1
                decide(w, tag, f"density {base + ext} block {sp}", t,
                       {False: f"{base}0_" + (f"{ext}_" if ext else "") + sp, True: "p0_" + (f"{ext}_" if ext else "") + sp},
                       key=f"density {ext or 'no order'} {sp}")
        t = build(w, "AntiSymmetricTensor", base + "2", "ij", "a")
        decide(w, tag, f"density {base}2 with 2 upper and 1 lower index", t, "<raises RuntimeError>", key="density unequal")
        # ---- t2eri_<n>, t2sq and every other tensor (name and block), look-alike names of the special tensors
        rows = [("AntiSymmetricTensor", "t2eri3", "ij", "ka", "t2eri_3"), ("AntiSymmetricTensor", "t2eri12", "ij", "ka", "t2eri_12"),
                ("AntiSymmetricTensor", "t2sq", "ia", "jb", "t2sq"),
                ("AntiSymmetricTensor", nm_["eri"], "ij", "ab", f"{nm_['eri']}_oovv"), ("AntiSymmetricTensor", nm_["eri"], "ia", "jb", f"{nm_['eri']}_ovov"),
                ("AntiSymmetricTensor", nm_["eri"], "pq", "rs", f"{nm_['eri']}_gggg"), ("AntiSymmetricTensor", "f", "i", "a", "f_ov"),
                ("AntiSymmetricTensor", "f", "a", "i", "f_vo"), ("SymmetricTensor", "A", "ij", "ab", "A_oovv"),
                ("NonSymmetricTensor", "B", "ia", "jp", "B_ovog"), ("NonSymmetricTensor", "B", "i", "", "B_o"),
                ("AntiSymmetricTensor", "C", "ijk", "abc", "C_ooovvv"),
                # look-alikes: a name that merely starts with / contains a special name is an ordinary tensor
                ("Amplitude", nm_["right"] + "2", "a", "ij", f"{nm_['right']}2_voo"), ("Amplitude", "u" + nm_["left"], "a", "i", f"u{nm_['left']}_vo"),
                ("Amplitude", nm_["t"] + "x", "ab", "ij", f"{nm_['t']}x_vvoo"), ("Amplitude", nm_["t"] + "2x", "a", "i", f"{nm_['t']}2x_vo"),
                ("AntiSymmetricTensor", nm_["p"] + "x", "i", "a", f"{nm_['p']}x_ov"), ("AntiSymmetricTensor", nm_["p"] + "2cc", "i", "a", f"{nm_['p']}2cc_ov"),
                ("AntiSymmetricTensor", "xt2eri3", "ij", "ka", "xt2eri3_ooov"), ("AntiSymmetricTensor", "t2sqx", "ia", "jb", "t2sqx_ovov")]
        if renamed:      # the default literals carry no meaning once the tensors are renamed
            rows += [("Amplitude", "X", "a", "ij", "X_voo"), ("Amplitude", "Y", "", "ij", "Y_oo"), ("Amplitude", "t2", "ab", "ij", "t2_vvoo"),
                     ("AntiSymmetricTensor", "p2", "i", "a", "p2_ov"), ("Amplitude", "t1", "a", "ij", "t1_voo")]
        for kind, name, upper, lower, want in rows:
            t = build(w, kind, name, upper, lower)
            # the block string is read off the tensor's own index order
            sp_built = block_of(w, t)
            if "_" in want and want.rsplit("_", 1)[1] and set(want.rsplit("_", 1)[1]) <= set("ovg"):
                want = want.rsplit("_", 1)[0] + "_" + sp_built
            n_other += 1
            decide(w, tag, f"{kind} {name}^{upper}_{lower}", t, want, key=f"tensor {kind} {name} {upper}|{lower}")
        t = build(w, "AntiSymmetricTensor", "f", "i", "a")
        decide(w, tag, "f_ov cubed", _power(t, 3), "f_ov", key="tensor power", defaults=(False,))
        # ---- deltas: one name per block (the literal is the interface R17a-R17e assume: d_<block>); symbols: no operand
        seen = {}
        for p_, q_ in (("i", "j"), ("a", "b"), ("i", "a"), ("p", "q")):
            d = _Obj("sympy_objects:KroneckerDelta", f"<delta {p_}{q_}>")
            d.attrs.update(args=_indices_of(p_ + q_), is_number=False)
            sp = "".join(c11.space_name(ch)[0] for ch in p_ + q_)
            n_other += 1
            decide(w, tag, f"delta_{p_}{q_}", d, f"d_{sp}", key=f"delta {sp}")
            seen[sp] = name_of(w, d, False)
        s = _Obj(None, "<Symbol x>")
        s.attrs.update(_classes=("Symbol",), name="x", is_number=False, args=())
        decide(w, tag, "a symbol (no operand of a contraction)", s, None, key="symbol")
    ctx.floor(rule, "amplitude blocks named", n_amp, 80)
    ctx.floor(rule, "other objects named", n_other, 100)


def run(ctx):
    for r, f in (("R17a", r17a), ("R17b", r17b), ("R17c", r17c), ("R17d", r17d), ("R17e", r17e), ("R17f", r17f), ("R17g", r17g), ("R17h", r17h),
                 ("R17i", r17i)):
        if ctx.want(r):
            f(ctx)
    # the "Apply (1 +- P..) to:" operators come from exploit_perm_sym: its conservation law (R10a/R10b/R10c of C10)
    # is a clause of this property too
    if ctx.want("R10a") or ctx.want("R10b") or ctx.want("R10c"):
        from . import c10
        c10.r10_exploit(ctx)
        if ctx.want("R10c"):
            c10.r10c_exploit(ctx)
    if ctx.want("R16a"):
        c16.r16a(ctx)
    if ctx.want("R16b"):
        c16.r16b(ctx)
    if ctx.want("R16g"):
        c16.r16g(ctx)
