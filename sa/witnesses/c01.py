"""Witnesses of C01 (text edits of adcgen files; expect = rule id(s) for breaking edits, None for behaviour-preserving
ones). Regenerated as data in round 5 (anchors re-based on /repo 56d0b4d)."""
F = "func.py"
WITNESSES = [{'id': 'c01-table-general',
  'prop': 'C01',
  'file': 'func.py',
  'expect': 'R01a',
  'old': '        elif space_p == "v" or space_q == "v":\n'
         '            return KroneckerDelta(p_idx, q_idx)\n'
         '        else:\n'
         '            # use a registered generic index: its name is unique, i.e., it\n'
         '            # can not be confused with any other index when the result is\n'
         '            # printed (and imported again)\n'
         '            a = Indices().get_generic_indices(virt=1)[("virt", "")][0]\n'
         '            return (KroneckerDelta(p_idx, q_idx) *\n'
         '                    KroneckerDelta(q_idx, a))\n',
  'new': '        else:\n            return KroneckerDelta(p_idx, q_idx)\n'},
 {'id': 'c01-table-swap-fermi',
  'prop': 'C01',
  'file': 'func.py',
  'expect': 'R01a',
  'old': 'i = Indices().get_generic_indices(occ=1)[("occ", "")][0]',
  'new': 'i = Indices().get_generic_indices(virt=1)[("virt", "")][0]'},
 {'id': 'c01-table-and',
  'prop': 'C01',
  'file': 'func.py',
  'expect': 'R01a',
  'old': '        if space_p == "v" or space_q == "v":\n            return S.Zero',
  'new': '        if space_p == "v" and space_q == "v":\n            return S.Zero'},
 {'id': 'c01-spin-guard',
  'prop': 'C01',
  'file': 'func.py',
  'expect': 'R01a',
  'old': 'if p.state.spin or q.state.spin:',
  'new': 'if p.state.spin and q.state.spin:'},
 {'id': 'c01-sign-inverted',
  'prop': 'C01',
  'file': 'func.py',
  'expect': 'R01b',
  'old': 'if not i % 2:  # introduce',
  'new': 'if i % 2:  # introduce'},
 {'id': 'c01-remaining-off',
  'prop': 'C01',
  'file': 'func.py',
  'expect': 'R01b',
  'old': 'remaining = op_string[1:i] + op_string[i+1:]',
  'new': 'remaining = op_string[1:i] + op_string[i:]'},
 {'id': 'c01-range-short',
  'prop': 'C01',
  'file': 'func.py',
  'expect': 'R01b',
  'old': 'for i in range(1, len(op_string)):',
  'new': 'for i in range(1, len(op_string) - 1):'},
 {'id': 'c01-prefilter-general',
  'prop': 'C01',
  'file': 'func.py',
  'expect': 'R01c',
  'old': 'n_annihilate = annihilate[space] + annihilate["general"]',
  'new': 'n_annihilate = annihilate[space]'},
 {'id': 'c01-prefilter-ge',
  'prop': 'C01',
  'file': 'func.py',
  'expect': 'R01c',
  'old': 'if n_create - n_annihilate > 0:',
  'new': 'if n_create - n_annihilate >= 0:'},
 {'id': 'c01-rules-name-only',
  'prop': 'C01',
  'file': 'rules.py',
  'expect': 'R01d',
  'old': '            if any(obj.name in self._forbidden_blocks\n'
         '                   and obj.space in self._forbidden_blocks[obj.name]\n'
         '                   for obj in term.objects):',
  'new': '            if any(obj.name in self._forbidden_blocks\n                   for obj in term.objects):'},
 {'id': 'c01-rules-all',
  'prop': 'C01',
  'file': 'rules.py',
  'expect': 'R01d',
  'old': '            if any(obj.name in self._forbidden_blocks',
  'new': '            if all(obj.name in self._forbidden_blocks'},
 {'id': 'c01-wicks-cpart-dropped',
  'prop': 'C01',
  'file': 'func.py',
  'expect': 'R01d',
  'old': 'result = (Mul(*c_part) * result).expand()',
  'new': 'result = result.expand()'},
 {'id': 'c01-f11-revert',
  'prop': 'C01',
  'file': 'func.py',
  'expect': 'R01d',
  'old': '    else:  # neither add, Mul, NO or Operator -> maybe a number or a tensor\n        result = expr',
  'new': '    else:  # neither add, Mul, NO or Operator -> maybe a number or a tensor\n        return expr'},
 {'id': 'c01-remove-by-value',
  'prop': 'C01',
  'file': 'func.py',
  'expect': 'R01b',
  'old': '            remaining = op_string[1:i] + op_string[i+1:]',
  'new': '            remaining = list(op_string[1:])\n            remaining.remove(op_string[i])'},
 {'id': 'c01-ok-rename',
  'prop': 'C01',
  'file': 'func.py',
  'expect': None,
  'old': '        c = _contraction(op_string[0], op_string[i])\n'
         '        if c is S.Zero:\n'
         '            continue\n'
         '        if not i % 2:  # introduce -1 for swapping operators\n'
         '            c *= S.NegativeOne',
  'new': '        contr = _contraction(op_string[0], op_string[i])\n'
         '        if contr is S.Zero:\n'
         '            continue\n'
         '        if i % 2 == 0:\n'
         '            contr = contr * S.NegativeOne\n'
         '        c = contr'},
 {'id': 'c01-ok-table-reorder',
  'prop': 'C01',
  'file': 'func.py',
  'expect': None,
  'old': '        if space_p == "o" or space_q == "o":\n'
         '            return S.Zero\n'
         '        elif space_p == "v" or space_q == "v":\n'
         '            return KroneckerDelta(p_idx, q_idx)',
  'new': '        if "o" in (space_p, space_q):\n'
         '            return S.Zero\n'
         '        elif space_q == "v" or space_p == "v":\n'
         '            return KroneckerDelta(q_idx, p_idx)'},
 {'id': 'c01-ok-rules-loop',
  'prop': 'C01',
  'file': 'rules.py',
  'expect': None,
  'old': '            if any(obj.name in self._forbidden_blocks\n'
         '                   and obj.space in self._forbidden_blocks[obj.name]\n'
         '                   for obj in term.objects):\n'
         '                continue\n'
         '            res += term',
  'new': '            forbidden = any(obj.name in self._forbidden_blocks\n'
         '                            and obj.space in self._forbidden_blocks[obj.name]\n'
         '                            for obj in term.objects)\n'
         '            if not forbidden:\n'
         '                res += term'},
 {'id': 'c01-contraction-args-swapped',
  'prop': 'C01',
  'file': 'func.py',
  'expect': ['R01b', 'R01e'],
  'old': 'c = _contraction(op_string[0], op_string[i])',
  'new': 'c = _contraction(op_string[i], op_string[0])'},
 {'id': 'c01-opstring-reversed',
  'prop': 'C01',
  'file': 'func.py',
  'expect': ['R01d', 'R01e'],
  'old': '                op_string.append(factor)',
  'new': '                op_string.insert(0, factor)'},
 {'id': 'c01-fresh-index-unrestricted',
  'prop': 'C01',
  'file': 'func.py',
  'expect': 'R01a',
  'old': 'a = Indices().get_generic_indices(virt=1)[("virt", "")][0]',
  'new': 'a = Indices().get_generic_indices(general=1)[("general", "")][0]'},
 {'id': 'c01-fresh-delta-only',
  'prop': 'C01',
  'file': 'func.py',
  'expect': 'R01a',
  'old': '            return (KroneckerDelta(p_idx, q_idx) *\n                    KroneckerDelta(q_idx, i))',
  'new': '            return KroneckerDelta(q_idx, i)'},
 {'id': 'c01-zero-break',
  'prop': 'C01',
  'file': 'func.py',
  'expect': 'R01b',
  'old': '        if c is S.Zero:\n            continue',
  'new': '        if c is S.Zero:\n            break'},
 {'id': 'c01-e2e-prefilter-substring',
  'prop': 'C01',
  'file': 'func.py',
  'expect': 'R01e',
  'old': '    if not _has_fully_contracted_contribution(op_string):',
  'new': '    if not _has_fully_contracted_contribution(op_string[1:]):'},
 {'id': 'c01-rules-assumptions-lost',
  'prop': 'C01',
  'file': 'rules.py',
  'expect': 'R01d',
  'old': 'res = e.Expr(0, **expr.assumptions)',
  'new': 'res = e.Expr(0)'},
 {'id': 'c01-rules-inverted',
  'prop': 'C01',
  'file': 'rules.py',
  'expect': 'R01d',
  'old': '            if any(obj.name in self._forbidden_blocks',
  'new': '            if not any(obj.name in self._forbidden_blocks'},
 {'id': 'c01-rules-term-twice',
  'prop': 'C01',
  'file': 'rules.py',
  'expect': 'R01d',
  'old': '            res += term',
  'new': '            res += term\n            res += term'},
 {'id': 'c01-rules-guard-removed',
  'prop': 'C01',
  'file': 'rules.py',
  'expect': 'R01d',
  'old': '        if not isinstance(expr, e.Expr):\n'
         '            raise TypeError(f"Expression needs to be provided as {e.Expr}")\n',
  'new': ''},
 {'id': 'c01-rules-empty-none-only',
  'prop': 'C01',
  'file': 'rules.py',
  'expect': 'R01d',
  'old': 'return not bool(self._forbidden_blocks)',
  'new': 'return self._forbidden_blocks is None'},
 {'id': 'c01-wicks-flag-ignored',
  'prop': 'C01',
  'file': 'func.py',
  'expect': 'R01d',
  'old': '            if simplify_kronecker_deltas:\n                # The contraction of two general',
  'new': '            if True:\n                # The contraction of two general'},
 {'id': 'c01-wicks-deltas-after-rules',
  'prop': 'C01',
  'file': 'func.py',
  'expect': 'R01d',
  'edits': [('            if simplify_kronecker_deltas:\n'
             '                # The contraction of two general indices p and q gives\n'
             '                # delta_{pq} * delta_{qi}, i.e., q occurs on two deltas and\n'
             '                # the Einstein sum convention applied to the contracted term\n'
             '                # identifies a target index q as contracted index.\n'
             '                # -> additionally protect the target indices of the term\n'
             '                #    before the contraction\n'
             '                target = _indices_on_single_object(expr)\n'
             '                result = Add(*[\n'
             '                    evaluate_deltas(\n'
             '                        term, target_idx=target + [\n'
             '                            s for s in _indices_on_single_object(term)\n'
             '                            if s not in target\n'
             '                        ]\n'
             '                    ) for term in Add.make_args(result)\n'
             '                ])\n',
             ''),
            ('    return rules.apply(Expr(result)).sympy',
             '    result = rules.apply(Expr(result)).sympy\n'
             '    if simplify_kronecker_deltas:\n'
             '        result = evaluate_deltas(result)\n'
             '    return result')]},
 {'id': 'c01-wicks-doit-plain',
  'prop': 'C01',
  'file': 'func.py',
  'expect': 'R01d',
  'old': 'expr = expr.doit(wicks=True).expand()',
  'new': 'expr = expr.doit().expand()'},
 {'id': 'c01-wicks-add-drops-rules',
  'prop': 'C01',
  'file': 'func.py',
  'expect': 'R01d',
  'old': '        return Add(*[wicks(term, rules=rules,\n'
         '                           simplify_kronecker_deltas=simplify_kronecker_deltas)',
  'new': '        return Add(*[wicks(term,\n                           simplify_kronecker_deltas=simplify_kronecker_deltas)'},
 {'id': 'c01-wicks-add-skips-first',
  'prop': 'C01',
  'file': 'func.py',
  'expect': 'R01d',
  'old': '                     for term in expr.args])',
  'new': '                     for term in expr.args[1:]])'},
 {'id': 'c01-wicks-rules-real',
  'prop': 'C01',
  'file': 'func.py',
  'expect': 'R01d',
  'old': 'return rules.apply(Expr(result)).sympy',
  'new': 'return rules.apply(Expr(result, real=True)).sympy'},
 {'id': 'c01-wicks-target-idx',
  'prop': 'C01',
  'file': 'func.py',
  'expect': 'R01e',
  'old': '                target = _indices_on_single_object(expr)\n',
  'new': '                target = []\n'},
 {'id': 'c01-wicks-cpart-twice',
  'prop': 'C01',
  'file': 'func.py',
  'expect': 'R01d',
  'old': 'result = (Mul(*c_part) * result).expand()',
  'new': 'result = (Mul(*c_part) * Mul(*c_part) * result).expand()'},
 {'id': 'c01-ok-table-driven',
  'prop': 'C01',
  'file': 'func.py',
  'expect': None,
  'old': '    if isinstance(p, F) and isinstance(q, Fd):\n'
         '        if space_p == "o" or space_q == "o":\n'
         '            return S.Zero\n'
         '        elif space_p == "v" or space_q == "v":\n'
         '            return KroneckerDelta(p_idx, q_idx)\n'
         '        else:\n'
         '            # use a registered generic index: its name is unique, i.e., it\n'
         '            # can not be confused with any other index when the result is\n'
         '            # printed (and imported again)\n'
         '            a = Indices().get_generic_indices(virt=1)[("virt", "")][0]\n'
         '            return (KroneckerDelta(p_idx, q_idx) *\n'
         '                    KroneckerDelta(q_idx, a))\n'
         '    elif isinstance(p, Fd) and isinstance(q, F):\n'
         '        if space_p == "v" or space_q == "v":\n'
         '            return S.Zero\n'
         '        elif space_p == "o" or space_q == "o":\n'
         '            return KroneckerDelta(p_idx, q_idx)\n'
         '        else:\n'
         '            i = Indices().get_generic_indices(occ=1)[("occ", "")][0]\n'
         '            return (KroneckerDelta(p_idx, q_idx) *\n'
         '                    KroneckerDelta(q_idx, i))\n'
         '    else:  # vanish if 2xAnnihilator or 2xCreator\n'
         '        return S.Zero\n',
  'new': '    table = {(True, False): ("o", "v", {"virt": 1}),\n'
         '             (False, True): ("v", "o", {"occ": 1})}\n'
         '    entry = table.get((isinstance(p, F), isinstance(q, F)))\n'
         '    if entry is None or isinstance(p, F) == isinstance(p, Fd) or isinstance(q, F) == isinstance(q, Fd):\n'
         '        return S.Zero\n'
         '    killed, kept, request = entry\n'
         '    spaces = (space_p, space_q)\n'
         '    if killed in spaces:\n'
         '        return S.Zero\n'
         '    contraction = KroneckerDelta(p_idx, q_idx)\n'
         '    if kept not in spaces:\n'
         '        (extra,), = Indices().get_generic_indices(**request).values()\n'
         '        contraction = contraction * KroneckerDelta(q_idx, extra)\n'
         '    return contraction\n'},
 {'id': 'c01-ok-delta-algebra',
  'prop': 'C01',
  'file': 'func.py',
  'expect': None,
  'old': '            return (KroneckerDelta(p_idx, q_idx) *\n                    KroneckerDelta(q_idx, a))',
  'new': '            return (KroneckerDelta(a, p_idx) *\n                    KroneckerDelta(q_idx, p_idx))'},
 {'id': 'c01-ok-running-sign',
  'prop': 'C01',
  'file': 'func.py',
  'expect': None,
  'old': '    for i in range(1, len(op_string)):\n'
         '        c = _contraction(op_string[0], op_string[i])\n'
         '        if c is S.Zero:\n'
         '            continue\n'
         '        if not i % 2:  # introduce -1 for swapping operators\n'
         '            c *= S.NegativeOne\n',
  'new': '    sign = S.NegativeOne\n'
         '    for i in range(1, len(op_string)):\n'
         '        sign = -sign\n'
         '        c = sign * _contraction(op_string[0], op_string[i])\n'
         '        if c is S.Zero:\n'
         '            continue\n'},
 {'id': 'c01-ok-remaining-filter',
  'prop': 'C01',
  'file': 'func.py',
  'expect': None,
  'old': 'remaining = op_string[1:i] + op_string[i+1:]',
  'new': 'remaining = [op for pos, op in enumerate(op_string) if pos not in (0, i)]'},
 {'id': 'c01-ok-running-sum',
  'prop': 'C01',
  'file': 'func.py',
  'expect': None,
  'edits': [('    result = []\n    for i in range(1, len(op_string)):',
             '    result = S.Zero\n    for i in range(1, len(op_string)):'),
            ('            result.append(c * _contract_operator_string(remaining))',
             '            result += c * _contract_operator_string(remaining)'),
            ('            result.append(c)\n    return Add(*result)', '            result += c\n    return result')]},
 {'id': 'c01-ok-prefilter-keyed-counts',
  'prop': 'C01',
  'file': 'func.py',
  'expect': None,
  'old': '    create = {space: 0 for space in Indices.base.keys()}\n'
         '    annihilate = {space: 0 for space in Indices.base.keys()}\n'
         '    for op in op_string:\n'
         '        if isinstance(op, Fd):\n'
         '            counter = create\n'
         '        else:\n'
         '            counter = annihilate\n'
         '        counter[op.args[0].space] += 1\n'
         '    # check that we have a matching amount of creation and annihilation\n'
         '    # operators\n'
         '    for space, n_create in create.items():\n'
         '        if space == "general":\n'
         '            continue\n'
         '        n_annihilate = annihilate[space] + annihilate["general"]\n'
         '        if n_create - n_annihilate > 0:\n'
         '            return False\n'
         '    return True',
  'new': '    counts = {}\n'
         '    for op in op_string:\n'
         '        key = (isinstance(op, Fd), op.args[0].space)\n'
         '        counts[key] = counts.get(key, 0) + 1\n'
         '    n_general = counts.get((False, "general"), 0)\n'
         '    return all(counts.get((True, space), 0) <= counts.get((False, space), 0) + n_general\n'
         '               for space in Indices.base if space != "general")'},
 {'id': 'c01-ok-rules-pair-set',
  'prop': 'C01',
  'file': 'rules.py',
  'expect': None,
  'old': '        res = e.Expr(0, **expr.assumptions)\n'
         '        for term in expr.terms:\n'
         '            # remove the forbidden blocks of tensors\n'
         '            if any(obj.name in self._forbidden_blocks\n'
         '                   and obj.space in self._forbidden_blocks[obj.name]\n'
         '                   for obj in term.objects):\n'
         '                continue\n'
         '            res += term\n'
         '        return res',
  'new': '        forbidden = {(name, block) for name, blocks in self._forbidden_blocks.items() for block in blocks}\n'
         '        kept = [term for term in expr.terms\n'
         '                if not any((obj.name, obj.space) in forbidden for obj in term.objects)]\n'
         '        res = e.Expr(0, **expr.assumptions)\n'
         '        for term in kept:\n'
         '            res += term\n'
         '        return res'},
 {'id': 'c01-ok-is-empty-explicit',
  'prop': 'C01',
  'file': 'rules.py',
  'expect': None,
  'old': 'return not bool(self._forbidden_blocks)',
  'new': 'return self._forbidden_blocks is None or len(self._forbidden_blocks) == 0'},
 {'id': 'c01-ok-wicks-restructured',
  'prop': 'C01',
  'file': 'func.py',
  'expect': None,
  'edits': [('        return Add(*[wicks(term, rules=rules,\n'
             '                           simplify_kronecker_deltas=simplify_kronecker_deltas)\n'
             '                     for term in expr.args])',
             '        total = S.Zero\n'
             '        for term in expr.args:\n'
             '            total += wicks(term, rules, simplify_kronecker_deltas)\n'
             '        return total'),
            ('        c_part = []\n'
             '        op_string = []\n'
             '        for factor in expr.args:\n'
             '            if factor.is_commutative:\n'
             '                c_part.append(factor)\n'
             '            elif isinstance(factor, Pow) and \\\n'
             '                    isinstance(factor.base, FermionicOperator):\n'
             '                # a_p a_p = a^+_p a^+_p = 0\n'
             '                return S.Zero\n'
             '            else:\n'
             '                op_string.append(factor)\n'
             '\n',
             '        if any(isinstance(factor, Pow) and isinstance(factor.base, FermionicOperator) for factor in expr.args):\n'
             '            return S.Zero\n'
             '        c_part = [factor for factor in expr.args if factor.is_commutative]\n'
             '        op_string = [factor for factor in expr.args if not factor.is_commutative]\n'
             '\n'),
            ('result = (Mul(*c_part) * result).expand()', 'result = Mul(*c_part, result).expand()'),
            ('    if rules is None:\n'
             '        return result\n'
             '    elif not isinstance(rules, Rules):\n'
             '        raise TypeError(f"Rules needs to be of type {Rules}")\n'
             '\n'
             '    return rules.apply(Expr(result)).sympy',
             '    if rules is not None:\n'
             '        if not isinstance(rules, Rules):\n'
             '            raise TypeError(f"Rules needs to be of type {Rules}")\n'
             '        restricted = rules.apply(Expr(result))\n'
             '        result = restricted.sympy\n'
             '    return result')]},
 {'id': 'c01-ok-full-space-names',
  'prop': 'C01',
  'file': 'func.py',
  'expect': None,
  'edits': [('    space_p, space_q = p_idx.space[0], q_idx.space[0]\n'
             '    assert space_p in ["o", "v", "g"] and space_q in ["o", "v", "g"]',
             '    space_p, space_q = {"occ": "o", "virt": "v", "general": "g"}[p_idx.space], q_idx.space[:1]\n'
             '    assert {space_p, space_q} <= set("ovg")')]},
 {'id': 'c01-ok-prefilter-dual',
  'prop': 'C01',
  'file': 'func.py',
  'expect': None,
  'old': '        if isinstance(op, Fd):\n            counter = create',
  'new': '        if isinstance(op, F):\n            counter = create'},
 {'id': 'c01-ok-zero-via-mul',
  'prop': 'C01',
  'file': 'func.py',
  'expect': None,
  'old': '        if c is S.Zero:\n'
         '            continue\n'
         '        if not i % 2:  # introduce -1 for swapping operators\n'
         '            c *= S.NegativeOne',
  'new': '        if not i % 2:  # introduce -1 for swapping operators\n'
         '            c = -c\n'
         '        if c == 0:\n'
         '            continue'},
 {'id': 'c01-ok-rules-try-for-else',
  'prop': 'C01',
  'file': 'rules.py',
  'expect': None,
  'old': '            if any(obj.name in self._forbidden_blocks\n'
         '                   and obj.space in self._forbidden_blocks[obj.name]\n'
         '                   for obj in term.objects):\n'
         '                continue\n'
         '            res += term',
  'new': '            for obj in term.objects:\n'
         '                try:\n'
         '                    blocks = self._forbidden_blocks[obj.name]\n'
         '                except KeyError:\n'
         '                    continue\n'
         '                if obj.space in blocks:\n'
         '                    break\n'
         '            else:\n'
         '                res += term'},
 {'id': 'c01-ok-wicks-early-zero',
  'prop': 'C01',
  'file': 'func.py',
  'expect': None,
  'old': '            result = _contract_operator_string(op_string)\n',
  'new': '            result = _contract_operator_string(op_string)\n'
         '            if result is S.Zero:\n'
         '                return S.Zero\n'},
 {'id': 'c01-ok-first-rest-while',
  'prop': 'C01',
  'file': 'func.py',
  'expect': None,
  'old': '    result = []\n    for i in range(1, len(op_string)):\n        c = _contraction(op_string[0], op_string[i])',
  'new': '    result = []\n'
         '    first, *rest = op_string\n'
         '    i = 0\n'
         '    while i < len(rest):\n'
         '        i += 1\n'
         '        c = _contraction(first, rest[i - 1])'},
 {'id': 'c01-ok-table-redundant-projector',
  'prop': 'C01',
  'file': 'func.py',
  'expect': None,
  'old': '        elif space_p == "o" or space_q == "o":\n            return KroneckerDelta(p_idx, q_idx)',
  'new': '        elif space_p == "o" and space_q == "o":\n            return KroneckerDelta(p_idx, q_idx)'},
 {'id': 'c01-is-empty-never',
  'prop': 'C01',
  'file': 'rules.py',
  'expect': 'R01d',
  'old': 'return not bool(self._forbidden_blocks)',
  'new': 'return False'},
 {'id': 'c01-ok-wicks-single-op-general-branch',
  'prop': 'C01',
  'file': 'func.py',
  'expect': None,
  'old': '        elif n == 1:  # a single operator\n            return S.Zero\n',
  'new': ''},
 {'id': 'c01-wicks-bare-operator',
  'prop': 'C01',
  'file': 'func.py',
  'expect': 'R01d',
  'old': '    if isinstance(expr, (NO, FermionicOperator)):\n        return S.Zero\n',
  'new': '    if isinstance(expr, NO):\n        return S.Zero\n'},
 {'id': 'c01-prefilter-skips-first',
  'prop': 'C01',
  'file': 'func.py',
  'expect': ['R01c', 'R01e'],
  'old': '    for op in op_string:\n        if isinstance(op, Fd):',
  'new': '    for op in op_string[1:]:\n        if isinstance(op, Fd):'},
 {'id': 'c01-partition-swapped',
  'prop': 'C01',
  'file': 'func.py',
  'expect': ['R01d', 'R01e'],
  'old': '            if factor.is_commutative:\n                c_part.append(factor)',
  'new': '            if not factor.is_commutative:\n                c_part.append(factor)'},
 {'id': 'c01-prefilter-partner-particle-test',
  'prop': 'C01',
  'file': 'func.py',
  'expect': ['R01c', 'R01e'],
  'old': '        if n_create - n_annihilate > 0:\n            return False\n    return True\n',
  'new': '        if n_create - n_annihilate > 0:\n'
         '            return False\n'
         '    # each operator needs at least one operator it can be contracted with\n'
         '    return all(_has_contraction_partner(op_string, pos)\n'
         '               for pos in range(len(op_string)))\n'
         '\n'
         '\n'
         'def _has_contraction_partner(op_string, pos: int) -> bool:\n'
         '    op = op_string[pos]\n'
         '    for other_pos, other in enumerate(op_string):\n'
         '        if type(other) is type(op):  # 2xCreator, 2xAnnihilator or op itself\n'
         '            continue\n'
         '        left, right = (op, other) if pos < other_pos else (other, op)\n'
         '        spaces = {left.args[0].space, right.args[0].space}\n'
         '        if isinstance(left, Fd):  # hole contraction: no virtual index\n'
         '            if "virt" not in spaces:\n'
         '                return True\n'
         '        elif "virt" in spaces:  # particle contraction: no occupied index\n'
         '            return True\n'
         '    return False\n'},
 {'id': 'c01-ok-prefilter-partner',
  'prop': 'C01',
  'file': 'func.py',
  'expect': None,
  'old': '        if n_create - n_annihilate > 0:\n            return False\n    return True\n',
  'new': '        if n_create - n_annihilate > 0:\n'
         '            return False\n'
         '    # each operator needs at least one operator it can be contracted with\n'
         '    return all(_has_contraction_partner(op_string, pos)\n'
         '               for pos in range(len(op_string)))\n'
         '\n'
         '\n'
         'def _has_contraction_partner(op_string, pos: int) -> bool:\n'
         '    op = op_string[pos]\n'
         '    for other_pos, other in enumerate(op_string):\n'
         '        if type(other) is type(op):  # 2xCreator, 2xAnnihilator or op itself\n'
         '            continue\n'
         '        left, right = (op, other) if pos < other_pos else (other, op)\n'
         '        spaces = {left.args[0].space, right.args[0].space}\n'
         '        if isinstance(left, Fd):  # hole contraction: no virtual index\n'
         '            if "virt" not in spaces:\n'
         '                return True\n'
         '        elif "occ" not in spaces:  # particle contraction: no occupied index\n'
         '            return True\n'
         '    return False\n'},
 {'id': 'c01-rules-type-filter-forgets-nonsym',
  'prop': 'C01',
  'file': 'rules.py',
  'expect': 'R01d',
  'old': '            if any(obj.name in self._forbidden_blocks\n'
         '                   and obj.space in self._forbidden_blocks[obj.name]\n'
         '                   for obj in term.objects):\n'
         '                continue\n'
         '            res += term\n'
         '        return res\n',
  'new': '            if self._contains_forbidden_block(term):\n'
         '                continue\n'
         '            res += term\n'
         '        return res\n'
         '\n'
         '    def _contains_forbidden_block(self, term) -> bool:\n'
         '        for obj in term.objects:\n'
         '            # only tensors have a block: skip prefactors, symbols and deltas\n'
         '            if obj.type_as_str not in ("antisymtensor", "symtensor", "amplitude"):\n'
         '                continue\n'
         '            forbidden = self._forbidden_blocks.get(obj.name, None)\n'
         '            if forbidden is not None and obj.space in forbidden:\n'
         '                return True\n'
         '        return False\n'},
 {'id': 'c01-ok-rules-type-filter',
  'prop': 'C01',
  'file': 'rules.py',
  'expect': None,
  'old': '            if any(obj.name in self._forbidden_blocks\n'
         '                   and obj.space in self._forbidden_blocks[obj.name]\n'
         '                   for obj in term.objects):\n'
         '                continue\n'
         '            res += term\n'
         '        return res\n',
  'new': '            if self._contains_forbidden_block(term):\n'
         '                continue\n'
         '            res += term\n'
         '        return res\n'
         '\n'
         '    def _contains_forbidden_block(self, term) -> bool:\n'
         '        for obj in term.objects:\n'
         '            # only tensors have a block: skip prefactors, symbols and deltas\n'
         '            if obj.type_as_str not in ("antisymtensor", "symtensor", "amplitude", "nonsymtensor"):\n'
         '                continue\n'
         '            forbidden = self._forbidden_blocks.get(obj.name, None)\n'
         '            if forbidden is not None and obj.space in forbidden:\n'
         '                return True\n'
         '        return False\n'},
 {'id': 'c01-ok-rules-tensor-test-by-name',
  'prop': 'C01',
  'file': 'rules.py',
  'expect': None,
  'old': '            if any(obj.name in self._forbidden_blocks\n',
  'new': '            if any(obj.name is not None and "tensor" in obj.type_as_str + "tensor" and obj.name in '
         'self._forbidden_blocks\n'},
 {'id': 'c01-ok-rules-name-via-base',
  'prop': 'C01',
  'file': 'rules.py',
  'expect': None,
  'old': '            if any(obj.name in self._forbidden_blocks\n'
         '                   and obj.space in self._forbidden_blocks[obj.name]',
  'new': '            if any(getattr(obj.base, "name", None) in self._forbidden_blocks\n'
         '                   and obj.space in self._forbidden_blocks[getattr(obj.base, "name", None)]'},
 {'id': 'c01-f29-revert',
  'prop': 'C01',
  'file': 'func.py',
  'expect': 'R01e',
  'old': '            if simplify_kronecker_deltas:\n'
         '                # The contraction of two general indices p and q gives\n'
         '                # delta_{pq} * delta_{qi}, i.e., q occurs on two deltas and\n'
         '                # the Einstein sum convention applied to the contracted term\n'
         '                # identifies a target index q as contracted index.\n'
         '                # -> additionally protect the target indices of the term\n'
         '                #    before the contraction\n'
         '                target = _indices_on_single_object(expr)\n'
         '                result = Add(*[\n'
         '                    evaluate_deltas(\n'
         '                        term, target_idx=target + [\n'
         '                            s for s in _indices_on_single_object(term)\n'
         '                            if s not in target\n'
         '                        ]\n'
         '                    ) for term in Add.make_args(result)\n'
         '                ])\n',
  'new': '            if simplify_kronecker_deltas:\n                result = evaluate_deltas(result)\n'},
 {'id': 'c01-ok-f29-twin',
  'prop': 'C01',
  'file': 'func.py',
  'expect': None,
  'old': '            if simplify_kronecker_deltas:\n'
         '                # The contraction of two general indices p and q gives\n'
         '                # delta_{pq} * delta_{qi}, i.e., q occurs on two deltas and\n'
         '                # the Einstein sum convention applied to the contracted term\n'
         '                # identifies a target index q as contracted index.\n'
         '                # -> additionally protect the target indices of the term\n'
         '                #    before the contraction\n'
         '                target = _indices_on_single_object(expr)\n'
         '                result = Add(*[\n'
         '                    evaluate_deltas(\n'
         '                        term, target_idx=target + [\n'
         '                            s for s in _indices_on_single_object(term)\n'
         '                            if s not in target\n'
         '                        ]\n'
         '                    ) for term in Add.make_args(result)\n'
         '                ])\n',
  'new': '            if simplify_kronecker_deltas:\n'
         '                protected = _indices_on_single_object(expr)\n'
         '                evaluated = S.Zero\n'
         '                for term in Add.make_args(result):\n'
         '                    extra = [s for s in _indices_on_single_object(term)\n'
         '                             if s not in protected]\n'
         '                    evaluated += evaluate_deltas(term, protected + extra)\n'
         '                result = evaluated\n'},
 {'id': 'c01-f29-protects-contracted-term-only',
  'prop': 'C01',
  'file': 'func.py',
  'expect': 'R01e',
  'old': '                        term, target_idx=target + [\n'
         '                            s for s in _indices_on_single_object(term)\n'
         '                            if s not in target\n'
         '                        ]\n',
  'new': '                        term, target_idx=_indices_on_single_object(term)\n'},
 {'id': 'c01-f34-revert',
  'prop': 'C01',
  'file': 'func.py',
  'expect': 'R01a',
  'edits': [('a = Indices().get_generic_indices(virt=1)[("virt", "")][0]', "a = Index('a', above_fermi=True)"),
            ('i = Indices().get_generic_indices(occ=1)[("occ", "")][0]', "i = Index('i', below_fermi=True)")]},
 {'id': 'c01-ok-f34-twin',
  'prop': 'C01',
  'file': 'func.py',
  'expect': None,
  'edits': [('a = Indices().get_generic_indices(virt=1)[("virt", "")][0]',
             'a, = Indices().get_generic_indices(virt=1)[("virt", "")]'),
            ('i = Indices().get_generic_indices(occ=1)[("occ", "")][0]',
             'generic = Indices().get_generic_indices(**{"occ": 1})\n            i = generic["occ", ""][0]')]},
 {'id': 'c01-f42-revert',
  'prop': 'C01',
  'file': 'func.py',
  'expect': ['R01d', 'R01e'],
  'edits': [('    # sympy collects adjacent identical operators in a power: a_p a_p = 0\n'
             '    if isinstance(expr, Pow) and isinstance(expr.base, FermionicOperator):\n'
             '        return S.Zero\n'
             '\n',
             ''),
            ('            elif isinstance(factor, Pow) and \\\n'
             '                    isinstance(factor.base, FermionicOperator):\n'
             '                # a_p a_p = a^+_p a^+_p = 0\n'
             '                return S.Zero\n',
             '')]},
 {'id': 'c01-f42-revert-top-only',
  'prop': 'C01',
  'file': 'func.py',
  'expect': 'R01d',
  'old': '    # sympy collects adjacent identical operators in a power: a_p a_p = 0\n'
         '    if isinstance(expr, Pow) and isinstance(expr.base, FermionicOperator):\n'
         '        return S.Zero\n'
         '\n',
  'new': ''},
 {'id': 'c01-f42-revert-factor-only',
  'prop': 'C01',
  'file': 'func.py',
  'expect': ['R01d', 'R01e'],
  'old': '            elif isinstance(factor, Pow) and \\\n'
         '                    isinstance(factor.base, FermionicOperator):\n'
         '                # a_p a_p = a^+_p a^+_p = 0\n'
         '                return S.Zero\n',
  'new': ''},
 {'id': 'c01-ok-f42-twin',
  'prop': 'C01',
  'file': 'func.py',
  'expect': None,
  'edits': [('    # sympy collects adjacent identical operators in a power: a_p a_p = 0\n'
             '    if isinstance(expr, Pow) and isinstance(expr.base, FermionicOperator):\n'
             '        return S.Zero\n'
             '\n',
             '    def operator_power(obj) -> bool:\n'
             '        return isinstance(obj, Pow) and isinstance(obj.args[0], FermionicOperator)\n'
             '\n'
             '    if operator_power(expr):  # a_p a_p = 0\n'
             '        return S.Zero\n'
             '\n'),
            ('            elif isinstance(factor, Pow) and \\\n'
             '                    isinstance(factor.base, FermionicOperator):\n'
             '                # a_p a_p = a^+_p a^+_p = 0\n'
             '                return S.Zero\n',
             '            elif operator_power(factor):\n                return S.Zero\n')]},
 {'id': 'c01-contraction-lru-cache',
  'prop': 'C01',
  'file': 'func.py',
  'expect': 'R01a',
  'edits': [('from itertools import product\n', 'from functools import lru_cache\nfrom itertools import product\n'),
            ('        raise NotImplementedError("Contraction not implemented for indices "\n'
             '                                  "with spin.")\n',
             '        raise NotImplementedError("Contraction not implemented for indices "\n'
             '                                  "with spin.")\n'
             '    return _evaluate_contraction(p, q)\n'
             '\n'
             '\n'
             '@lru_cache(maxsize=None)\n'
             'def _evaluate_contraction(p, q):\n')]},
 {'id': 'c01-contraction-module-table',
  'prop': 'C01',
  'file': 'func.py',
  'expect': 'R01a',
  'edits': [('def _contraction(p, q):', '_CONTRACTIONS = {}\n\n\ndef _contraction(p, q):'),
            ('        raise NotImplementedError("Contraction not implemented for indices "\n'
             '                                  "with spin.")\n',
             '        raise NotImplementedError("Contraction not implemented for indices "\n'
             '                                  "with spin.")\n'
             '    if (p, q) not in _CONTRACTIONS:\n'
             '        _CONTRACTIONS[(p, q)] = _evaluate_contraction(p, q)\n'
             '    return _CONTRACTIONS[(p, q)]\n'
             '\n'
             '\n'
             'def _evaluate_contraction(p, q):\n')]},
 {'id': 'c01-ok-contraction-cached-decision',
  'prop': 'C01',
  'file': 'func.py',
  'expect': None,
  'edits': [('from itertools import product\n', 'from functools import lru_cache\nfrom itertools import product\n'),
            ('    # get the space and ensure we have no unexpected space\n'
             '    p_idx, q_idx = p.args[0], q.args[0]\n'
             '    space_p, space_q = p_idx.space[0], q_idx.space[0]\n'
             '    assert space_p in ["o", "v", "g"] and space_q in ["o", "v", "g"]\n'
             '\n'
             '    if isinstance(p, F) and isinstance(q, Fd):\n'
             '        if space_p == "o" or space_q == "o":\n'
             '            return S.Zero\n'
             '        elif space_p == "v" or space_q == "v":\n'
             '            return KroneckerDelta(p_idx, q_idx)\n'
             '        else:\n'
             '            # use a registered generic index: its name is unique, i.e., it\n'
             '            # can not be confused with any other index when the result is\n'
             '            # printed (and imported again)\n'
             '            a = Indices().get_generic_indices(virt=1)[("virt", "")][0]\n'
             '            return (KroneckerDelta(p_idx, q_idx) *\n'
             '                    KroneckerDelta(q_idx, a))\n'
             '    elif isinstance(p, Fd) and isinstance(q, F):\n'
             '        if space_p == "v" or space_q == "v":\n'
             '            return S.Zero\n'
             '        elif space_p == "o" or space_q == "o":\n'
             '            return KroneckerDelta(p_idx, q_idx)\n'
             '        else:\n'
             '            i = Indices().get_generic_indices(occ=1)[("occ", "")][0]\n'
             '            return (KroneckerDelta(p_idx, q_idx) *\n'
             '                    KroneckerDelta(q_idx, i))\n'
             '    else:  # vanish if 2xAnnihilator or 2xCreator\n'
             '        return S.Zero\n',
             '    p_idx, q_idx = p.args[0], q.args[0]\n'
             '    case = _contraction_case(isinstance(p, F), isinstance(p, Fd), isinstance(q, F), isinstance(q, Fd),\n'
             '                             p_idx.space, q_idx.space)\n'
             '    if case is None:\n'
             '        return S.Zero\n'
             '    contraction = KroneckerDelta(p_idx, q_idx)\n'
             '    if case:  # two general indices: additional index, drawn per call\n'
             '        (extra,), = Indices().get_generic_indices(**{case: 1}).values()\n'
             '        contraction = contraction * KroneckerDelta(q_idx, extra)\n'
             '    return contraction\n'
             '\n'
             '\n'
             '@lru_cache(maxsize=None)\n'
             'def _contraction_case(p_annihilates: bool, p_creates: bool, q_annihilates: bool, q_creates: bool,\n'
             '                      space_p: str, space_q: str) -> str | None:\n'
             '    """None: vanishing contraction, \'\': a single delta, \'occ\'/\'virt\': space of the additional index."""\n'
             '    assert space_p[0] in "ovg" and space_q[0] in "ovg"\n'
             '    spaces = (space_p, space_q)\n'
             '    if p_annihilates and q_creates:\n'
             '        killed, kept = "occ", "virt"\n'
             '    elif p_creates and q_annihilates:\n'
             '        killed, kept = "virt", "occ"\n'
             '    else:\n'
             '        return None\n'
             '    if killed in spaces:\n'
             '        return None\n'
             '    return "" if kept in spaces else kept\n')]}]
