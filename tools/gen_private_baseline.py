#!/usr/bin/env python3
"""Writes sa/private_baseline.json: the private names (underscore functions, nested functions, private attributes) of
every module of /repo/adcgen as they are on the tree the rules were confirmed on.  Re-run after a change of /repo that
is meant to become the new reference (e.g. a fix: commit)."""
import ast, json, os, sys
HERE = os.path.dirname(os.path.dirname(os.path.abspath(__file__)))
sys.path.insert(0, HERE)
from sa.model import private_table  # noqa: E402

repo = sys.argv[1] if len(sys.argv) > 1 else "/repo"
root = os.path.join(repo, "adcgen")
out = {}
for dp, dn, fns in sorted(os.walk(root)):
    dn[:] = sorted(d for d in dn if d != "__pycache__")
    for fn in sorted(fns):
        if fn.endswith(".py"):
            p = os.path.join(dp, fn)
            rel = os.path.relpath(p, root)[:-3].replace(os.sep, ".")
            t = private_table(ast.parse(open(p).read()))
            if t:
                out[rel] = t
json.dump(out, open(os.path.join(HERE, "sa", "private_baseline.json"), "w"), indent=1, sort_keys=True)
print(sum(len(v) for v in out.values()), "private names in", len(out), "modules")
