"""C16 contraction schemes (structural clauses)."""
from __future__ import annotations

import ast
import re

from ..model import (AnalysisError, U, Defs, FuncNode, calls_in, call_name, walk_fn, kwarg, enclosing,
                     enclosing_stmt, short)
from ..pathcond import conditions
from . import common

EXPLANATION = (
    "R16a: every Contraction(indices=, names=) call passes a sequence of index tuples (nesting depth "
    "2) and a sequence of names (depth 1), inferred from the repo's own annotations; functions "
    "annotated -> list[Contraction] never return a bare Contraction. R16b: names and indices are "
    "extended together, exponent-many times. R16c: contracted/target split (target iff counted once "
    "or term target; canonical sort; outer contraction adopts the requested order). R16d: scaling "
    "derivation (comp = contracted+target per space, mem = target per space; `total` is the first "
    "ScalingComponent field, computational before memory; both order=True). R16e: every stored group "
    "is dominated by the size test against max_group_size; the max_itmd_dim filter precedes "
    "recursion/yield. R16f: scheme assembly (result re-enters the pool under its unique name with "
    "its target indices, positions of the group removed, limits forwarded, recursion ends with one "
    "object). R16g: a group may replace its objects only if no index it sums still occurs on a "
    "remaining object (closure before elimination).")
ASSUMPTIONS = [
    "that a scheme computes the term (interpretation of the contractions) and optimality are not decided",
]

OC = "generate_code.optimize_contractions:"
CO = "generate_code.contraction:"

ATTR_DEPTH = {"idx": 1, "target": 1, "contracted": 1, "contraction_name": 0, "indices": 2, "names": 1}


def ann_depth(text: str):
    text = text.replace(" ", "")
    d = 0
    while True:
        m = re.match(r"^(list|tuple|List|Tuple)\[(.*)\]$", text)
        if not m:
            break
        d += 1
        text = m.group(2).split(",")[0] if m.group(2).count("[") == 0 else m.group(2)
    if "|" in text or text in ("None",):
        return None
    return d


class Depth:
    def __init__(self, fn):
        self.fn = fn
        self.defs = Defs(fn)
        self.ann = {}
        for a in fn.args.args + fn.args.kwonlyargs:
            if a.annotation is not None:
                self.ann[a.arg] = ann_depth(U(a.annotation))
        for n in walk_fn(fn, nested=False):
            if isinstance(n, ast.AnnAssign) and isinstance(n.target, ast.Name):
                self.ann[n.target.id] = ann_depth(U(n.annotation))

    def of(self, node, env=None, depth=0):
        env = env or {}
        if depth > 8 or node is None:
            return None
        if isinstance(node, ast.Name):
            if node.id in env:
                return env[node.id]
            if node.id in self.ann and self.ann[node.id] is not None:
                return self.ann[node.id]
            v = self.defs.single(node.id)
            if v is not None:
                return self.of(v, env, depth + 1)
            # several bindings: the ones that reach the use must agree
            st = enclosing_stmt(node) if hasattr(node, "_parent") else None
            if st is not None:
                from .deriv import reaching_assignments
                ds = set()
                for a in reaching_assignments(self.fn, node.id, st):
                    t = a.targets[0]
                    if isinstance(t, ast.Tuple) and isinstance(a.value, ast.Tuple) and len(t.elts) == len(a.value.elts):
                        k = [U(e) for e in t.elts].index(node.id)
                        ds.add(self.of(a.value.elts[k], env, depth + 1))
                    elif isinstance(t, ast.Name):
                        ds.add(self.of(a.value, env, depth + 1))
                    else:
                        ds.add(None)
                if len(ds) == 1:
                    return ds.pop()
            return None
        if isinstance(node, ast.Constant):
            return 0
        if isinstance(node, ast.JoinedStr):
            return 0
        if isinstance(node, ast.Subscript):
            if isinstance(node.slice, ast.Slice):
                return self.of(node.value, env, depth + 1)
            if isinstance(node.value, (ast.Tuple, ast.List)) and isinstance(node.slice, ast.Constant):
                return self.of(node.value.elts[node.slice.value], env, depth + 1)
            d = self.of(node.value, env, depth + 1)
            return None if d is None else d - 1
        if isinstance(node, (ast.Tuple, ast.List)):
            if not node.elts:
                return 1
            e = node.elts[0]
            d = self.of(e.value if isinstance(e, ast.Starred) else e, env, depth + 1)
            if isinstance(e, ast.Starred):
                return d
            return None if d is None else d + 1
        if isinstance(node, (ast.GeneratorExp, ast.ListComp)):
            env2 = dict(env)
            for g in node.generators:
                di = self.of(g.iter, env2, depth + 1)
                if isinstance(g.target, ast.Name):
                    env2[g.target.id] = None if di is None else di - 1
            d = self.of(node.elt, env2, depth + 1)
            return None if d is None else d + 1
        if isinstance(node, ast.Call):
            if isinstance(node.func, ast.Name) and node.func.id in ("tuple", "list", "sorted") and node.args:
                return self.of(node.args[0], env, depth + 1)
            if call_name(node) == "longname":
                return 0
            if call_name(node) == "range":
                return 1
            return None
        if isinstance(node, ast.Attribute):
            return ATTR_DEPTH.get(node.attr)
        return None


def r16a(ctx):
    rule = "R16a"
    n = 0
    for mod in ("generate_code.optimize_contractions", "generate_code.generate_code", "generate_code.contraction"):
        m = ctx.model.module(mod)
        for q, fn in m.functions.items():
            d = Depth(fn)
            for c in calls_in(fn, nested=False):
                if call_name(c) != "Contraction" or not (c.args or c.keywords):
                    continue
                n += 1
                ind, nam = kwarg(c, "indices", 0), kwarg(c, "names", 1)
                di, dn = d.of(ind), d.of(nam)
                ctx.check(rule, c, di == 2, f"{q}: indices is a sequence of index tuples",
                          f"{q}: Contraction(indices={U(ind)}) has nesting depth {di}; the constructor iterates it as a "
                          "sequence of index tuples (depth 2)", fn=f"{mod}:{q}", key=f"{q} indices depth")
                ctx.check(rule, c, dn == 1, f"{q}: names is a sequence of strings",
                          f"{q}: Contraction(names={U(nam)}) has nesting depth {dn}; a sequence of names (depth 1) is "
                          "required", fn=f"{mod}:{q}", key=f"{q} names depth")
            if fn.returns is not None and U(fn.returns).replace(" ", "") == "list[Contraction]":
                for r in common.returns_of(fn):
                    v = r.value
                    bad = isinstance(v, ast.Call) and call_name(v) == "Contraction"
                    ctx.check(rule, r, not bad, f"{q}: returns a list",
                              f"{q}: annotated -> list[Contraction] but returns a bare Contraction object",
                              fn=f"{mod}:{q}", key=f"{q} return list")
    ctx.floor(rule, "Contraction(...) constructor calls", n, 3)


def r16b(ctx):
    rule = "R16b"
    for name in ("optimize_contractions", "unoptimized_contraction"):
        fn = ctx.model.fn(OC + name)
        ext = [c for c in calls_in(fn) if call_name(c) == "extend" and U(c.func.value) in ("relevant_obj_names", "relevant_obj_indices")]
        got = {U(c.func.value): U(c.args[0]) for c in ext}
        ok = got == {"relevant_obj_names": "(name for _ in range(exp))", "relevant_obj_indices": "(indices for _ in range(exp))"} \
            and len({id(enclosing_stmt(c)._parent) for c in ext}) == 1
        ctx.check(rule, fn, ok, f"{name}: name and indices repeated exponent-many times together",
                  f"{name}: object names/indices are extended as {got}", key=f"{name} multiplicity")
        be = [a for a in walk_fn(fn) if isinstance(a, ast.Assign) and U(a.targets[0]) == "(base, exp)"]
        ctx.check(rule, fn, len(be) == 1 and U(be[0].value) == "obj.base_and_exponent", f"{name}: exponent of the object",
                  f"{name}: exponent source changed", key=f"{name} exponent")
        ni = [a for a in walk_fn(fn) if isinstance(a, ast.Assign) and U(a.targets[0]) == "(name, indices)"]
        ctx.check(rule, fn, len(ni) == 1 and U(ni[0].value) == "(obj.longname(), obj.idx)", f"{name}: longname and indices of the object",
                  f"{name}: name/indices source changed", key=f"{name} name idx")
        skips = [n for n in walk_fn(fn) if isinstance(n, ast.Continue)]
        okc = all(any(t in ("obj.sympy.is_number", "isinstance(base, Symbol)") and pol for t, pol in conditions(s)) for s in skips)
        ctx.check(rule, fn, okc and len(skips) == 2, f"{name}: only numbers and symbols are skipped",
                  f"{name}: objects are skipped under other conditions", key=f"{name} skips")
        ra = [n for n in walk_fn(fn) if isinstance(n, ast.Raise) and ("exp < 0", True) in conditions(n)]
        ctx.check(rule, fn, len(ra) == 1, f"{name}: divisions refused", f"{name}: negative exponents no longer refused", key=f"{name} neg exp")
        tg = [a for a in common.assigns_to(fn, "target_indices")]
        got = {("none" if ("target_indices is None", True) in conditions(a) else "given"): U(a.value) for a in tg}
        ctx.check(rule, fn, got == {"none": "term.target", "given": "tuple(get_symbols(target_indices, target_spin))"},
                  f"{name}: requested target order and spin kept", f"{name}: target indices are {got}", key=f"{name} targets")


def r16c(ctx):
    rule = "R16c"
    fn = ctx.model.fn(CO + "Contraction._split_contracted_and_target")
    app = [c for c in calls_in(fn) if call_name(c) == "append"]
    for c in app:
        which = U(c.func.value)
        conds = conditions(c)
        test = ("count == 1 or idx in term_target_indices", which == "target")
        alt = {("count == 1", False), ("idx in term_target_indices", False)} if which == "contracted" else None
        ok = test in conds or (alt is not None and alt <= conds)
        ctx.check(rule, c, ok and U(c.args[0]) == "idx", f"{which}: " + ("counted once or term target" if which == "target" else "otherwise"),
                  f"index classified as {which} under the wrong condition", key=f"split {which}")
    ctx.floor(rule, "classification sites", len(app), 2)
    cn = [a for a in common.assigns_to(fn, "idx_counter")]
    ctx.check(rule, fn, len(cn) == 1 and U(cn[0].value) == "Counter(itertools.chain.from_iterable(indices))",
              "occurrences counted over all objects of the contraction", "index counting changed", key="split counter")
    r = common.returns_of(fn)
    ctx.check(rule, fn, len(r) == 1 and U(r[0].value) == "(contracted, target)", "returns (contracted, target)",
              "return order changed", key="split return")
    d = ctx.model.fn(CO + "Contraction._determine_contracted_and_target")
    srt = {U(a.targets[0]): U(a.value) for a in walk_fn(d) if isinstance(a, ast.Assign) and U(a.targets[0]) in ("contracted", "target")
           and isinstance(a.value, ast.Call) and call_name(a.value) == "sorted"}
    ctx.check(rule, d, srt == {"contracted": "sorted(contracted, key=sort_idx_canonical)", "target": "sorted(target, key=sort_idx_canonical)"},
              "both groups sorted canonically", f"sorting is {srt}", key="sort")
    ad = [a for a in walk_fn(d) if isinstance(a, ast.Assign) and U(a.targets[0]) == "target" and U(a.value) == "term_target_indices"]
    ok = len(ad) == 1 and ("sorted(term_target_indices, key=sort_idx_canonical) == target", True) in conditions(ad[0])
    ctx.check(rule, d, ok, "outer contraction adopts the requested target order", "adoption of the requested target order changed",
              key="adopt order")
    un = [a for a in walk_fn(d) if isinstance(a, ast.Assign) and U(a.targets[0]) == "(contracted, target)"]
    ok = len(un) == 1 and U(un[0].value).replace(" ", "") == "self._split_contracted_and_target(self.indices,term_target_indices)"
    ctx.check(rule, d, ok, "split of the contraction's own indices", "split arguments changed", key="split call")
    st = {U(a.targets[0]): U(a.value) for a in walk_fn(d) if isinstance(a, ast.Assign) and U(a.targets[0]).startswith("self.")}
    ctx.check(rule, d, st == {"self.contracted": "tuple(contracted)", "self.target": "tuple(target)"}, "stored", f"stores {st}", key="store")


def r16d(ctx):
    rule = "R16d"
    fn = ctx.model.fn(CO + "Contraction._determine_scaling")
    cs = {U(a.targets[0]): U(a.value) for a in walk_fn(fn) if isinstance(a, ast.Assign)}
    ctx.check(rule, fn, cs.get("contracted_by_space") == "Counter((idx.space for idx in self.contracted))"
              and cs.get("target_by_space") == "Counter((idx.space for idx in self.target))", "indices counted per space",
              "per-space counters changed", key="counters")
    comps = [a for a in walk_fn(fn) if isinstance(a, ast.Assign) and U(a.targets[0]) == "componentwise"]
    vals = [U(a.value).replace(" ", "") for a in comps]
    want = ["{space:contracted_by_space[space]+target_by_space[space]forspaceinIndices.base.keys()}",
            "{space:target_by_space[space]forspaceinIndices.base.keys()}"]
    alt0 = "{space:target_by_space[space]+contracted_by_space[space]forspaceinIndices.base.keys()}"
    ctx.check(rule, fn, len(vals) == 2 and vals[0] in (want[0], alt0) and vals[1] == want[1],
              "comp = contracted + target per space; mem = target per space", f"component tables are {vals}", key="components")
    sc = [c for c in calls_in(fn) if call_name(c) == "ScalingComponent"]
    tot = [U(kwarg(c, "total")) for c in sc]
    ctx.check(rule, fn, tot == ["sum(componentwise.values())", "len(self.target)"], "totals: sum of components / number of targets",
              f"totals are {tot}", key="totals")
    s = [c for c in calls_in(fn) if call_name(c) == "Scaling"]
    ok = len(s) == 1 and U(kwarg(s[0], "computational", 0)) == "comp_scaling" and U(kwarg(s[0], "memory", 1)) == "mem_scaling"
    ctx.check(rule, fn, ok, "Scaling(computational, memory)", "Scaling construction changed", key="scaling ctor")
    for cname, fields in (("ScalingComponent", ["total", "general", "virt", "occ"]), ("Scaling", ["computational", "memory"])):
        cls = ctx.model.cls(CO + cname)
        got = [U(n.target) for n in cls.body if isinstance(n, ast.AnnAssign)]
        ctx.check(rule, cls, got[:1] == fields[:1] and sorted(got) == sorted(fields),
                  f"{cname}: `{fields[0]}` compared first", f"{cname} fields are {got}; ranking relies on `{fields[0]}` first",
                  key=f"{cname} fields")
        deco = " ".join(U(d) for d in cls.decorator_list)
        ctx.check(rule, cls, "order=True" in deco, f"{cname}: ordered dataclass", f"{cname} lost order=True", key=f"{cname} order")
    # ranking in optimize_contractions: computational before memory, max then multiplicity
    oc = ctx.model.fn(OC + "optimize_contractions")
    ext = [U(c.args[0]).replace(" ", "") for c in calls_in(oc) if call_name(c) == "extend" and U(c.func.value) in ("scaling", "mem")]
    ctx.check(rule, oc, ext == ["[max(comp_values),comp_values.count(max(comp_values))]", "[max(mem_values),mem_values.count(max(mem_values))]", "mem"],
              "rank: max scaling then its multiplicity, computational before memory", f"ranking vector built as {ext}", key="ranking")
    cmp_ = [n for n in walk_fn(oc) if isinstance(n, ast.If) and "optimal_scaling" in U(n.test)]
    ok = any(U(n.test) == "optimal_scaling is None or scaling < optimal_scaling" for n in cmp_)
    ctx.check(rule, oc, ok, "lowest ranking vector wins", "scheme selection test changed", key="selection")
    v = {U(a.targets[0]): U(a.value) for a in walk_fn(oc) if isinstance(a, ast.Assign) and U(a.targets[0]) in ("comp_values", "mem_values")}
    ctx.check(rule, oc, v == {"comp_values": "[getattr(contr.scaling.computational, field.name) for contr in scheme]",
                              "mem_values": "[getattr(contr.scaling.memory, field.name) for contr in scheme]"},
              "values taken from every contraction of the scheme", f"{v}", key="values")


def r16e(ctx):
    rule = "R16e"
    fn = ctx.model.fn(OC + "_group_objects")
    stores = [a for a in walk_fn(fn) if isinstance(a, ast.Assign) and isinstance(a.targets[0], ast.Subscript)
              and U(a.targets[0].value) == "groups"]
    ctx.floor(rule, "group stores", len(stores), 1)
    for s in stores:
        key = U(s.targets[0].slice)
        conds = conditions(s)
        var = "new_positions" if "new_positions" in key else "positions"
        if key == "key":
            k = [a for a in common.assigns_to(fn, "key")]
            var = "positions" if k and "positions" in U(k[0].value) else "?"
        ok = (f"len({var}) > max_group_size", False) in conds
        ctx.check(rule, s, ok, f"group of `{var}` stored only if it respects max_group_size",
                  f"group `{key}` is stored without a dominating size test against max_group_size", key=f"size {key}")
    d = [a for a in common.assigns_to(fn, "max_group_size")]
    ok = any(U(a.value) == "len(obj_indices)" and ("max_group_size is None", True) in conditions(a) for a in d)
    ctx.check(rule, fn, ok, "no limit = all objects", "default group size changed", key="default size")
    oc = ctx.model.fn(OC + "_optimize_contractions")
    conts = [n for n in walk_fn(oc) if isinstance(n, ast.Continue)]
    dim = [c for c in conts if "max_itmd_dim" in U(c._parent.test)]
    ok = len(dim) == 1 and U(dim[0]._parent.test).replace(" ", "").replace("(", "").replace(")", "") == \
        "max_itmd_dimisnotNoneandcontraction.target!=target_indicesandlencontraction.target>max_itmd_dim"
    ctx.check(rule, oc, ok, "inner contractions above max_itmd_dim discarded",
              "the intermediate-dimension filter changed", key="itmd dim test")
    if dim:
        later = [n for n in walk_fn(oc) if isinstance(n, (ast.Yield, ast.YieldFrom)) or
                 (isinstance(n, ast.Call) and call_name(n) == "_optimize_contractions")]
        ctx.check(rule, oc, all(n.lineno > dim[0].lineno for n in later), "filter precedes recursion and yield",
                  "a scheme is emitted before the dimension filter", key="itmd dim order")
    g = [c for c in calls_in(oc) if call_name(c) == "_group_objects"]
    ok = len(g) == 1 and U(kwarg(g[0], "max_group_size", 2)) == "max_n_simultaneous_contracted" \
        and U(kwarg(g[0], "obj_indices", 0)) == "relevant_obj_indices" and U(kwarg(g[0], "target_indices", 1)) == "target_indices"
    ctx.check(rule, oc, ok, "group limit forwarded", "arguments of _group_objects changed", key="group args")


def r16f(ctx):
    rule = "R16f"
    oc = ctx.model.fn(OC + "_optimize_contractions")
    a = {U(x.targets[0]): U(x.value).replace(" ", "") for x in walk_fn(oc) if isinstance(x, ast.Assign)}
    ctx.check(rule, oc, a.get("contr_indices") == "tuple((relevant_obj_indices[pos]forposingroup))"
              and a.get("contr_names") == "tuple((relevant_obj_names[pos]forposingroup))", "contraction built from the group's objects",
              "group -> contraction mapping changed", key="group objects")
    ctx.check(rule, oc, a.get("remaining_pos") == "[posforposinrange(len(relevant_obj_names))ifposnotingroup]",
              "exactly the group's objects leave the pool", f"remaining positions: {a.get('remaining_pos')}", key="remaining pos")
    ctx.check(rule, oc, a.get("remaining_names") == "(contraction.contraction_name,*(relevant_obj_names[pos]forposinremaining_pos))"
              and a.get("remaining_indices") == "(contraction.target,*(relevant_obj_indices[pos]forposinremaining_pos))",
              "result re-enters the pool under its unique name with its target indices",
              f"pool update: {a.get('remaining_names')} / {a.get('remaining_indices')}", key="pool")
    rec = [c for c in calls_in(oc) if call_name(c) == "_optimize_contractions"]
    ok = len(rec) == 1 and {k.arg: U(k.value) for k in rec[0].keywords} == {
        "relevant_obj_names": "remaining_names", "relevant_obj_indices": "remaining_indices", "target_indices": "target_indices",
        "max_itmd_dim": "max_itmd_dim", "max_n_simultaneous_contracted": "max_n_simultaneous_contracted"}
    ctx.check(rule, oc, ok, "recursion on the reduced pool with the same targets and limits", "recursive call changed", key="recursion")
    ys = [n for n in walk_fn(oc) if isinstance(n, ast.Yield)]
    done = [y for y in ys if U(y.value) == "[contraction]"]
    ok = len(done) == 1 and ("len(remaining_names) == 1", True) in conditions(done[0])
    ctx.check(rule, oc, ok, "a scheme is complete when one object is left", "termination condition changed", key="termination")
    ins = [c for c in calls_in(oc) if call_name(c) == "insert"]
    ok = len(ins) == 1 and [U(x) for x in ins[0].args] == ["0", "contraction"]
    ctx.check(rule, oc, ok, "contraction placed before the contractions that consume it", "scheme order changed", key="order")
    ct = [c for c in calls_in(oc) if call_name(c) == "Contraction"]
    ok = len(ct) == 1 and U(kwarg(ct[0], "term_target_indices", 2)) == "target_indices"
    ctx.check(rule, oc, ok, "term targets passed to every contraction", "term target indices not passed", key="term targets")
    cl = ctx.model.cls(CO + "Contraction")
    init = ctx.model.fn(CO + "Contraction.__init__")
    ids = {U(x.targets[0] if isinstance(x, ast.Assign) else x.target): U(x.value) for x in walk_fn(init)
           if isinstance(x, (ast.Assign, ast.AnnAssign)) and x.value is not None}
    ctx.check(rule, init, ids.get("self.id") == "next(self._instance_counter)" and
              ids.get("self.contraction_name") == "f'{self._base_name}_{self.id}'", "unique contraction names",
              "contraction naming changed", key="unique name")
    ic = ctx.model.fn(CO + "Contraction.is_contraction")
    r = common.returns_of(ic)
    ctx.check(rule, ic, len(r) == 1 and U(r[0].value) == "name.startswith(Contraction._base_name)", "inner results recognised by the name prefix",
              "is_contraction changed", key="is_contraction")
    top = ctx.model.fn(OC + "optimize_contractions")
    e = [r for r in common.returns_of(top) if U(r.value) == "[]"]
    ctx.check(rule, top, len(e) == 1 and ("relevant_obj_names", False) in conditions(e[0]), "no tensors: empty scheme",
              "empty-term shortcut changed", key="empty")
    un = ctx.model.fn(OC + "unoptimized_contraction")
    r = common.returns_of(un)
    ok = len(r) == 1 and isinstance(r[0].value, ast.List) and len(r[0].value.elts) == 1 and call_name(r[0].value.elts[0]) == "Contraction" \
        and U(kwarg(r[0].value.elts[0], "indices", 0)) == "relevant_obj_indices" and U(kwarg(r[0].value.elts[0], "names", 1)) == "relevant_obj_names" \
        and U(kwarg(r[0].value.elts[0], "term_target_indices", 2)) == "target_indices"
    ctx.check(rule, un, ok, "unoptimised: one contraction of all objects", "unoptimized_contraction changed", key="unoptimized")


def r16g(ctx):
    rule = "R16g"
    oc = ctx.model.fn(OC + "_optimize_contractions")
    go = ctx.model.fn(OC + "_group_objects")
    # (B) elimination guarded by a test of the summed indices against the remaining objects
    guard = None
    for n in walk_fn(oc):
        if isinstance(n, ast.If) and n.body and isinstance(n.body[-1], ast.Continue):
            t = U(n.test)
            if "contraction.contracted" in t and ("remaining_pos" in t or "remaining_indices" in t):
                guard = n
    if guard is not None:
        later = [n for n in walk_fn(oc) if isinstance(n, ast.Yield) or (isinstance(n, ast.Call) and call_name(n) == "_optimize_contractions")]
        ok = all(n.lineno > guard.lineno for n in later)
        ctx.check(rule, guard, ok, "a group whose summed index still occurs on a remaining object is discarded before elimination",
                  "closure test placed after a scheme is emitted", key="closure guard")
        return
    # (A) only closed groups are ever stored
    stores = [a for a in walk_fn(go) if isinstance(a, ast.Assign) and isinstance(a.targets[0], ast.Subscript)
              and U(a.targets[0].value) == "groups"]
    loops = [n for n in walk_fn(go) if isinstance(n, ast.While)]
    pre = [s for s in stores if not any(s in list(ast.walk(w)) for w in loops) and loops and s.lineno < loops[0].lineno]
    inside = [s for s in stores if any(s in list(ast.walk(w)) for w in loops)]
    if not pre and not inside:
        ctx.ok(rule, go, "groups are stored only after the closure loop reached its fix point")
        return
    s = (pre + inside)[0]
    ctx.bad(rule, s, "_group_objects stores a group before its closure loop reaches the fix point, and "
            "_optimize_contractions replaces the group by its result without testing that no index it sums "
            "(contraction.contracted) still occurs on a remaining object: the index is summed inside the group "
            "while another tensor still carries it", fn=OC + "_optimize_contractions", key="non-closed group eliminated")


def run(ctx):
    for r, f in (("R16a", r16a), ("R16b", r16b), ("R16c", r16c), ("R16d", r16d), ("R16e", r16e), ("R16f", r16f),
                 ("R16g", r16g)):
        if ctx.want(r):
            f(ctx)
