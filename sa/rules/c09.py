"""C09 Kronecker-delta evaluation."""
from __future__ import annotations

import ast
import itertools

from ..abseval import Interp, Rec
from ..model import (AnalysisError, U, Defs, calls_in, call_name, walk_fn,
                     enclosing_stmt, stmt_lists)
from ..pathcond import conditions
from . import common

EXPLANATION = (
    "R09a: every index substitution in func.evaluate_deltas whose arguments are the "
    "two components of d.preferred_and_killable is dominated by `removed not in "
    "target_idx`, and additionally by d.indices_contain_equal_information when the "
    "removed index is the preferred one; a None pair is skipped before unpacking. "
    "R09b: decision tables of KroneckerDelta.preferred_and_killable and "
    "indices_contain_equal_information extracted over all 81 (space,spin)^2 inputs: "
    "a returned (kept, removed) pair must satisfy info(kept) >= info(removed) "
    "componentwise. R09c: target determination (index is a target iff it occurs on "
    "exactly one factor), propagation of the target list through the recursion, "
    "and re-derivation of the deltas after each substitution.")
ASSUMPTIONS = [
    "sympy's subs replaces every occurrence of the removed index",
    "termination/confluence of the recursion and value preservation for chains "
    "follow from the per-step rules but are not proved",
]

PK = "preferred_and_killable"


def _component(text: str):
    """`d.preferred_and_killable[k]` -> (d, k)"""
    if text.endswith("]") and f".{PK}[" in text:
        base, _, k = text[:-1].rpartition(f".{PK}[")
        if k in ("0", "1"):
            return base, int(k)
    return None


def r09a(ctx):
    fn = ctx.model.fn("func:evaluate_deltas")
    defs = Defs(fn)
    res = defs.resolve
    sites = 0
    for c in calls_in(fn, nested=False):
        if call_name(c) != "subs" or len(c.args) != 2 or c.keywords:
            continue
        a, b = (U(res(x)) for x in c.args)
        ca, cb = _component(a), _component(b)
        if ca is None or cb is None:
            ctx.bad("R09a", c, "substitution whose arguments are not the two components of a "
                    f"delta's preferred_and_killable pair: ({a}, {b})", key="subs args")
            continue
        sites += 1
        d, k = ca
        ctx.check("R09a", c, cb == (d, 1 - k), "replacement is the other index of the same delta",
                  f"index {a} replaced by {b}, which is not the other index of the same delta",
                  key=f"pair k={k}")
        conds = conditions(c, resolve=res)
        targets = [t for (t, pol) in conds if not pol and t.startswith(a + " in ")]
        ctx.check("R09a", c, bool(targets),
                  f"removal of component {k} dominated by `not in {targets[0].split(' in ')[1] if targets else '?'}`",
                  f"the removed index `{U(c.args[0])}` is not known to be outside the target indices "
                  "at this substitution", key=f"target guard k={k}")
        if k == 0:
            ctx.check("R09a", c, (f"{d}.indices_contain_equal_information", True) in conds,
                      "removing the preferred index only with equal information",
                      "the preferred index is removed without the guard "
                      "d.indices_contain_equal_information (information is lost)",
                      key="equal information guard")
        ctx.check("R09a", c, (f"{d}.{PK} is None", False) in conds,
                  "None pair skipped before unpacking",
                  "substitution not dominated by `preferred_and_killable is not None`",
                  key=f"none guard k={k}")
        # the result of subs must be what is carried on
        st = enclosing_stmt(c)
        ctx.check("R09a", c, isinstance(st, ast.Assign) and U(st.targets[0]) == U(c.func.value),
                  "substituted expression replaces the working expression",
                  "result of subs is not assigned back to the working expression", key=f"assign k={k}")
    ctx.floor("R09a", "delta substitution sites in evaluate_deltas", sites, 2)


def _idx(space, spin, tag):
    return Rec("Index", space=space, spin=spin, name=tag)


def _geq(x, y):
    """info(x) >= info(y)"""
    return (y.space == "general" or x.space == y.space) and (y.spin == "" or x.spin == y.spin)


def r09b(ctx):
    cls = "sympy_objects:KroneckerDelta"
    pk = ctx.model.fn(f"{cls}.{PK}")
    eq = ctx.model.fn(f"{cls}.indices_contain_equal_information")
    spaces, spins = ["occ", "virt", "general"], ["", "a", "b"]
    for (s1, p1), (s2, p2) in itertools.product(itertools.product(spaces, spins), repeat=2):
        i, j = _idx(s1, p1, "i"), _idx(s2, p2, "j")
        me = Rec("delta", args=(i, j))
        label = f"({s1[0]}{p1 or 'n'},{s2[0]}{p2 or 'n'})"
        vanishing = (s1 != "general" and s2 != "general" and s1 != s2) or (p1 and p2 and p1 != p2)
        kind, val = Interp({}, what=PK).call(pk, {"self": me})
        if kind == "raise":
            ctx.bad("R09b", pk, f"{label}: raises {val}", key=f"pk {label}")
            continue
        if vanishing:
            continue  # such a delta evaluates to zero and never reaches this code
        if val is None:
            ctx.ok("R09b", pk, f"{label}: not evaluated (None)", key=f"pk {label}")
            continue
        ok = isinstance(val, tuple) and len(val) == 2 and {id(v) for v in val} == {id(i), id(j)}
        if ok:
            keep, kill = val
            ok = _geq(keep, kill)
        ctx.check("R09b", pk, ok, f"{label}: keeps index with >= information",
                  f"{label}: returns {val!r}; the kept (first) index must carry at least the space "
                  "and spin information of the removed (second) index", key=f"pk {label}")
        kind, val2 = Interp({}, what="equal_info").call(eq, {"self": me})
        want = (s1 == s2 and p1 == p2)
        ctx.check("R09b", eq, kind == "return" and bool(val2) == want,
                  f"{label}: equal information == {want}",
                  f"{label}: indices_contain_equal_information gives {val2}, space/spin equality is {want}",
                  key=f"eq {label}")


def r09c(ctx):
    fn = ctx.model.fn("func:evaluate_deltas")
    params = [a.arg for a in fn.args.args]
    if len(params) < 2:
        raise AnalysisError("evaluate_deltas lost its target parameter")
    ex, tg = params[0], params[1]
    rec = [c for c in calls_in(fn, nested=False) if call_name(c) == "evaluate_deltas"]
    ctx.floor("R09c", "recursive calls in evaluate_deltas", len(rec), 1)
    for c in rec:
        second = c.args[1] if len(c.args) > 1 else next(
            (k.value for k in c.keywords if k.arg == tg), None)
        ctx.check("R09c", c, second is not None and U(second) == tg,
                  "recursion passes the determined target indices",
                  f"recursive call `{U(c)}` does not pass `{tg}` on", key="recursion target")
    # ---- Einstein targets: count occurrences per factor
    stores = []
    for n in walk_fn(fn, nested=False):
        if isinstance(n, ast.Assign) and isinstance(n.targets[0], ast.Subscript) \
                and isinstance(n.value, ast.Constant):
            stores.append(n)
    counted = [n for n in walk_fn(fn, nested=False) if isinstance(n, ast.AugAssign)
               and isinstance(n.target, ast.Subscript)]
    ctx.floor("R09c", "counter init/increment in evaluate_deltas", len(stores) + len(counted), 2)
    cname = U(counted[0].target.value) if counted else "?"
    key = U(counted[0].target.slice) if counted else "?"
    for n in counted:
        ctx.check("R09c", n, isinstance(n.op, ast.Add) and U(n.value) == "1"
                  and (f"{key} in {cname}", True) in conditions(n),
                  "repeated occurrence increments the counter",
                  "occurrence counter update is not `+= 1` under `index already seen`",
                  key="counter inc")
    init = None
    for n in stores:
        if U(n.targets[0].value) == cname:
            init = n.value.value
            ctx.check("R09c", n, (f"{U(n.targets[0].slice)} in {cname}", False) in conditions(n),
                      "first occurrence initialises the counter",
                      "counter initialisation not under `index not yet seen`", key="counter init")
    # iteration: every factor, atoms(Index)
    loops = [n for n in walk_fn(fn, nested=False) if isinstance(n, ast.For)]
    it_ok = any(U(l.iter) == f"{ex}.args" and any(
        isinstance(m, ast.For) and U(m.iter) == f"{U(l.target)}.atoms(Index)" for m in ast.walk(l))
        for l in loops)
    ctx.check("R09c", fn, it_ok, "counts Index atoms of every factor",
              "the occurrence count no longer iterates obj.atoms(Index) over all factors",
              key="count iteration")
    # target list = indices with the initial count
    tdefs = [a for a in common.assigns_to(fn, tg) if (f"{tg} is None", True) in conditions(a)]
    ctx.floor("R09c", "Einstein target definition", len(tdefs), 1)
    for a in tdefs:
        v = a.value
        ok = False
        if isinstance(v, ast.ListComp) and len(v.generators) == 1:
            g = v.generators[0]
            if U(g.iter) == f"{cname}.items()" and isinstance(g.target, ast.Tuple) and len(g.ifs) == 1:
                s, n = (U(e) for e in g.target.elts)
                t = U(g.ifs[0])
                if init == 0:
                    ok = U(v.elt) == s and t in (f"not {n}", f"{n} == 0")
                elif init == 1:
                    ok = U(v.elt) == s and t in (f"{n} == 1",)
        ctx.check("R09c", a, ok, "target = index that occurs on exactly one factor",
                  f"Einstein target rule `{U(v)}` (counter starts at {init}) does not select the "
                  "indices that occur on exactly one factor", key="einstein targets")
    # deltas collected: only KroneckerDelta factors
    app = [c for c in calls_in(fn, nested=False) if call_name(c) == "append" and U(c.func.value) == "deltas"]
    for c in app:
        ctx.check("R09c", c, (f"isinstance({U(c.args[0])}, KroneckerDelta)", True) in conditions(c),
                  "only deltas are collected", "non-delta factor collected as delta", key="delta append")
    comps = [a for a in common.assigns_to(fn, "deltas") if isinstance(a.value, ast.ListComp)]
    for a in comps:
        g = a.value.generators[0]
        t = U(g.target)
        ctx.check("R09c", a, U(g.iter) == f"{ex}.args" and [U(i) for i in g.ifs] == [f"isinstance({t}, KroneckerDelta)"]
                  and U(a.value.elt) == t, "explicit targets: deltas among the factors",
                  f"delta collection `{U(a.value)}` is not the KroneckerDelta factors of the product",
                  key="delta list")
    ctx.floor("R09c", "delta collection sites", len(app) + len(comps), 2)
    # explicit targets converted with get_symbols
    conv = [a for a in common.assigns_to(fn, tg) if (f"{tg} is None", False) in conditions(a)]
    for a in conv:
        ctx.check("R09c", a, U(a.value) == f"get_symbols({tg})", "explicit targets via get_symbols",
                  f"explicit target conversion is `{U(a.value)}`", key="explicit targets")
    # after each substitution the deltas are re-derived when more than one is around
    for c in calls_in(fn, nested=False):
        if call_name(c) != "subs":
            continue
        st = enclosing_stmt(c)
        par = st._parent
        lst = next(l for _, l in stmt_lists(par) if any(s is st for s in l))
        k = next(i for i, s in enumerate(lst) if s is st)
        ok = False
        for s in lst[k + 1:]:
            if isinstance(s, ast.If) and U(s.test) in ("len(deltas) > 1", "len(deltas) >= 2", "1 < len(deltas)"):
                last = s.body[-1]
                ok = isinstance(last, ast.Return) and isinstance(last.value, ast.Call) \
                    and call_name(last.value) == "evaluate_deltas" and U(last.value.args[0]) == U(c.func.value)
                break
            if isinstance(s, ast.Return) and isinstance(s.value, ast.Call) and call_name(s.value) == "evaluate_deltas":
                ok = U(s.value.args[0]) == U(c.func.value)
                break
        ctx.check("R09c", c, ok, "remaining deltas re-derived from the substituted expression",
                  "after this substitution the loop continues with stale deltas (no recursion on the "
                  "substituted expression when more than one delta is present)", key="rederive")
    # Add: map over args
    addret = [r for r in common.returns_of(fn) if (f"isinstance({ex}, Add)", True) in conditions(r)]
    ok = False
    for r in addret:
        v = r.value
        if isinstance(v, ast.Call) and v.args and isinstance(v.args[0], ast.Starred) \
                and isinstance(v.args[0].value, (ast.ListComp, ast.GeneratorExp)):
            g = v.args[0].value
            ok = U(g.generators[0].iter) == f"{ex}.args" and not g.generators[0].ifs \
                and call_name(g.elt) == "evaluate_deltas" and U(g.elt.args[0]) == U(g.generators[0].target) \
                and U(v.func) in (f"{ex}.func", "Add")
    ctx.check("R09c", fn, ok, "Add: each argument evaluated with the same targets",
              "Add branch does not map evaluate_deltas over all args", key="add branch")


def run(ctx):
    if ctx.want("R09a"):
        r09a(ctx)
    if ctx.want("R09b"):
        r09b(ctx)
    if ctx.want("R09c"):
        r09c(ctx)
