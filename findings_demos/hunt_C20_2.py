"""
C20 / defect 2: simplify_unitary multiplies a generated delta onto a term that
already contains the same delta. delta_qr * delta_qr collapses to delta_qr
(KroneckerDelta._eval_power), so one occurrence of q and r is lost and - with
the Einstein sum convention (no target indices provided) - the two contracted
indices become target indices: the scalar
    sum_{pqrs} U_pq U_pr U_sq U_sr = tr(U^T U U^T U) = N
is returned as the matrix delta_qr.
Run from the worktree root: /venv/bin/python hunt_out/2/demo.py
"""
import sys
import os
import itertools
from collections import Counter
sys.path.insert(0, os.getcwd())

from sympy import Mul, Pow, Rational, S, Add  # noqa: E402
from adcgen.simplify import simplify_unitary  # noqa: E402
from adcgen.sympy_objects import NonSymmetricTensor as T, KroneckerDelta  # noqa: E402,E501
from adcgen.expr_container import Expr  # noqa: E402
from adcgen.indices import get_symbols  # noqa: E402

DIM = 2  # number of orbitals per space


# --- independent brute-force evaluation (no adcgen logic involved) ---------
def factors(term):
    res = []
    for f in Mul.make_args(term):
        if isinstance(f, Pow) and f.exp.is_Integer:
            res.append((f.base, int(f.exp)))
        else:
            res.append((f, 1))
    return res


def einstein_targets(term):
    """the indices that occur exactly once in a product"""
    cnt = Counter()
    for o, n in factors(term):
        if not o.is_number:
            for s in o.idx:
                cnt[s] += abs(n)
    return frozenset(s for s, n in cnt.items() if n == 1)


def targets_of(expr: Expr):
    """target indices of every term of an adcgen expression: the provided
       ones, or - if none were provided - according to the sum convention"""
    if expr.provided_target_idx is not None:
        return [frozenset(expr.provided_target_idx)
                for _ in Add.make_args(expr.sympy)]
    return [einstein_targets(t) for t in Add.make_args(expr.sympy)]


def value(term, targets, assignment, tensors):
    """value of a product: all non-target indices are summed"""
    idx = sorted({s for o, _ in factors(term) if not o.is_number
                  for s in o.idx}, key=str)
    contracted = [s for s in idx if s not in targets]
    total = S.Zero
    for vals in itertools.product(range(DIM), repeat=len(contracted)):
        asg = dict(assignment)
        asg.update(zip(contracted, vals))
        prod = S.One
        for o, n in factors(term):
            if o.is_number:
                prod *= o**n
            elif type(o).__name__ == "KroneckerDelta":
                a, b = o.idx
                prod *= 1 if asg[a] == asg[b] else 0
            else:
                prod *= tensors[o.name][tuple(asg[s] for s in o.idx)]**n
        total += prod
    return total


# orthogonal 2x2 matrix (rotation with cos = 3/5, sin = 4/5)
c, s = Rational(3, 5), Rational(4, 5)
tensors = {
    "U": {(0, 0): c, (0, 1): -s, (1, 0): s, (1, 1): c},
    "X": {(0,): Rational(2), (1,): Rational(-7, 3)},
}

i, j, k, l, m = get_symbols("ijklm")
U = lambda *idx: T("U", idx)  # noqa: E731
X = lambda *idx: T("X", idx)  # noqa: E731

cases = [
    ("tr(U^T U U^T U) = sum_ijkl U_ij U_ik U_lj U_lk",
     U(i, j) * U(i, k) * U(l, j) * U(l, k)),
    ("sum_ijk delta_jk U_ij U_ik", KroneckerDelta(j, k) * U(i, j) * U(i, k)),
    ("3 sum_ijklm U_ij U_ik U_lj U_lk X_m X_m",
     3 * U(i, j) * U(i, k) * U(l, j) * U(l, k) * X(m)**2),
]

failed = False
for descr, sym in cases:
    expr = Expr(sym)  # no target indices provided: Einstein sum convention
    (target,) = targets_of(expr)
    for evaluate in (False, True):
        out = simplify_unitary(expr, "U", evaluate_deltas=evaluate)
        out_terms = Add.make_args(out.sympy)
        out_targets = targets_of(out)
        msg = None
        if any(t != target for t in out_targets):
            msg = (f"target indices changed: {sorted(target, key=str)} -> "
                   f"{[sorted(t, key=str) for t in out_targets]}")
        else:
            tgt = sorted(target, key=str)
            for vals in itertools.product(range(DIM), repeat=len(tgt)):
                asg = dict(zip(tgt, vals))
                ref = value(expr.sympy, target, asg, tensors)
                res = sum(value(t, target, asg, tensors) for t in out_terms)
                if ref != res:
                    msg = f"value changed for {asg}: {ref} -> {res}"
                    break
        if msg is not None:
            failed = True
            ref0 = value(expr.sympy, target, {}, tensors) if not target else ""
            print(f"MISMATCH  {descr}  (evaluate_deltas={evaluate})")
            print(f"   input  : {expr}   targets {sorted(target, key=str)}"
                  f"   value {ref0}")
            print(f"   output : {out}")
            print(f"   {msg}")
if failed:
    print("DEFECT: the result is not the same tensor as the input")
    sys.exit(1)
print("OK: targets and values preserved")
sys.exit(0)
