from adcgen import Expr, remove_tensor
from adcgen.sympy_objects import AntiSymmetricTensor, SymmetricTensor, NonSymmetricTensor
from adcgen.indices import get_symbols
from sympy import Rational
i,j,a,b = get_symbols('ijab')
V = AntiSymmetricTensor('V',(i,j),(a,b))
D = SymmetricTensor('D',(i,j),(a,b))
e = Expr(-Rational(1,4)*V**2*D)
print({k: str(v) for k,v in remove_tensor(e,"V").items()})
e = Expr(-Rational(1,4)*V**2)
print({k: str(v) for k,v in remove_tensor(e,"V").items()})
w = NonSymmetricTensor('w',(i,j,a,b))
e = Expr(V*V*w)
print({k: str(v) for k,v in remove_tensor(e,"V").items()})
