"""C12 registered intermediate definitions (formula IR)."""
from __future__ import annotations

import ast
import json
import os

from ..model import AnalysisError, U, calls_in, call_name, walk_fn, kwarg
from ..pathcond import conditions
from . import common
from .itmd_ir import registry, definition, canonical, show, space_of, Poly, _Typing, _factor_indices

EXPLANATION = (
    "The body of every _build_expanded_itmd is interpreted symbolically (formula IR: index "
    "variables, eri/fock/orb_energy factors, calls of other intermediates, Rational prefactors, "
    "+ - * /, permute, subs) and brought into a normal form modulo renaming of contracted indices "
    "and the declared (anti)symmetry of every factor. R12a: index typing (arity and position-wise "
    "space of every factor; each target index exactly once and each other index exactly twice per "
    "term outside the denominator; denominators carry target indices only; declared target and "
    "contracted tuples equal what the formula uses). R12b: _build_tensor (slices partition the "
    "indices; amplitudes virtual upper / occupied lower; order digit equals _order; class name "
    "encodes rank/order/space). R12d: every permutational symmetry declared for the tensor "
    "(antisymmetry inside same-space index groups, bra-ket symmetry) holds for the normal form of "
    "the definition, assuming the referenced intermediates have their declared symmetry. R12g: "
    "definitions that expand an intermediate with hidden contracted indices minimise with "
    "substitute_contracted() and recompute the contracted tuple from atoms(Index) - target. R12i: "
    "perturbation order of every term equals _order (maximum for residuals). R12h: the normal form "
    "equals the reference normal form recorded for the pinned tree (cross-checked once against the "
    "derived amplitudes/densities/residuals).")
ASSUMPTIONS = [
    "real orbitals (<pq||rs> = <rs||pq>, f_pq = f_qp) as required by the factorisation routines",
    "the identity of each reference formula with the RSPT quantity was confirmed once by running the library "
    "(definition vs GroundState derivation); the static check decides agreement with that reference",
    "R12f (declared spin blocks) is computed by the library at run time and not decided",
]

ORACLE = os.path.join(os.path.dirname(os.path.dirname(os.path.abspath(__file__))), "oracle", "itmd_normal_forms.json")


def _load(ctx, name):
    try:
        return definition(ctx, name)
    except _Typing as t:
        return t


def r12a(ctx, defs):
    rule = "R12a"
    reg = registry(ctx)
    for name, d in defs.items():
        info = reg[name]
        fn = info["build"]
        ref = f"intermediates:{name}._build_expanded_itmd"
        if isinstance(d, _Typing):
            ctx.bad(rule, d.node, d.msg, fn=ref, key=f"{name} typing")
            continue
        poly, target, contracted = d
        ctx.check(rule, fn, tuple(target) == tuple(info["default_idx"]), f"{name}: declared targets are the default indices",
                  f"{name}: base_expr target {tuple(target)} differs from _default_idx {info['default_idx']}", fn=ref, key=f"{name} target")
        tset = set(target)
        used = set()
        bad = None
        for coef, fs in poly.terms:
            if coef == 0:
                continue
            cnt = {}
            for f in fs:
                if f[0] == "denom":
                    for i in _factor_indices(f):
                        if i not in tset and bad is None:
                            bad = f"denominator carries the non-target index {i}"
                    continue
                for i in _factor_indices(f):
                    cnt[i] = cnt.get(i, 0) + 1
            for i, n in cnt.items():
                if i in tset and n != 1 and bad is None:
                    bad = f"target index {i} occurs {n} times in one term"
                if i not in tset:
                    used.add(i)
                    if n != 2 and bad is None:
                        bad = f"summation index {i} occurs {n} times in one term"
            missing = tset - set(cnt)
            if missing and bad is None:
                bad = f"a term does not carry the target index/indices {sorted(missing)}"
        ctx.check(rule, fn, bad is None, f"{name}: every term has the target indices once and summation indices twice",
                  f"{name}: {bad}", fn=ref, key=f"{name} index counts")
        decl = set(contracted or ())
        ctx.check(rule, fn, decl == used, f"{name}: declared contracted indices {sorted(decl)} are the summation indices used",
                  f"{name}: base_expr declares the contracted indices {sorted(decl)} but the formula sums over {sorted(used)}: "
                  "undeclared indices are never refreshed by expand_itmd and are shared by all later expansions", fn=ref,
                  key=f"{name} contracted")


def r12b(ctx):
    rule = "R12b"
    reg = registry(ctx)
    import re
    for name, info in reg.items():
        ref = f"intermediates:{name}._build_tensor"
        bt = info["build_tensor"]
        ctx.check(rule, bt, info["partition_ok"], f"{name}: slices partition the indices", f"{name}: slices {info['slices']} overlap or leave a gap",
                  fn=ref, key=f"{name} partition")
        if info["tensor_kind"] == "Amplitude":
            up, lo = info["groups"]
            ok = all(space_of(x) == "v" for x in up) and all(space_of(x) == "o" for x in lo) and len(up) == len(lo)
            ctx.check(rule, bt, ok, f"{name}: virtual upper, occupied lower (convention of GroundState.psi)",
                      f"{name}: amplitude built with upper={up}, lower={lo}", fn=ref, key=f"{name} amplitude groups")
        if info["tensor_name_cfg"] in ("gs_amplitude", "gs_density"):
            ctx.check(rule, bt, info["tensor_ext"] == str(info["order"]), f"{name}: order digit {info['tensor_ext']} == _order",
                      f"{name}: tensor name carries order `{info['tensor_ext']}` but _order is {info['order']}", fn=ref, key=f"{name} order digit")
        m = re.fullmatch(r"t(\d)_(\d)", name)
        if m:
            n_occ = sum(1 for x in info["default_idx"] if space_of(x) == "o")
            n_virt = sum(1 for x in info["default_idx"] if space_of(x) == "v")
            ctx.check(rule, info["cls"], int(m.group(1)) == n_occ == n_virt and int(m.group(2)) == info["order"],
                      f"{name}: rank and order encoded in the class name", f"{name}: class name does not match {n_occ} occ / {n_virt} virt "
                      f"defaults and order {info['order']}", fn=f"intermediates:{name}", key=f"{name} class name")
        m = re.fullmatch(r"p0_(\d)_([ov]{2})", name)
        if m:
            sp = "".join(space_of(x) for x in info["default_idx"])
            ctx.check(rule, info["cls"], int(m.group(1)) == info["order"] and m.group(2) == sp, f"{name}: order and block encoded in the class name",
                      f"{name}: class name does not match block {sp} / order {info['order']}", fn=f"intermediates:{name}", key=f"{name} class name")


def r12d(ctx, defs):
    rule = "R12d"
    reg = registry(ctx)
    n = 0
    for name, d in defs.items():
        if isinstance(d, _Typing):
            continue
        info = reg[name]
        if info["tensor_kind"] == "NonSymmetricTensor":
            continue
        poly, target, _ = d
        base = canonical(poly, target, reg)
        ref = f"intermediates:{name}._build_expanded_itmd"
        for grp in info["groups"]:
            if info["tensor_kind"] == "SymmetricTensor":
                continue
            for a, b in zip(grp, grp[1:]):
                if space_of(a) != space_of(b):
                    continue
                n += 1
                perm = canonical(poly.permute((a, b)), target, reg)
                neg = {k: -v for k, v in base.items()}
                ctx.check(rule, info["build"], perm == neg, f"{name}: antisymmetric under P_{a}{b}",
                          f"{name}: the tensor is declared antisymmetric in ({a},{b}) but the definition is not: "
                          f"P_{a}{b} X + X has {len(_diff(perm, neg))} non-cancelling term(s), e.g. {_example(perm, neg)}", fn=ref,
                          key=f"{name} P_{a}{b}")
        if info["bra_ket_sym"] == 1 and len(info["groups"]) == 2 and len(info["groups"][0]) == len(info["groups"][1]):
            up, lo = info["groups"]
            if all(space_of(x) == space_of(y) for x, y in zip(up, lo)):
                n += 1
                mp = {}
                for x, y in zip(up, lo):
                    mp[x], mp[y] = y, x
                sw = canonical(poly.rename(mp), target, reg)
                ctx.check(rule, info["build"], sw == base, f"{name}: symmetric under bra-ket exchange",
                          f"{name}: the tensor is declared bra-ket symmetric but the definition changes under {up}<->{lo}: "
                          f"{_example(sw, base)}", fn=ref, key=f"{name} braket")
    ctx.floor(rule, "declared symmetry operations checked", n, 25)


def _diff(a, b):
    return [k for k in set(a) | set(b) if a.get(k, 0) != b.get(k, 0)]


def _example(a, b):
    d = _diff(a, b)
    if not d:
        return "-"
    k = sorted(d, key=repr)[0]
    return show({k: a.get(k, 0) - b.get(k, 0)})[0][:160]


def r12g(ctx, defs):
    rule = "R12g"
    reg = registry(ctx)
    hidden = {n for n, d in defs.items() if not isinstance(d, _Typing) and d[2]}
    n = 0
    for name, info in reg.items():
        fn = info["build"]
        ref = f"intermediates:{name}._build_expanded_itmd"
        refs = set()
        for a in walk_fn(fn):
            if isinstance(a, (ast.Assign, ast.AnnAssign)) and a.value is not None and "self._registry[" in U(a.value):
                try:
                    refs.add(ast.literal_eval(a.value.slice))
                except Exception:
                    raise AnalysisError(f"{name}: registry lookup `{U(a.value)}` not literal")
        needs = bool(refs & hidden) and info["itmd_type"] != "re_residual"
        ret = common.returns_of(fn)[-1].value
        third = U(ret.args[2]) if isinstance(ret, ast.Call) and len(ret.args) == 3 else "?"
        if not needs:
            continue
        n += 1
        recompute = [a for a in walk_fn(fn) if isinstance(a, ast.Assign) and "contracted" in [U(t) for t in a.targets]
                     and ("fully_expand", True) in conditions(a)]
        ok = False
        for a in recompute:
            v = U(a.value).replace(" ", "")
            if v.startswith("tuple(sorted([sforsin") and ".atoms(Index)ifsnotintarget],key=sort_idx_canonical))" in v:
                ok = True
        sc = [c for c in calls_in(fn) if call_name(c) == "substitute_contracted" and ("fully_expand", True) in conditions(c)]
        ctx.check(rule, fn, ok and bool(sc) and third == "contracted",
                  f"{name}: fully expanded variant minimises and recomputes its contracted indices",
                  f"{name} expands {sorted(refs & hidden)}, whose definitions bring their own summation indices; in the fully_expand "
                  "branch the contracted tuple must be recomputed as sorted(atoms(Index) - target) after substitute_contracted() "
                  f"(found: recompute={ok}, substitute_contracted={bool(sc)}, returned `{third}`): otherwise the hidden indices are "
                  "never refreshed and collide with target names like k, l, c, d", fn=ref, key=f"{name} contracted bookkeeping")
    ctx.floor(rule, "definitions that expand intermediates with hidden summation indices", n, 7)


def r12i(ctx, defs):
    rule = "R12i"
    reg = registry(ctx)
    for name, d in defs.items():
        if isinstance(d, _Typing):
            continue
        info = reg[name]
        poly, target, _ = d
        orders = []
        for coef, fs in poly.terms:
            if coef == 0:
                continue
            o = 0
            for f in fs:
                if f[0] == "eri":
                    o += 1
                elif f[0] == "itmd":
                    o += reg[f[1]]["order"]
            orders.append(o)
        ref = f"intermediates:{name}._build_expanded_itmd"
        if info["itmd_type"] == "re_residual":
            ok = max(orders) == info["order"]
            what = f"maximum order of the terms {max(orders)}"
        else:
            ok = set(orders) == {info["order"]}
            what = f"orders of the terms {sorted(set(orders))}"
        ctx.check(rule, info["build"], ok, f"{name}: perturbation order {info['order']} = (#integrals + orders of the referenced intermediates)",
                  f"{name}: _order is {info['order']} but {what}: a referenced intermediate of the wrong order or a missing integral",
                  fn=ref, key=f"{name} order")


def r12h(ctx, defs):
    rule = "R12h"
    reg = registry(ctx)
    if not os.path.exists(ORACLE):
        raise AnalysisError("reference normal forms missing")
    with open(ORACLE) as f:
        oracle = json.load(f)["normal_forms"]
    for name, d in defs.items():
        if isinstance(d, _Typing):
            continue
        poly, target, _ = d
        nf = show(canonical(poly, target, reg))
        want = oracle.get(name)
        ref = f"intermediates:{name}._build_expanded_itmd"
        if want is None:
            ctx.bad(rule, reg[name]["build"], f"{name}: no reference normal form recorded", fn=ref, key=f"{name} reference")
            continue
        extra = [t for t in nf if t not in want]
        missing = [t for t in want if t not in nf]
        ctx.check(rule, reg[name]["build"], not extra and not missing, f"{name}: {len(nf)} term(s) equal the reference normal form",
                  f"{name}: the definition differs from the reference formula: unexpected {extra[:2]} / missing {missing[:2]}",
                  fn=ref, key=f"{name} reference")
    gone = [n for n in oracle if n not in defs]
    ctx.check(rule, None, not gone, "every reference definition still registered", f"registered definitions vanished: {gone}",
              fn="intermediates", key="registered set")


def run(ctx):
    reg = registry(ctx)
    ctx.floor("R12a", "registered definitions", len(reg), 25)
    defs = {n: _load(ctx, n) for n in reg}
    if ctx.want("R12a"):
        r12a(ctx, defs)
    if ctx.want("R12b"):
        r12b(ctx)
    if ctx.want("R12d"):
        r12d(ctx, defs)
    if ctx.want("R12g"):
        r12g(ctx, defs)
    if ctx.want("R12i"):
        r12i(ctx, defs)
    if ctx.want("R12h"):
        r12h(ctx, defs)
