I = "intermediates.py"
E = "expr_container.py"
WITNESSES = [
    dict(id="c12-t2_3-singles-typo", prop="C12", file=I, expect="R12h",
         old="        base = t1(indices=(k, b)) * eri((i, j, k, a))", new="        base = t1(indices=(k, a)) * eri((i, j, k, b))"),
    dict(id="c12-residual-wrong-order", prop="C12", file=I, expect="R12i",
         old="        # t2_1 class instance\n        t2: t2_2 = self._registry['t_amplitude']['t2_2']", new="        # t2_1 class instance\n        t2: t2_2 = self._registry['t_amplitude']['t2_1']"),
    dict(id="c12-p0_3_oo-contracted", prop="C12", file=I, expect="R12g",
         old="        target = (i, j)\n        if fully_expand:\n            p0 = e.Expr(p0, target_idx=target).substitute_contracted().sympy\n            contracted = tuple(sorted(\n                [s for s in p0.atoms(Index) if s not in target],\n                key=sort_idx_canonical\n            ))\n        else:\n            contracted = (k, a, b)\n        return base_expr(p0, target, contracted)",
         new="        target = (i, j)\n        contracted = (k, a, b)\n        return base_expr(p0, target, contracted)"),
    dict(id="c12-typing-space", prop="C12", file=I, expect="R12a",
         old="        term1 = (Rational(1, 2) *\n                 t2(indices=(i, j, b, c), return_sympy=True) *", new="        term1 = (Rational(1, 2) *\n                 t2(indices=(i, b, j, c), return_sympy=True) *"),
    dict(id="c12-typing-count", prop="C12", file=I, expect="R12a",
         old="                 t2(indices=(j, k, a, b), return_sympy=True) *\n                 eri([j, k, i, b]))\n        return base_expr(term1/denom + term2/denom, (i, a), (j, k, b, c))",
         new="                 t2(indices=(j, k, a, b), return_sympy=True) *\n                 eri([j, k, i, c]))\n        return base_expr(term1/denom + term2/denom, (i, a), (j, k, b, c))"),
    dict(id="c12-contracted-decl", prop="C12", file=I, expect="R12a",
         old="        return base_expr(t2eri, (i, j, a, b), (k, c))", new="        return base_expr(t2eri, (i, j, a, b), (k,))"),
    dict(id="c12-antisym-missing-term", prop="C12", file=I, expect="R12d",
         old="        itmd += (base.sympy - base.copy().permute((i, j)).sympy\n                 - base.copy().permute((a, b)).sympy\n                 + base.copy().permute((i, j), (a, b)).sympy)\n        return base_expr(itmd / denom, (i, j, a, b), (k, l, c, d))",
         new="        itmd += (base.sympy - base.copy().permute((i, j)).sympy\n                 - base.copy().permute((a, b)).sympy)\n        return base_expr(itmd / denom, (i, j, a, b), (k, l, c, d))"),
    dict(id="c12-antisym-sign", prop="C12", file=I, expect="R12d",
         old="                - base.copy().permute((j, k)).sympy\n                - base.copy().permute((a, b)).sympy", new="                + base.copy().permute((j, k)).sympy\n                - base.copy().permute((a, b)).sympy"),
    dict(id="c12-t4-permutations", prop="C12", file=I, expect="R12d",
         old="        o_permutations = {tuple(tuple()): 1, ((j, k),): -1, ((j, l),): -1}", new="        o_permutations = {tuple(tuple()): 1, ((j, k),): -1, ((k, l),): -1}"),
    dict(id="c12-density-sym", prop="C12", file=I, expect="R12d",
         old="        p0 += p0.subs({i: j, j: i}, simultaneous=True)\n", new=""),
    dict(id="c12-prefactor", prop="C12", file=I, expect="R12h",
         old="        itmd += (Rational(1, 4) * eri([j, k, b, c]) *\n                 t3(indices=(i, j, k, a, b, c), return_sympy=True))", new="        itmd += (Rational(1, 2) * eri([j, k, b, c]) *\n                 t3(indices=(i, j, k, a, b, c), return_sympy=True))"),
    dict(id="c12-denominator", prop="C12", file=I, expect="R12h",
         old="        denom = orb_energy(i) - orb_energy(a)\n        term1 = (Rational(1, 2) *", new="        denom = orb_energy(a) - orb_energy(i)\n        term1 = (Rational(1, 2) *"),
    dict(id="c12-tensor-groups", prop="C12", file=I, expect="R12b",
         old='            f"{tensor_names.gs_amplitude}2", indices[3:], indices[:3]', new='            f"{tensor_names.gs_amplitude}2", indices[:3], indices[3:]'),
    dict(id="c12-order-digit", prop="C12", file=I, expect="R12b",
         old='            f"{tensor_names.gs_amplitude}3", (indices[1],), (indices[0],))', new='            f"{tensor_names.gs_amplitude}2", (indices[1],), (indices[0],))'),
    dict(id="c12-default-idx-order", prop="C12", file=I, expect="R12a",
         old="    _default_idx: tuple[str] = ('i', 'a', 'j', 'b')", new="    _default_idx: tuple[str] = ('i', 'j', 'a', 'b')"),
    # behaviour preserving rewrites of a definition
    dict(id="c12-ok-equivalent-form", prop="C12", file=I, expect=None,
         old="        base = (\n            t2(indices=(i, k, a, c)) * eri((k, b, j, c))\n        )",
         new="        base = (\n            eri((j, c, k, b)) * t2(indices=(k, i, c, a))\n        )"),
    dict(id="c12-ok-rename-contracted", prop="C12", file=I, expect=None,
         old="        # additional contracted indices\n        j, k, b, c = get_symbols('jkbc')\n        # t2_1 class instance\n        t2: t2_1 = self._registry['t_amplitude']['t2_1']\n        t2 = t2.expand_itmd if fully_expand else t2.tensor\n        # build the amplitude\n        denom = orb_energy(i) - orb_energy(a)",
         new="        # additional contracted indices\n        k, j, c, b = get_symbols('jkbc')\n        # t2_1 class instance\n        t2: t2_1 = self._registry['t_amplitude']['t2_1']\n        t2 = t2.expand_itmd if fully_expand else t2.tensor\n        # build the amplitude\n        denom = -(orb_energy(a) - orb_energy(i))"),
    dict(id="c12-ok-split-prefactor", prop="C12", file=I, expect=None,
         old="        itmd = (- Rational(1, 2) * eri((i, j, k, l)) *\n                t2(indices=(k, l, a, b), return_sympy=True))",
         new="        itmd = (- Rational(1, 4) * eri((i, j, k, l)) *\n                t2(indices=(k, l, a, b), return_sympy=True))\n        itmd -= (Rational(1, 4) * eri((j, i, l, k)) *\n                 t2(indices=(k, l, a, b), return_sympy=True))"),
    # ---- behaviour preserving refactorings of kinds that are not in the refactoring corpus (all silent)
    # explicit antisymmetriser sum -> loop over a (sign, permutations) table
    dict(id="c12-ok-sign-table-loop", prop="C12", file=I, expect=None,
         old="        itmd += (base.sympy - base.copy().permute((i, j)).sympy\n                 - base.copy().permute((a, b)).sympy\n                 + base.copy().permute((i, j), (a, b)).sympy)\n        return base_expr(itmd / denom, (i, j, a, b), (k, l, c, d))",
         new="        for sign, perms in ((1, ()), (-1, ((i, j),)), (-1, ((a, b),)), (1, ((i, j), (a, b)))):\n            itmd += sign * base.copy().permute(*perms).sympy\n        return base_expr(itmd / denom, (i, j, a, b), (k, l, c, d))"),
    # accumulation loop over itertools.product -> sum() of a nested generator
    dict(id="c12-ok-generator-sum", prop="C12", file=I, expect=None,
         old="        t4 = 0\n        for (o_perms, o_factor), (v_perms, v_factor) in \\\n                product(o_permutations.items(), v_permutations.items()):\n            perms = o_perms + v_perms\n            t4 += o_factor * v_factor * base.copy().permute(*perms).sympy\n",
         new="        t4 = sum(o_factor * v_factor * base.copy().permute(*(o_perms + v_perms)).sympy\n                 for o_perms, o_factor in o_permutations.items()\n                 for v_perms, v_factor in v_permutations.items())\n"),
    # for loop -> while loop with an explicit counter
    dict(id="c12-ok-while-loop", prop="C12", file=I, expect=None,
         old="        t4 = 0\n        for (o_perms, o_factor), (v_perms, v_factor) in \\\n                product(o_permutations.items(), v_permutations.items()):\n            perms = o_perms + v_perms\n            t4 += o_factor * v_factor * base.copy().permute(*perms).sympy\n",
         new="        t4 = 0\n        todo = list(product(o_permutations.items(), v_permutations.items()))\n        n = 0\n        while n < len(todo):\n            (o_perms, o_factor), (v_perms, v_factor) = todo[n]\n            n += 1\n            t4 += o_factor * v_factor * base.copy().permute(*(o_perms + v_perms)).sympy\n"),
    # algebra: common denominator instead of term-wise division
    dict(id="c12-ok-common-denominator", prop="C12", file=I, expect=None,
         old="        return base_expr(term1/denom + term2/denom, (i, a), (j, k, b, c))",
         new="        return base_expr((term1 + term2) / denom, (i, a), (j, k, b, c))"),
    # slices of `indices` spelled differently in _build_tensor (negative / explicit bounds, slice instead of 1-tuple)
    dict(id="c12-ok-slice-spelling", prop="C12", file=I, expect=None,
         edits=[('            f"{tensor_names.gs_amplitude}2", indices[3:], indices[:3]', '            f"{tensor_names.gs_amplitude}2", indices[-3:], indices[0:3]'),
                ('            f"{tensor_names.gs_amplitude}3", (indices[1],), (indices[0],))', '            f"{tensor_names.gs_amplitude}3", indices[1:2], indices[:1])'),
                ("        return AntiSymmetricTensor('t2eri1', indices[:2], indices[2:])", "        lower = tuple(indices[k] for k in range(2, len(indices)))\n        return AntiSymmetricTensor('t2eri1', lower=lower, upper=indices[:-2])")]),
    # class attributes: computed constants instead of literals; tensor name by concatenation instead of an f-string
    dict(id="c12-ok-computed-class-attributes", prop="C12", file=I, expect=None,
         edits=[('    """Second order MP triples amplitude."""\n    _itmd_type: str = \'t_amplitude\'\n    _order: int = 2\n    _default_idx: tuple[str] = (\'i\', \'j\', \'k\', \'a\', \'b\', \'c\')',
                 '    """Second order MP triples amplitude."""\n    _itmd_type: str = \'t_\' + \'amplitude\'\n    _order: int = 1 + 1\n    _default_idx: tuple[str] = tuple(\'ijk\') + tuple(\'abc\')'),
                ('            f"{tensor_names.gs_density}2", (indices[0],), (indices[1],), 1)', '            tensor_names.gs_density + str(2), (indices[0],), (indices[1],), 1)')]),
    # identical _build_tensor of the third order density blocks pulled up into a mixin class
    dict(id="c12-ok-pull-up-mixin", prop="C12", file=I, expect=None,
         edits=[('class p0_3_oo(RegisteredIntermediate):', 'class _ThirdOrderDensityTensor:\n    def _build_tensor(self, indices) -> AntiSymmetricTensor:\n        return AntiSymmetricTensor(\n            f"{tensor_names.gs_density}3", (indices[0],), (indices[1],), 1)\n\n\nclass p0_3_oo(_ThirdOrderDensityTensor, RegisteredIntermediate):'),
                ('class p0_3_vv(RegisteredIntermediate):', 'class p0_3_vv(_ThirdOrderDensityTensor, RegisteredIntermediate):'),
                ('            contracted = (i, j, c)\n        return base_expr(p0, target, contracted)\n\n    def _build_tensor(self, indices) -> AntiSymmetricTensor:\n        return AntiSymmetricTensor(\n            f"{tensor_names.gs_density}3", (indices[0],), (indices[1],), 1)\n',
                 '            contracted = (i, j, c)\n        return base_expr(p0, target, contracted)\n')]),
    # independent contributions added in another order
    dict(id="c12-ok-reordered-contributions", prop="C12", file=I, expect=None,
         old="        itmd = (Rational(1, 2) * eri([j, a, b, c]) *\n                t2(indices=(i, j, b, c), return_sympy=True))\n        itmd += (Rational(1, 2) * eri([j, k, i, b]) *\n                 t2(indices=(j, k, a, b), return_sympy=True))\n        itmd -= (t1(indices=(j, b), return_sympy=True) *\n                 eri([i, b, j, a]))\n",
         new="        itmd = - (t1(indices=(j, b), return_sympy=True) *\n                  eri([i, b, j, a]))\n        itmd += (Rational(1, 2) * eri([j, k, i, b]) *\n                 t2(indices=(j, k, a, b), return_sympy=True))\n        itmd += (Rational(1, 2) * eri([j, a, b, c]) *\n                 t2(indices=(i, j, b, c), return_sympy=True))\n"),
    # variant selected by dynamic attribute lookup with constant names
    dict(id="c12-ok-getattr-variant", prop="C12", file=I, expect=None,
         old="        t2 = t2.expand_itmd if fully_expand else t2.tensor\n        td2 = td2.expand_itmd if fully_expand else td2.tensor\n        # build the density\n        p0 = (- Rational(1, 2) *",
         new="        variant = 'expand_itmd' if fully_expand else 'tensor'\n        t2, td2 = (getattr(amp, variant) for amp in (t2, td2))\n        # build the density\n        p0 = (- Rational(1, 2) *"),
    # contracted indices of the fully expanded variant by set difference instead of a filtering comprehension
    dict(id="c12-ok-set-difference", prop="C12", file=I, expect=None,
         old="            itmd = itmd.substitute_contracted().sympy\n            contracted = tuple(sorted(\n                [s for s in itmd.atoms(Index) if s not in target],\n                key=sort_idx_canonical\n            ))\n        else:\n            contracted = (j, k, b, c)",
         new="            itmd = itmd.substitute_contracted().sympy\n            contracted = tuple(sorted(itmd.atoms(Index) - set(target), key=sort_idx_canonical))\n        else:\n            contracted = (j, k, b, c)"),
    # function-local import under another name, arguments passed by unpacking
    dict(id="c12-ok-import-alias-arg-unpacking", prop="C12", file=I, expect=None,
         old="        i, j, a, b = get_symbols(self.default_idx)\n        # generate additional contracted indices (2o)\n        k, l = get_symbols('kl')  # noqa E741\n        # t2_1 class instance for generating t2_1 amplitudes\n        t2: t2_1 = self._registry['t_amplitude']['t2_1']\n        t2 = t2.expand_itmd if fully_expand else t2.tensor\n        # build the intermediate\n        t2eri = (t2(indices=(k, l, a, b), return_sympy=True) *\n                 eri((i, j, k, l)))",
         new="        from .indices import get_symbols as symbols\n        i, j, a, b = symbols(self.default_idx)\n        # generate additional contracted indices (2o)\n        k, l = symbols('kl')  # noqa E741\n        # t2_1 class instance for generating t2_1 amplitudes\n        t2: t2_1 = self._registry['t_amplitude']['t2_1']\n        t2 = t2.expand_itmd if fully_expand else t2.tensor\n        # build the intermediate\n        options = dict(indices=(k, l, a, b), return_sympy=True)\n        t2eri = (t2(**options) *\n                 eri(*[(i, j, k, l)]))"),
    # guard of an integral builder by unpacking + exception instead of a length test
    dict(id="c12-ok-builder-exception-guard", prop="C12", file=I, expect=None,
         old="    idx = get_symbols(idx)\n    if len(idx) != 2:\n        raise Inputerror('2 indices required to build a Fock matrix element.'\n                         f'Got: {idx}.')\n    return AntiSymmetricTensor(tensor_names.fock, idx[:1], idx[1:])",
         new="    try:\n        p, q = get_symbols(idx)\n    except ValueError:\n        raise Inputerror('2 indices required to build a Fock matrix element.'\n                         f'Got: {idx}.')\n    return AntiSymmetricTensor(tensor_names.fock, (p,), (q,))"),
    # algebra: multiplication with the reciprocal (1 / x, Pow(x, -1)) instead of division
    dict(id="c12-ok-reciprocal", prop="C12", file=I, expect=None,
         old="        return base_expr(term1/denom + term2/denom, (i, a), (j, k, b, c))",
         new="        inv = 1 / denom\n        return base_expr(term1 * inv + term2 * Pow(denom, -1), (i, a), (j, k, b, c))"),
    # variadic closure for the amplitude, sympy constant S.Half instead of Rational(1, 2), index names given as a string
    dict(id="c12-ok-closure-constants-index-string", prop="C12", file=I, expect=None,
         old="        term1 = (Rational(1, 2) *\n                 t2(indices=(i, j, b, c), return_sympy=True) *\n                 eri([j, a, b, c]))\n        term2 = (Rational(1, 2) *\n                 t2(indices=(j, k, a, b), return_sympy=True) *\n                 eri([j, k, i, b]))",
         new="        def amp(*idx):\n            return t2(indices=idx, return_sympy=True)\n        half = S.Half\n        term1 = half * amp(i, j, b, c) * eri([j, a, b, c])\n        term2 = half * amp(j, k, a, b) * eri('jkib')"),
    # class attributes taken from / computed from another registered class
    dict(id="c12-ok-class-attribute-reference", prop="C12", file=I, expect=None,
         old="    \"\"\"Second order MP doubles amplitude.\"\"\"\n    _itmd_type: str = 't_amplitude'\n    _order: int = 2\n    _default_idx: tuple[str] = ('i', 'j', 'a', 'b')",
         new="    \"\"\"Second order MP doubles amplitude.\"\"\"\n    _itmd_type: str = t2_1._itmd_type\n    _order: int = t2_1._order + 1\n    _default_idx: tuple[str] = t2_1._default_idx"),
    # _build_tensor: computed split point, %-formatted name with self.order, keyword arguments in the other order
    dict(id="c12-ok-tensor-computed-split", prop="C12", file=I, expect=None,
         old="        return Amplitude(\n            f\"{tensor_names.gs_amplitude}2\", indices[4:], indices[:4]\n        )",
         new="        o, v = indices[:len(indices) // 2], indices[len(indices) // 2:]\n        return Amplitude('%s%d' % (tensor_names.gs_amplitude, self.order), lower=o, upper=v)"),
    # once expanded variant returned early with keyword arguments of the namedtuple, filter(lambda) instead of a comprehension
    dict(id="c12-ok-early-return-filter", prop="C12", file=I, expect=None,
         old="        target = (i, j)\n        if fully_expand:\n            p0 = e.Expr(p0, target_idx=target).substitute_contracted().sympy\n            contracted = tuple(sorted(\n                [s for s in p0.atoms(Index) if s not in target],\n                key=sort_idx_canonical\n            ))\n        else:\n            contracted = (k, a, b)\n        return base_expr(p0, target, contracted)",
         new="        target = (i, j)\n        if not fully_expand:\n            return base_expr(contracted=(k, a, b), expr=p0, target=target)\n        p0 = e.Expr(p0, target_idx=target).substitute_contracted().sympy\n        return base_expr(p0, target, tuple(sorted(\n            filter(lambda s: s not in target, p0.atoms(Index)), key=sort_idx_canonical)))"),
    # antisymmetriser extracted into a module level helper that takes the index pairs as arguments
    dict(id="c12-ok-antisymmetriser-helper", prop="C12", file=I, expect=None,
         edits=[("class t2_1(RegisteredIntermediate):\n    \"\"\"First order MP doubles amplitude.\"\"\"",
                 "def _antisym_ij_ab(base, i, j, a, b):\n    return (base.sympy - base.copy().permute((i, j)).sympy\n            - base.copy().permute((a, b)).sympy\n            + base.copy().permute((i, j), (a, b)).sympy)\n\n\nclass t2_1(RegisteredIntermediate):\n    \"\"\"First order MP doubles amplitude.\"\"\""),
                ("        itmd += (base.sympy - base.copy().permute((i, j)).sympy\n                 - base.copy().permute((a, b)).sympy\n                 + base.copy().permute((i, j), (a, b)).sympy)\n        return base_expr(itmd / denom, (i, j, a, b), (k, l, c, d))",
                 "        itmd += _antisym_ij_ab(base, i, j, a, b)\n        return base_expr(itmd / denom, (i, j, a, b), (k, l, c, d))")]),
    # ---- breaking witnesses for the checks introduced with the evaluation based rules
    dict(id="c12-eri-builder-split", prop="C12", file=I, expect="R12c",
         old="    return AntiSymmetricTensor(tensor_names.eri, idx[:2], idx[2:])", new="    return AntiSymmetricTensor(tensor_names.eri, idx[:1], idx[1:])"),
    dict(id="c12-eri-builder-name", prop="C12", file=I, expect="R12c",
         old="    return AntiSymmetricTensor(tensor_names.eri, idx[:2], idx[2:])", new="    return AntiSymmetricTensor(tensor_names.coulomb, idx[:2], idx[2:])"),
    dict(id="c12-fock-builder-guard", prop="C12", file=I, expect="R12c",
         old="    if len(idx) != 2:\n        raise Inputerror('2 indices required to build a Fock matrix element.'", new="    if len(idx) > 2:\n        raise Inputerror('2 indices required to build a Fock matrix element.'"),
    dict(id="c12-orb-energy-builder-kind", prop="C12", file=I, expect="R12c",
         old="    return NonSymmetricTensor(tensor_names.orb_energy, idx)", new="    return NonSymmetricTensor(tensor_names.sym_orb_denom, idx)"),
    # only the fully expanded variant (the library default) is wrong: first order doubles instead of second order
    dict(id="c12-full-variant-wrong-amplitude", prop="C12", file=I, expect="R12j",
         old="            _t2_1 = _t2_1.expand_itmd\n            t1 = t1.expand_itmd\n            t2 = t2.expand_itmd", new="            _t2_1 = _t2_1.expand_itmd\n            t1 = t1.expand_itmd\n            t2 = _t2_1"),
    dict(id="c12-full-variant-wrong-density", prop="C12", file=I, expect="R12j",
         old="        td2 = td2.expand_itmd if fully_expand else td2.tensor\n        # build the density\n        p0 = (Rational(1, 2) *", new="        td2 = t2 if fully_expand else td2.tensor\n        # build the density\n        p0 = (Rational(1, 2) *"),
    dict(id="c12-full-variant-extra-factor", prop="C12", file=I, expect="R12j",
         old="            pib = e.Expr(pib, target_idx=target).substitute_contracted().sympy", new="            pib = 2 * e.Expr(pib, target_idx=target).substitute_contracted().sympy"),
    # contracted tuple of the fully expanded variant taken before the indices are minimised (stale names)
    dict(id="c12-contracted-before-minimisation", prop="C12", file=I, expect="R12g",
         old="            p0 = e.Expr(p0, target_idx=target).substitute_contracted().sympy\n            contracted = tuple(sorted(\n                [s for s in p0.atoms(Index) if s not in target],\n                key=sort_idx_canonical\n            ))\n        else:\n            contracted = (i, j, c)",
         new="            contracted = tuple(sorted(\n                [s for s in p0.atoms(Index) if s not in target],\n                key=sort_idx_canonical\n            ))\n            p0 = e.Expr(p0, target_idx=target).substitute_contracted().sympy\n        else:\n            contracted = (i, j, c)"),
    # target indices declared as contracted (filter dropped)
    dict(id="c12-contracted-includes-targets", prop="C12", file=I, expect="R12g",
         old="            pia = e.Expr(pia, target_idx=target).substitute_contracted().sympy\n            contracted = tuple(sorted(\n                [s for s in pia.atoms(Index) if s not in target],",
         new="            pia = e.Expr(pia, target_idx=target).substitute_contracted().sympy\n            contracted = tuple(sorted(\n                [s for s in pia.atoms(Index)],"),
    # inherited class attribute evaluated, not read as a literal: order of the class no longer matches the formula
    dict(id="c12-computed-order-wrong", prop="C12", file=I, expect=["R12i", "R12b"],
         old='    """Second order MP triples amplitude."""\n    _itmd_type: str = \'t_amplitude\'\n    _order: int = 2', new='    """Second order MP triples amplitude."""\n    _itmd_type: str = \'t_amplitude\'\n    _order: int = 1 + 2'),
    # declared bra-ket antisymmetry of a bra-ket symmetric quantity
    dict(id="c12-braket-antisymmetric-declared", prop="C12", file=I, expect="R12d",
         old="        return AntiSymmetricTensor('t2sq', indices[:2], indices[2:], 1)", new="        return AntiSymmetricTensor('t2sq', indices[:2], indices[2:], -1)"),
    # ---- R12f declared spin blocks
    # shortcut "spin is conserved between upper and lower" (mirrors seeded/C12-5): wrong for t2sq^{ia}_{jb}
    dict(id="c12-spin-blocks-upper-lower-shortcut", prop="C12", file=I, expect="R12f",
         old="        target_idx = self.default_idx\n        itmd = self.expand_itmd(indices=target_idx, fully_expand=False)\n        return allowed_spin_blocks(itmd.expand(), target_idx)",
         new="        tensor = self.tensor(return_sympy=True)\n        if isinstance(tensor, AntiSymmetricTensor) and \\\n                len(tensor.upper) == len(tensor.lower):\n            n = len(tensor.upper)\n            return tuple(sorted(\n                \"\".join(block) for block in product(\"ab\", repeat=2*n)\n                if block[:n].count(\"a\") == block[n:].count(\"a\")\n            ))\n        target_idx = self.default_idx\n        itmd = self.expand_itmd(indices=target_idx, fully_expand=False)\n        return allowed_spin_blocks(itmd.expand(), target_idx)"),
    # only the blocks that start with alpha are kept ("the others follow by spin flip")
    dict(id="c12-spin-blocks-alpha-leading-only", prop="C12", file=I, expect="R12f",
         old="        target_idx = self.default_idx\n        itmd = self.expand_itmd(indices=target_idx, fully_expand=False)\n        return allowed_spin_blocks(itmd.expand(), target_idx)",
         new="        target_idx = self.default_idx\n        itmd = self.expand_itmd(indices=target_idx, fully_expand=False)\n        return tuple(b for b in allowed_spin_blocks(itmd.expand(), target_idx) if b[0] == 'a')"),
    # preserving: positional/keyword spelling, no temporaries, function-local import under another name
    dict(id="c12-ok-spin-blocks-respelled", prop="C12", file=I, expect=None,
         old="        target_idx = self.default_idx\n        itmd = self.expand_itmd(indices=target_idx, fully_expand=False)\n        return allowed_spin_blocks(itmd.expand(), target_idx)",
         new="        from .spatial_orbitals import allowed_spin_blocks as spin_blocks\n        return spin_blocks(target_idx=self.default_idx,\n                           expr=self.expand_itmd(self.default_idx, False, False).expand())"),
    # preserving: probing through a closure, result copied through a comprehension
    dict(id="c12-ok-spin-blocks-wrapped-result", prop="C12", file=I, expect=None,
         old="        target_idx = self.default_idx\n        itmd = self.expand_itmd(indices=target_idx, fully_expand=False)\n        return allowed_spin_blocks(itmd.expand(), target_idx)",
         new="        def probe(idx):\n            expanded = self.expand_itmd(fully_expand=False, indices=idx)\n            return allowed_spin_blocks(expanded.expand(), idx)\n        blocks = [b for b in probe(self.default_idx)]\n        return tuple(blocks)"),
    # ---- mutability of the Expr container (permute/subs/expand/substitute_contracted/op= work in place and return self)
    # mirrors seeded/C12-6: copies dropped, all four summands alias one container
    dict(id="c12-permute-without-copy-t2_3", prop="C12", file=I, expect=["R12h", "R12d"],
         old="        base = t2(indices=(i, k, a, c)) * eri((j, c, k, b))\n        itmd += (base.sympy - base.copy().permute((i, j)).sympy\n                 - base.copy().permute((a, b)).sympy\n                 + base.copy().permute((i, j), (a, b)).sympy)\n",
         new="        base = t2(indices=(i, k, a, c)) * eri((j, c, k, b))\n        itmd += (base.sympy - base.permute((i, j)).sympy\n                 - base.permute((a, b)).sympy\n                 + base.permute((i, j), (a, b)).sympy)\n"),
    dict(id="c12-permute-without-copy-t2_2", prop="C12", file=I, expect=["R12h", "R12d"],
         old="        itmd += (base.sympy - base.copy().permute((i, j)).sympy\n                 - base.copy().permute((a, b)).sympy\n                 + base.copy().permute((i, j), (a, b)).sympy)\n        return base_expr(itmd / denom, (i, j, a, b), (k, l, c, d))",
         new="        itmd += (base.sympy - base.permute((i, j)).sympy\n                 - base.permute((a, b)).sympy\n                 + base.permute((i, j), (a, b)).sympy)\n        return base_expr(itmd / denom, (i, j, a, b), (k, l, c, d))"),
    # the snapshot .sympy is taken after the in-place permutation (operands reordered)
    dict(id="c12-snapshot-after-inplace-permute", prop="C12", file=I, expect=["R12h", "R12d"],
         old="        base = t1(indices=(j, c)) * eri((i, c, a, b))\n        itmd = base.sympy - base.permute((i, j)).sympy",
         new="        base = t1(indices=(j, c)) * eri((i, c, a, b))\n        itmd = - base.permute((i, j)).sympy + base.sympy"),
    # preserving: one copy in a temporary, permuted step by step in place: P_ij X, then P_ab P_ij X, then P_ab X
    dict(id="c12-ok-one-copy-stepwise-inplace", prop="C12", file=I, expect=None,
         old="        itmd += (base.sympy - base.copy().permute((i, j)).sympy\n                 - base.copy().permute((a, b)).sympy\n                 + base.copy().permute((i, j), (a, b)).sympy)\n        return base_expr(itmd / denom, (i, j, a, b), (k, l, c, d))",
         new="        work = base.copy()\n        itmd += base.sympy - work.permute((i, j)).sympy\n        itmd += work.permute((a, b)).sympy\n        itmd -= work.permute((i, j)).sympy\n        return base_expr(itmd / denom, (i, j, a, b), (k, l, c, d))"),
    # preserving: copies held in temporaries
    dict(id="c12-ok-copies-in-temporaries", prop="C12", file=I, expect=None,
         old="        base = t2(indices=(i, k, a, c)) * eri((j, c, k, b))\n        itmd += (base.sympy - base.copy().permute((i, j)).sympy\n                 - base.copy().permute((a, b)).sympy\n                 + base.copy().permute((i, j), (a, b)).sympy)\n",
         new="        base = t2(indices=(i, k, a, c)) * eri((j, c, k, b))\n        p_ij, p_ab, p_ijab = base.copy(), base.copy(), base.copy()\n        p_ij.permute((i, j))\n        p_ab.permute((a, b))\n        p_ijab.permute((i, j), (a, b))\n        itmd += base.sympy - p_ij.sympy - p_ab.sympy + p_ijab.sympy\n"),
    # preserving: every permutation applied to a fresh expansion instead of a copy
    dict(id="c12-ok-fresh-expansion-instead-of-copy", prop="C12", file=I, expect=None,
         old="        base = (\n            t2(indices=(i, k, a, c)) * eri((k, b, j, c))\n        )\n        itmd += (base.sympy - base.copy().permute((i, j)).sympy\n                 - base.copy().permute((a, b)).sympy\n                 + base.copy().permute((i, j), (a, b)).sympy)\n        return base_expr(itmd / denom, (i, j, a, b), (k, l, c, d))",
         new="        def x():\n            return t2(indices=(i, k, a, c)) * eri((k, b, j, c))\n        itmd += (x().sympy - x().permute((i, j)).sympy\n                 - x().permute((a, b)).sympy\n                 + x().permute((i, j), (a, b)).sympy)\n        return base_expr(itmd / denom, (i, j, a, b), (k, l, c, d))"),
    # ---- R12k: expand_intermediates on powers (F46 Polynom, sibling of the Obj case b2a4fcf)
    dict(id="c12-F46-revert", prop="C12", file=E, expect="R12k",
         old="        exponent = self.exponent\n        if exponent == int(exponent) and exponent > 1:\n            # expand each factor of the power separately: the contracted\n            # indices of the intermediate definitions must not be shared\n            # between the factors\n            expanded = Mul(*[expand_bracket() for _ in range(int(exponent))])\n        else:\n            expanded = Pow(expand_bracket(), exponent)\n",
         new="        expanded = Pow(expand_bracket(), self.exponent)\n"),
    dict(id="c12-ok-F46-twin", prop="C12", file=E, expect=None,
         old="        exponent = self.exponent\n        if exponent == int(exponent) and exponent > 1:\n            # expand each factor of the power separately: the contracted\n            # indices of the intermediate definitions must not be shared\n            # between the factors\n            expanded = Mul(*[expand_bracket() for _ in range(int(exponent))])\n        else:\n            expanded = Pow(expand_bracket(), exponent)\n",
         new="        exponent = self.exponent\n        n_factors = int(exponent) if exponent == int(exponent) else 0\n        if n_factors <= 1:\n            expanded = Pow(expand_bracket(), exponent)\n        else:\n            brackets = []\n            while len(brackets) < n_factors:\n                brackets.append(expand_bracket())\n            expanded = Mul(*brackets)\n"),
    dict(id="c12-obj-power-expansion-revert", prop="C12", file=E, expect="R12k",
         old="            exponent = self.exponent\n            if exponent == int(exponent) and exponent > 1:\n                # expand each factor separately: the contracted indices\n                # of the definition must not be shared between the factors\n                expanded = Mul(*[\n                    itmd.expand_itmd(indices=self.idx, return_sympy=True,\n                                     fully_expand=fully_expand)\n                    for _ in range(int(exponent))\n                ])\n            else:\n                expanded = itmd.expand_itmd(\n                    indices=self.idx, return_sympy=True,\n                    fully_expand=fully_expand\n                )\n                expanded = Pow(expanded, exponent)\n",
         new="            expanded = itmd.expand_itmd(\n                indices=self.idx, return_sympy=True,\n                fully_expand=fully_expand\n            )\n            expanded = Pow(expanded, self.exponent)\n"),
    dict(id="c12-ok-obj-power-expansion-twin", prop="C12", file=E, expect=None,
         old="            exponent = self.exponent\n            if exponent == int(exponent) and exponent > 1:\n                # expand each factor separately: the contracted indices\n                # of the definition must not be shared between the factors\n                expanded = Mul(*[\n                    itmd.expand_itmd(indices=self.idx, return_sympy=True,\n                                     fully_expand=fully_expand)\n                    for _ in range(int(exponent))\n                ])\n            else:\n                expanded = itmd.expand_itmd(\n                    indices=self.idx, return_sympy=True,\n                    fully_expand=fully_expand\n                )\n                expanded = Pow(expanded, exponent)\n",
         new="            exponent = self.exponent\n\n            def definition():\n                return itmd.expand_itmd(self.idx, True, fully_expand)\n            if exponent == int(exponent) and exponent > 1:\n                expanded = 1\n                for _ in range(int(exponent)):\n                    expanded = expanded * definition()\n            else:\n                expanded = Pow(definition(), exponent)\n"),
    # the expansion level is not forwarded to the factors of a power
    dict(id="c12-polynom-expansion-level-dropped", prop="C12", file=E, expect="R12k",
         old="        def expand_bracket():\n            return Add(*[\n                t.expand_intermediates(target, return_sympy=True,\n                                       fully_expand=fully_expand)",
         new="        def expand_bracket():\n            return Add(*[\n                t.expand_intermediates(target, return_sympy=True)"),
    # ---- F38 (fock spin blocks): the RE residuals have spin blocks now
    dict(id="c12-F38-revert", prop="C12", file=E, expect="R12f",
         old="            # fock matrix: a spin free one particle operator\n            # -> only the spin conserving blocks do not vanish\n            elif name == tensor_names.fock and len(obj.idx) == 2:\n                return (\"aa\", \"bb\")\n", new=""),
    dict(id="c12-ok-F38-twin", prop="C12", file=E, expect=None,
         old="            elif name == tensor_names.fock and len(obj.idx) == 2:\n                return (\"aa\", \"bb\")\n",
         new="            elif len(obj.idx) == 2 and tensor_names.fock == name:\n                return tuple(s + s for s in \"ab\")\n"),
]
