I = "indices.py"
E = "expr_container.py"
WITNESSES = [
    dict(id="c08-raw-dict", prop="C08", file=E, expect="R08a",
         old="        substituted = self.sympy.subs(order_substitutions(subs))", new="        substituted = self.sympy.subs(subs)"),
    dict(id="c08-permute-raw", prop="C08", file=E, expect="R08",
         old="        return self.subs(order_substitutions(sub))", new="        return self.subs(list(sub.items()))"),
    dict(id="c08-index-ctor", prop="C08", file=E, expect="R08b",
         old="            if spin:\n                new_idx = get_symbols(new_idx, spin * len(idx_list))\n            else:\n                new_idx = get_symbols(new_idx)",
         new="            if spin:\n                new_idx = get_symbols(new_idx, spin * len(idx_list))\n            else:\n                new_idx = [Index(n) for n in new_idx]"),
    dict(id="c08-registry-outside", prop="C08", file=E, expect="R08c",
         old="        generic = Indices().get_generic_indices(**kwargs)", new="        Indices()._counter['occ'][''] += 0\n        generic = Indices().get_generic_indices(**kwargs)"),
    dict(id="c08-not-stored", prop="C08", file=I, expect="R08d",
         old="            self._symbols[space][spin][idx] = symbol\n", new=""),
    dict(id="c08-pool-not-updated", prop="C08", file=I, expect="R08d",
         old="            try:\n                self._generic_indices[space][spin].remove(idx)\n            except ValueError:\n                continue\n", new=""),
    dict(id="c08-gen-filter", prop="C08", file=I, expect="R08d",
         old="        new_idx = [idx + counter for idx in self.base[space]\n                   if idx + counter not in used_names]", new="        new_idx = [idx + counter for idx in self.base[space]]"),
    dict(id="c08-cache-miss", prop="C08", file=I, expect="R08d",
         old="            if symbol is not None:\n                ret[key].append(symbol)\n                continue", new="            if symbol is not None and spin:\n                ret[key].append(symbol)\n                continue"),
    dict(id="c08-target-renamed", prop="C08", file=E, expect="R08e",
         old="        contracted = {}\n        for s in self.contracted:", new="        contracted = {}\n        for s in self.idx:"),
    dict(id="c08-zero-guard", prop="C08", file=E, expect="R08e",
         old="        substituted = self.sympy.subs(sub)\n        # ensure that the substitutions are valid\n        if substituted is S.Zero and self.sympy is not S.Zero:\n            raise ValueError(f\"Invalid substitutions {sub} for {self}.\")\n",
         new="        substituted = self.sympy.subs(sub)\n"),
    dict(id="c08-spin-lost", prop="C08", file=E, expect="R08e",
         old="                new_idx = get_symbols(new_idx, spin * len(idx_list))", new="                new_idx = get_symbols(new_idx)"),
    dict(id="c08-order-cycle", prop="C08", file=I, expect="R08f",
         old="                subs.append((o, p))\n                final_subs.append((p, n))", new="                subs.append((o, n))"),
    dict(id="c08-order-chain", prop="C08", file=I, expect="R08f",
         old="                final_subs.insert(0, (o, n))", new="                final_subs.append((o, n))"),
    dict(id="c08-lowest", prop="C08", file=I, expect="R08f",
         old="    return [s for s in idx if s not in used][:n]", new="    return [s for s in idx if s not in used][-n:]"),
    dict(id="c08-permute-compose", prop="C08", file=E, expect="R08f",
         old="                if new is p:\n                    sub[old] = q\n                    del addition[p]", new="                if new is p:\n                    sub[old] = p\n                    del addition[p]"),
    dict(id="c08-ok-inline", prop="C08", file=E, expect=None,
         old="        substituted = self.sympy.subs(order_substitutions(subs))", new="        ordered = order_substitutions(subs)\n        substituted = self.sympy.subs(ordered)"),
]

M = "misc.py"
S = "simplify.py"
R = "reduce_expr.py"

# ---------------------------------------------------------------- behaviour-preserving refactorings of new kinds
WITNESSES += [
    # dict.get  ->  try / except KeyError
    dict(id="c08-ok-lookup-try", prop="C08", file=I, expect=None,
         old="            symbol = self._symbols[space][spin].get(idx, None)\n",
         new="            try:\n                symbol = self._symbols[space][spin][idx]\n            except KeyError:\n                symbol = None\n"),
    # while loop that grows a list  ->  closed-form number of rounds + finite generator
    dict(id="c08-ok-lowest-generator", prop="C08", file=I, expect=None,
         old="    idx = list(base)\n    required = len(used) + n  # the number of indices present in the term\n    suffix = 1\n"
             "    while len(idx) < required:\n        idx.extend(s + str(suffix) for s in base)\n        suffix += 1\n",
         new="    required = len(used) + n  # the number of indices present in the term\n"
             "    rounds = max(1, -(-required // len(base)))\n\n"
             "    def pool():\n        for s in base:\n            yield s\n        for suffix in range(1, rounds):\n"
             "            for s in base:\n                yield s + str(suffix)\n    idx = pool()\n"),
    # destructive consumption (reverse + pop)  ->  cursor per key
    dict(id="c08-ok-getsymbols-cursor", prop="C08", file=I, expect=None,
         old="    for val in symbols.values():\n        val.reverse()\n    ret = [symbols[(index_space(idx), spin)].pop()\n"
             "           for idx, spin in zip(indices, spins)]\n    assert not any(symbols.values())  # ensure we consumed all indices\n    return ret\n",
         new="    position = {key: 0 for key in symbols}\n    ret = []\n    for idx, spin in zip(indices, spins):\n"
             "        key = (index_space(idx), spin)\n        ret.append(symbols[key][position[key]])\n        position[key] += 1\n"
             "    # ensure we consumed all indices\n    assert all(position[key] == len(val) for key, val in symbols.items())\n    return ret\n"),
    # insert(0, x) / append interleaved  ->  three lists, reverse, concatenation
    dict(id="c08-ok-order-three-lists", prop="C08", file=I, expect=None,
         edits=[("    subs = []\n    final_subs = []\n    for o, n in subsdict.items():", "    subs = []\n    chained = []\n    final_subs = []\n    for o, n in subsdict.items():"),
                ("                final_subs.insert(0, (o, n))", "                chained.append((o, n))"),
                ("    subs.extend(final_subs)\n    return subs", "    chained.reverse()\n    return subs + chained + final_subs")]),
    # another algorithm for composing the transpositions (identity-initialised map, values swapped)
    dict(id="c08-ok-permute-identity-map", prop="C08", file=E, expect=None,
         old="            addition = {p: q, q: p}\n            for old, new in sub.items():\n                if new is p:\n                    sub[old] = q\n"
             "                    del addition[p]\n                elif new is q:\n                    sub[old] = p\n                    del addition[q]\n"
             "            if addition:\n                sub.update(addition)\n",
         new="            for s in (p, q):\n                sub.setdefault(s, s)\n            for old, new in sub.items():\n                if new is p:\n"
             "                    sub[old] = q\n                elif new is q:\n                    sub[old] = p\n"),
    # dict of sets built up front  ->  set recomputed per group (loop fission)
    dict(id="c08-ok-contracted-blocked-set", prop="C08", file=E, expect=None,
         edits=[("        used = {}\n        for s in set(self.target):\n            if (key := s.space_and_spin) not in used:\n                used[key] = set()\n            used[key].add(s.name)\n",
                 "        target_names = [(s.space_and_spin, s.name) for s in set(self.target)]\n"),
                ("            new_idx = get_lowest_avail_indices(len(idx_list),\n                                               used.get((space, spin), []),\n                                               space)",
                 "            blocked = {name for key, name in target_names\n                       if key == (space, spin)}\n            new_idx = get_lowest_avail_indices(len(idx_list), blocked, space)")]),
    # while <cond>  ->  while True / break
    dict(id="c08-ok-generic-while-true", prop="C08", file=I, expect=None,
         old="            while n > len(self._generic_indices[space][spin]):\n                self._gen_generic_idx(space, spin)\n",
         new="            while True:\n                if len(self._generic_indices[space][spin]) >= n:\n                    break\n                self._gen_generic_idx(space, spin)\n"),
    # reverse + pop()  ->  pop(0)
    dict(id="c08-ok-minimize-pop-front", prop="C08", file=I, expect=None,
         edits=[("            min_symbols = get_symbols(min_names, spins)\n            min_symbols.reverse()\n", "            min_symbols = get_symbols(min_names, spins)\n"),
                ("        min_s = minimal_indices[idx_key].pop()\n", "        min_s = minimal_indices[idx_key].pop(0)\n")]),
    # items() iteration  ->  key iteration + lookup (provenance through a subscript)
    dict(id="c08-ok-simplify-keys", prop="C08", file=S, expect=None,
         old="        for other_n, sub in matches.items():\n            res += terms[other_n].subs(sub)\n",
         new="        for other_n in matches:\n            res += terms[other_n].subs(matches[other_n])\n"),
    # bound method stored in a local before it is called
    dict(id="c08-ok-bound-method-alias", prop="C08", file=E, expect=None,
         old="        substituted = self.sympy.subs(sub)\n        # ensure that the substitutions are valid\n",
         new="        substitute = self.sympy.subs\n        substituted = substitute(sub)\n        # ensure that the substitutions are valid\n"),
    # membership test  ->  try / except in the singleton
    dict(id="c08-ok-singleton-try", prop="C08", file=M, expect=None,
         old="        if cls not in cls._instances:\n            cls._instances[cls] = (\n                super(Singleton, cls).__call__(*args, **kwargs)\n            )\n        return cls._instances[cls]\n",
         new="        try:\n            return cls._instances[cls]\n        except KeyError:\n            instance = super(Singleton, cls).__call__(*args, **kwargs)\n"
             "            cls._instances[cls] = instance\n            return instance\n"),
    # comprehension  ->  map / lambda
    dict(id="c08-ok-gen-map-lambda", prop="C08", file=I, expect=None,
         old="        new_idx = [idx + counter for idx in self.base[space]\n                   if idx + counter not in used_names]",
         new="        new_idx = [name for name in map(lambda b: b + counter, self.base[space])\n                   if name not in used_names]"),
    # if / elif chain  ->  table-driven loop
    dict(id="c08-ok-space-table", prop="C08", file=I, expect=None,
         old="        if self.assumptions0.get(\"below_fermi\"):\n            return \"occ\"\n        elif self.assumptions0.get(\"above_fermi\"):\n            return \"virt\"\n        else:\n            return \"general\"\n",
         new="        for assumption, space in ((\"below_fermi\", \"occ\"), (\"above_fermi\", \"virt\")):\n            if self.assumptions0.get(assumption):\n                return space\n        return \"general\"\n"),
    dict(id="c08-ok-new-symbol-table", prop="C08", file=I, expect=None,
         old="        assumptions = {}\n        if space == \"occ\":\n            assumptions[\"below_fermi\"] = True\n        elif space == \"virt\":\n            assumptions[\"above_fermi\"] = True\n        elif space != \"general\":\n            raise ValueError(f\"Invalid space {space}\")\n",
         new="        fermi = {\"occ\": \"below_fermi\", \"virt\": \"above_fermi\", \"general\": None}\n        if space not in fermi:\n            raise ValueError(f\"Invalid space {space}\")\n        assumptions = {}\n        if fermi[space] is not None:\n            assumptions[fermi[space]] = True\n"),
    # helper extracted into a nested function that forwards its parameter (callers are checked instead)
    dict(id="c08-ok-forwarding-helper", prop="C08", file=E, expect=None,
         old="        substituted = self.sympy.subs(order_substitutions(subs))\n",
         new="        def apply(ordered):\n            return self.sympy.subs(ordered)\n        substituted = apply(order_substitutions(subs))\n"),
]

# ---------------------------------------------------------------- breaking edits for the new checks
WITNESSES += [
    dict(id="c08-getsymbols-order", prop="C08", file=I, expect="R08d",
         old="    for val in symbols.values():\n        val.reverse()\n    ret = [symbols", new="    ret = [symbols"),
    dict(id="c08-initial-counter", prop="C08", file=I, expect="R08d", old="    _initial_counter = 3\n", new="    _initial_counter = 1\n"),
    dict(id="c08-spin-swapped", prop="C08", file=I, expect="R08d",
         old="            if spin == \"a\":\n                assumptions[\"alpha\"] = True\n            elif spin == \"b\":\n                assumptions[\"beta\"] = True",
         new="            if spin == \"a\":\n                assumptions[\"beta\"] = True\n            elif spin == \"b\":\n                assumptions[\"alpha\"] = True"),
    dict(id="c08-generic-from-end", prop="C08", file=I, expect="R08d",
         old="            idx = self._generic_indices[space][spin][:n]", new="            idx = self._generic_indices[space][spin][-n:]"),
    dict(id="c08-dup-in-request", prop="C08", file=I, expect="R08d",
         old="            symbol = self._new_symbol(idx, space, spin)\n            self._symbols[space][spin][idx] = symbol\n            ret[key].append(symbol)\n",
         new="            symbol = self._new_symbol(idx, space, spin)\n            ret[key].append(symbol)\n            self._symbols[space][spin].setdefault(idx, symbol)\n"
             "            symbol = self._new_symbol(idx, space, spin)\n            self._symbols[space][spin][idx] = symbol\n"),
    dict(id="c08-singleton-always-new", prop="C08", file=M, expect="R08c",
         old="        if cls not in cls._instances:\n", new="        if cls not in cls._instances or args:\n            pass\n        if True:\n"),
    dict(id="c08-registry-getattr", prop="C08", file=E, expect="R08c",
         old="        generic = Indices().get_generic_indices(**kwargs)", new="        getattr(Indices(), '_generic_indices')['occ'][''].clear()\n        generic = Indices().get_generic_indices(**kwargs)"),
    dict(id="c08-generic-not-fresh", prop="C08", file=E, expect="R08e",
         old="            new_indices = generic[key]\n", new="            new_indices = old_indices\n"),
    dict(id="c08-contracted-flipped", prop="C08", file=E, expect="R08e",
         old="            return tuple(s for s, n in self._idx_counter if n)\n", new="            return tuple(s for s, n in self._idx_counter if n > 1)\n"),
    dict(id="c08-other-spin-blocks", prop="C08", file=E, expect="R08e",
         old="            if (key := s.space_and_spin) not in used:\n                used[key] = set()\n            used[key].add(s.name)\n\n        # 3)",
         new="            if (key := (s.space, \"\")) not in used:\n                used[key] = set()\n            used[key].add(s.name)\n\n        # 3)"),
    dict(id="c08-ordered-list-reversed", prop="C08", file=E, expect="R08a",
         old="        sub = order_substitutions(sub)\n\n        if only_build_sub:", new="        sub = order_substitutions(sub)\n        sub.reverse()\n\n        if only_build_sub:"),
    dict(id="c08-forwarding-helper-raw", prop="C08", file=E, expect="R08a",
         old="        substituted = self.sympy.subs(order_substitutions(subs))\n",
         new="        def apply(ordered):\n            return self.sympy.subs(ordered)\n        substituted = apply(list(subs.items()))\n"),
    dict(id="c08-producer-raw", prop="C08", file=S, expect="R08a",
         old="            if not isinstance(term.sympy - sub_other_term, Add):\n                return sub\n",
         new="            if not isinstance(term.sympy - sub_other_term, Add):\n                return [(n, o) for o, n in sub]\n"),
    dict(id="c08-minimize-spin-lost", prop="C08", file=I, expect="R08g",
         old="            if spin:\n                spins = spin * n_unique_indices\n            else:\n                spins = None\n            min_symbols",
         new="            spins = None\n            min_symbols"),
    dict(id="c08-minimize-target-other-spin", prop="C08", file=I, expect="R08g",
         old="        space_target = target_idx_names.get(idx_key, [])\n", new="        space_target = target_idx_names.get((idx_key[0], \"\"), [])\n"),
    dict(id="c08-index-alias-ctor", prop="C08", file=E, expect="R08b",
         old="            if spin:\n                new_idx = get_symbols(new_idx, spin * len(idx_list))\n            else:\n                new_idx = get_symbols(new_idx)",
         new="            if spin:\n                new_idx = get_symbols(new_idx, spin * len(idx_list))\n            else:\n                from .indices import Index as Idx\n                new_idx = [Idx(n) for n in new_idx]"),
    dict(id="c08-compatible-terms-raw", prop="C08", file=S, expect="R08a",
         old="                    compatible_terms[term_i][other_term_i] = sub", new="                    compatible_terms[term_i][other_term_i] = dict(sub)"),
    dict(id="c08-diag-fock-raw", prop="C08", file=E, expect="R08a",
         old="                return diag.subs(order_substitutions(sub))", new="                return diag.subs(sub)"),
    dict(id="c08-length-guard", prop="C08", file=I, expect="R08d", old="        if len(indices) != len(spins):", new="        if len(indices) < len(spins):"),
    dict(id="c08-pairing-reversed", prop="C08", file=E, expect="R08e",
         old="            sub.update({o: n for o, n in zip(idx_list, new_idx)})", new="            sub.update({o: n for o, n in zip(idx_list, reversed(new_idx))})"),
    dict(id="c08-generic-spin-lost", prop="C08", file=E, expect="R08e",
         old="        kwargs = {f\"{space}_{spin}\" if spin else space: len(indices)", new="        kwargs = {space: len(indices)"),
]

Y = "symmetry.py"
_F40_FIXED = (
    "        linked_spaces = []\n        for link in links:\n            linked = link.copy()\n            disjoint = []\n"
    "            for other_linked in linked_spaces:\n                if linked & other_linked:\n                    linked.update(other_linked)\n"
    "                else:\n                    disjoint.append(other_linked)\n            disjoint.append(linked)\n            linked_spaces = disjoint\n")
WITNESSES += [
    # F40 reverted: links merged in a single non-transitive pass
    dict(id="c08-f40-revert", prop="C08", file=Y, expect="R08f", old=_F40_FIXED,
         new="        if len(links) == 0:  # no links, all spaces separated\n            linked_spaces = []\n"
             "        elif len(links) == 1:  # exactly 2 spaces are linked\n            linked_spaces = links\n"
             "        else:  # more than 2 spaces linked: either ov, ox or ov, xy\n            treated = set()\n            linked_spaces = []\n"
             "            for i, linked_sp in enumerate(links):\n                if i in treated:\n                    continue\n"
             "                linked = linked_sp.copy()\n                for other_i in range(i+1, len(links)):\n"
             "                    if other_i in treated:\n                        continue\n"
             "                    if linked_sp & links[other_i]:\n                        linked.update(links[other_i])\n"
             "                        treated.add(other_i)\n                linked_spaces.append(linked)\n"),
    # the repaired merge spelled as union-find over the index classes
    dict(id="c08-ok-f40-union-find", prop="C08", file=Y, expect=None, old=_F40_FIXED,
         new="        parent = {}\n\n        def find(sp):\n            parent.setdefault(sp, sp)\n            while parent[sp] != sp:\n"
             "                sp = parent[sp]\n            return sp\n\n        for link in links:\n            first, *others = sorted(link)\n"
             "            for other in others:\n                parent[find(other)] = find(first)\n"
             "        components = {}\n        for sp in list(parent):\n            components.setdefault(find(sp), set()).add(sp)\n"
             "        linked_spaces = list(components.values())\n"),
    # the groups are disjoint, so testing the new link itself instead of the growing union is the same merge
    dict(id="c08-ok-product-merge-link-test", prop="C08", file=Y, expect=None,
         old="                if linked & other_linked:\n                    linked.update(other_linked)\n",
         new="                if link & other_linked:\n                    linked.update(other_linked)\n"),
    # groups emitted in reverse name order is still a reordering of independent groups
    dict(id="c08-ok-product-reverse-groups", prop="C08", file=Y, expect=None,
         old="        args = [val for _, val in sorted(splitted.items())]", new="        args = [splitted[key] for key in sorted(splitted, reverse=True)]"),
    # a permutation is assigned to its own classes only, not to the linked group
    dict(id="c08-product-no-linking", prop="C08", file=Y, expect="R08f",
         old="                if any(sp in linked_sp for sp in space):\n                    space = linked_sp\n                    break\n",
         new="                if all(sp in linked_sp for sp in space) and len(space) > 1:\n                    space = linked_sp\n                    break\n"),
]
