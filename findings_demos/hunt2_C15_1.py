"""
C15 defect 1: restricted spin integration of a product that contains an
unexpanded sum (Polynom) keeps the spin-forbidden blocks of the tensors inside
the sum and afterwards relabels them as all-alpha blocks.

    E = sum_{ij} (f_ij + p2_ij)^2        (closed expression, no target idx)

Closed-shell (restricted) result must be  2 * sum_{ij} (f_ij + p2_ij)^2  over
spatial orbitals (alpha-alpha + beta-beta), which is also what the library
returns when the very same expression is handed over in expanded form.
For the unexpanded input it returns 4 * (...)^2.

Run from the worktree root. Exit code 1 = defect present, 0 = fixed.
"""
import sys
import os
import logging
sys.path.insert(0, os.getcwd())
logging.disable(logging.WARNING)

from sympy import S, Rational  # noqa: E402
from adcgen.expr_container import Expr  # noqa: E402
from adcgen.indices import get_symbols  # noqa: E402
from adcgen.simplify import simplify  # noqa: E402
from adcgen.spatial_orbitals import transform_to_spatial_orbitals  # noqa: E402
from adcgen.sympy_objects import AntiSymmetricTensor, Amplitude  # noqa: E402
from adcgen.tensor_names import tensor_names  # noqa: E402

i, j, a, b = get_symbols("ijab")
ia, ja, aa, ba = get_symbols("ijab", "aaaa")


def f(p, q):
    return AntiSymmetricTensor(tensor_names.fock, (p,), (q,), 1)


def p2(p, q):
    return AntiSymmetricTensor(f"{tensor_names.gs_density}2", (p,), (q,), 1)


def V(p, q, r, s):
    return AntiSymmetricTensor(tensor_names.eri, (p, q), (r, s), 1)


def t(p, q, r, s):
    return Amplitude(f"{tensor_names.gs_amplitude}1", (r, s), (p, q))


failed = False

# ---- case 1: (f_ij + p2_ij)^2, no target indices --------------------------
unexpanded = Expr((f(i, j) + p2(i, j))**2, real=True)
expanded = Expr(((f(i, j) + p2(i, j))**2).expand(), real=True)
assert (unexpanded.sympy.expand() - expanded.sympy) is S.Zero

res_unexp = transform_to_spatial_orbitals(unexpanded, "", "", restricted=True)
res_exp = transform_to_spatial_orbitals(expanded, "", "", restricted=True)
# hand derived closed shell result: alpha-alpha + beta-beta block
ref = Expr((2 * (f(ia, ja) + p2(ia, ja))**2).expand(), real=True)

print("input (unexpanded):", unexpanded)
print("restricted result, unexpanded input:", res_unexp)
print("restricted result, expanded input  :", res_exp)
print("hand derived reference             :", ref)
if simplify(res_exp - ref).sympy is not S.Zero:
    print("!! expanded input deviates from the reference")
    failed = True
if simplify(res_unexp - ref).sympy is not S.Zero:
    print("!! unexpanded input deviates from the reference: ",
          simplify(res_unexp - ref))
    failed = True

# ---- case 2: one target index, sum multiplied by another tensor -----------
# R_i = sum_{jab} e-free:  (V_ijab + t_ijab) * (V_ijab - 2 t_ijab) summed over
# jab with target i is not needed; use a simpler one with a target index:
# R_ij = sum_k  f_ik (f_kj + p2_kj)  -> no problem (k is fixed by f_ik)
# R    = sum_{ijab} (V_ijab + t_ijab)(V_ijab - 2 t_ijab) -> problem
unexpanded = Expr((V(i, j, a, b) + t(i, j, a, b))
                  * (V(i, j, a, b) - 2 * t(i, j, a, b)), real=True)
expanded = Expr(unexpanded.sympy.expand(), real=True)
res_unexp = transform_to_spatial_orbitals(unexpanded, "", "", restricted=True,
                                          expand_eri=False)
res_exp = transform_to_spatial_orbitals(expanded, "", "", restricted=True,
                                        expand_eri=False)
diff = simplify(res_unexp - res_exp)
print()
print("input (unexpanded):", unexpanded)
print("restricted result, unexpanded input:", res_unexp)
print("restricted result, expanded input  :", res_exp)
if diff.sympy is not S.Zero:
    print("!! the two results differ by:", diff)
    failed = True

if failed:
    print("\nDEFECT PRESENT")
    sys.exit(1)
print("\nOK")
sys.exit(0)
