"""
A contracted index that occurs only once in the term (a plain sum over one
tensor axis, X_i = sum_a A_ia; valid in adcgen as soon as target indices are
provided: Term.contracted == (a,)) is never summed by optimize_contractions /
unoptimized_contraction. It is silently turned into a target index of the last
contraction, whose result therefore does not carry the requested target
indices.
"""
import itertools
import logging
import os
import sys
sys.path.insert(0, os.getcwd())  # use the adcgen copy of the worktree
from fractions import Fraction
from random import Random

from adcgen.expr_container import Expr
from adcgen.indices import get_symbols
from adcgen.sympy_objects import NonSymmetricTensor as T
from adcgen.generate_code import generate_code
from adcgen.generate_code.contraction import Contraction
from adcgen.generate_code.optimize_contractions import (
    optimize_contractions, unoptimized_contraction
)

logging.disable(logging.CRITICAL)
i, j, k, a, b = get_symbols("ijkab")
DIM = {"occ": 2, "virt": 3, "general": 4}
rng = Random(7)
_vals = {}


def value(name, key):
    if (name, key) not in _vals:
        _vals[(name, key)] = Fraction(rng.randint(-9, 9), rng.randint(1, 4))
    return _vals[(name, key)]


def contract(objects, target, summed):
    """objects: [(callable(key) -> value, indices)]"""
    all_idx = tuple(target) + tuple(summed)
    res = {}
    for vals in itertools.product(*(range(DIM[s.space]) for s in all_idx)):
        assign = dict(zip(all_idx, vals))
        v = Fraction(1)
        for f, idx in objects:
            v *= f(tuple(assign[s] for s in idx))
        key = vals[:len(target)]
        res[key] = res.get(key, 0) + v
    return res


def run_scheme(scheme):
    cache = {}
    for c in scheme:
        objs = []
        for name, idx in zip(c.names, c.indices):
            if Contraction.is_contraction(name):
                objs.append((lambda key, d=cache[name]: d[key], idx))
            else:
                objs.append((lambda key, n=name: value(n, key), idx))
        cache[c.contraction_name] = contract(objs, c.target, c.contracted)
    return cache[scheme[-1].contraction_name]


def reference(term, target):
    objs = []
    for o in term.objects:
        if o.sympy.is_number:
            continue
        for _ in range(o.exponent):
            objs.append((lambda key, n=o.longname(): value(n, key), o.idx))
    summed = []
    for _, idx in objs:
        summed.extend(s for s in idx if s not in target and s not in summed)
    return contract(objs, target, summed)


cases = [
    # (sympy term, target string)
    (T("A", (i, a)), "i"),                              # X_i = sum_a A_ia
    (T("A", (i, a)) * T("B", (j, b)), "ij"),            # (sum_a A)(sum_b B)
    (T("A", (i, a)) * T("B", (i, j, b)), "j"),          # sum_{iab} A_ia B_ijb
    (T("A", (i, k)) * T("B", (k, j)) * T("C", (j, a)), "i"),
    (T("A", (i, k)) * T("B", (k, j, a)) * T("C", (j, b)), "ba"),
    # control: Einstein conform term, b is open on the intermediate A*B
    (T("A", (i, k)) * T("B", (k, j, b)) * T("C", (j, b, a)), "ai"),
]
failed = False
for sym, tstr in cases:
    expr = Expr(sym, target_idx=tstr)
    term = expr.terms[0]
    target = tuple(get_symbols(tstr))
    # adcgen itself says that all other indices are contracted
    assert set(term.contracted) == {s for s in term.idx if s not in target}
    ref = reference(term, target)
    for label, scheme in (
            ("optimize_contractions", optimize_contractions(term, tstr)),
            ("optimize_contractions(None)", optimize_contractions(term)),
            ("unoptimized_contraction", unoptimized_contraction(term, tstr))):
        last = scheme[-1]
        want = target if "None" not in label else term.target
        summed = [s for c in scheme for s in c.contracted]
        ok = (tuple(last.target) == tuple(want)
              and sorted(map(str, summed))
              == sorted(map(str, term.contracted))
              and run_scheme(scheme) == reference(term, tuple(want)))
        if not ok:
            failed = True
            print(f"{label}: term {term}, requested target {want}, "
                  f"contracted according to adcgen {term.contracted}\n"
                  f"    result indices of the last contraction: {last.target},"
                  f" summed indices: {summed}")
    code = generate_code(expr, tstr).splitlines()[-1]
    print(f"    generate_code(..., '{tstr}') -> {code}")

if failed:
    print("DEFECT: contracted indices that occur only once are not summed")
    sys.exit(1)
print("ok")
