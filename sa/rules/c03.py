"""C03 secular matrix: derivation skeleton by abstract evaluation."""
from __future__ import annotations

from ..model import AnalysisError
from ..symex import Obj
from ..terms import (T, sym, kwcall, mcall, t_mul, t_add, t_neg, expand_products, product_key, multiset, show, strip,
                     subterms, args_of, is_num)
from . import dx

EXPLANATION = (
    "All functions of secular_matrix.py are evaluated abstractly (sa.symex) for concrete orders/blocks with wicks, the "
    "intermediate states, norm factors, operators and energies left uninterpreted; the rules compare the resulting "
    "derivation skeleton with the ISR formulas. D5: hamiltonian(n, shift) = (H_n - [shift] E_n, rules of H_n) with "
    "H_0, H_1 from the Operators instance and 0 with empty rules beyond. R03a: M^(n)_{IJ} = sum_{a+m=n} N^(a) "
    "sum_{i+j+k=m} wicks(<I^(i)| H^(j) |J^(k)>, rules of H^(j)) for isr_matrix_block and precursor_matrix_block "
    "(orders 0..3, diagonal and coupling blocks), including the paths on which a norm factor or operator vanishes "
    "(exactly the products containing it disappear); D1 (orders add up, every split once) and D2 (<bra|op|ket> order, "
    "bra from block[0]/indices[0], ket from block[1]/indices[1]) are read off the same skeleton. D3/R03a: "
    "mvp_block_order = p(space) p(block[1]) M_{I,J} Y_J with both 1/sqrt(n_o! n_v!) factors, the summed indices "
    "generated for block[1], right amplitude vector, refusal of a foreign bra space; mvp and expectation_value sum "
    "exactly the blocks/orders of the ADC(n) truncation table; expectation_value_block_order contracts with the left "
    "vector on indices generated for block[0]. R03b: max_ptorder_spaces/block_order evaluated for n <= 6 and the five "
    "variants against order(mu,nu) = n - (mu-1) - (nu-1). The intermediate-state and ground-state layers the matrix is "
    "built from are checked by the C04/C02 rules, which are run here as well.")
ASSUMPTIONS = [
    "equality with <I|H-E0|J> over explicitly built states is not decided",
    "skeletons are evaluated for orders 0..3 (thorough tier: 0..4; R03b: adc orders 0..6) and the listed blocks only (bounded)",
    "wicks, intermediate_state, precursor, norm_factor, energy, the operators and amplitude_vector are uninterpreted here",
]

SM = dx.SM


def _self(scen):
    h, gs, isr = scen.objects()
    return Obj(SM, "self", gs=gs, isr=isr, h=h, indices=Obj("indices:Indices", "self.indices"))


def _H(order, sg):
    return mcall(sym("self"), "hamiltonian", order=order, subtract_gs=sg)


def d5(ctx):
    rule = "D5"
    fn = ctx.model.fn(SM + ".hamiltonian")
    scen = dx.Scenario()
    sx = dx.make_sx(ctx, "hamiltonian", scen)
    h = sym("h")
    for order in (0, 1, 2, 3):
        for sg in (True, False):
            outs = sx.run(fn, lambda: dict(self=_self(scen), order=order, subtract_gs=sg))
            rets = [o for o in outs if o.kind == "return"]
            if len(outs) != 1 or len(rets) != 1 or not isinstance(dx.val(rets[0]), tuple) or len(dx.val(rets[0])) != 2:
                ctx.bad(rule, fn, f"hamiltonian({order}, {sg}) does not return one (operator, rules) pair: {outs}",
                        key=f"shape {order} {sg}")
                continue
            op, rules = dx.val(rets[0])
            part = {0: T("attr", h, "h0"), 1: T("attr", h, "h1")}.get(order)
            want_op = T("item", part, 0) if part is not None else 0
            want_rules = T("item", part, 1) if part is not None else None
            if sg:
                want_op = t_add(want_op, t_neg(mcall(sym("gs"), "energy", order=order)))
            ok = dx.keys(expand_products(op)) == dx.keys(expand_products(want_op))
            ctx.check(rule, fn, ok, f"H^({order}){' - E^(%d)' % order if sg else ''}",
                      f"hamiltonian({order}, subtract_gs={sg}) returns the operator {show(op)}, expected {show(want_op)}",
                      key=f"operator {order} {sg}")
            if want_rules is not None:
                okr = rules == want_rules
            else:
                okr = isinstance(rules, T) and rules.op == "call" and rules.args[0] == "Rules" and \
                    all(v is None for v in args_of(rules).values())
            ctx.check(rule, fn, okr, f"rules of H^({order})",
                      f"hamiltonian({order}, subtract_gs={sg}) returns the rules {show(rules)}", key=f"rules {order} {sg}")


def _block_formula(state, order, block, indices, sg):
    """Expected products of a matrix block: dict product_key -> (count, factors it depends on)."""
    (B, K), (bi, ki) = block, indices
    prods = []
    for a, m in dx.compositions(order, 2):
        nf = mcall(sym("gs"), "norm_factor", order=a)
        for i, j, k in dx.compositions(m, 3):
            H = _H(j, sg)
            bra = mcall(sym("isr"), state, order=i, space=B, braket="bra", indices=bi)
            ket = mcall(sym("isr"), state, order=k, space=K, braket="ket", indices=ki)
            w = kwcall("wicks", expr=t_mul(bra, T("item", H, 0), ket), rules=T("item", H, 1), simplify_kronecker_deltas=True)
            prods.append((nf, T("item", H, 0), t_mul(nf, w)))
    return prods


def r03a_blocks(ctx):
    rule = "R03a"
    for meth, state in (("isr_matrix_block", "intermediate_state"), ("precursor_matrix_block", "precursor")):
        fn = ctx.model.fn(f"{SM}.{meth}")
        n = 0
        for order in dx.orders(ctx, (0, 1, 2, 3), (4,)):
            for block, indices in ((("ph", "ph"), ("ia", "jb")), (("ph", "pphh"), ("ia", "jkbc")), (("pphh", "ph"), ("ijab", "kc"))):
                if order >= 3 and block != ("ph", "ph"):
                    continue
                scen = dx.Scenario()
                sx = dx.make_sx(ctx, meth, scen, max_paths=4096)
                outs = sx.run(fn, lambda: dict(self=_self(scen), order=order, block=",".join(block),
                                               indices=",".join(indices), subtract_gs=True))
                what = f"{meth}({order}, {block})"
                formula = _block_formula(state, order, block, indices, True)
                rets = [o for o in outs if o.kind == "return"]
                if not rets:
                    raise AnalysisError(f"R03a: {what} has no returning path")
                for o in rets:
                    zeros = dx.zero_tests(o)
                    want = dx.keys(sum((expand_products(p) for nf, hop, p in formula
                                        if not any(z == nf or z == hop for z in zeros)), []))
                    got = dx.keys(dx.skeleton(o.value))
                    full = not zeros
                    ok = dx.compare(ctx, rule, fn, what + ("" if full else f" with {len(zeros)} vanishing factor(s)"), got, want,
                                    key=f"{meth} {order} {block[0]},{block[1]} {'full' if full else 'zero ' + str(sorted(map(show, zeros)))}")
                    n += 1
                    if full and ok:
                        prods = dx.skeleton(o.value)
                        dx.d1_orders(ctx, "D1", fn, what, prods, order, key=f"{meth} orders {order} {block[0]},{block[1]}")
                # the input guards
                for bad_idx, why in (("ia,ib", "repeated index in bra and ket"), ("ia", "a single index string")):
                    o2 = sx.run(fn, lambda: dict(self=_self(scen), order=order, block=",".join(block), indices=bad_idx,
                                                 subtract_gs=True))
                    ctx.check(rule, fn, all(o.kind == "raise" for o in o2), f"{what}: {why} refused",
                              f"{what}: {why} ({bad_idx}) is accepted", key=f"{meth} guard {why}")
                    break
        ctx.floor(rule, f"evaluated paths of {meth}", n, 10)
        # shift flag forwarded
        scen = dx.Scenario()
        sx = dx.make_sx(ctx, meth, scen, max_paths=4096)
        outs = sx.run(fn, lambda: dict(self=_self(scen), order=1, block="ph,ph", indices="ia,jb", subtract_gs=sym("SG")))
        flags = {args_of(c).get("subtract_gs") for o in outs for c in subterms(dx.val(o)) if c.op == "mcall" and c.args[1] == "hamiltonian"}
        ctx.check(rule, fn, flags == {sym("SG")}, f"{meth}: shift flag forwarded to the Hamiltonian",
                  f"{meth}: hamiltonian is called with subtract_gs in {sorted(map(show, flags))}", key=f"{meth} shift flag")


def r03a_mvp(ctx):
    rule = "R03a"
    fn = ctx.model.fn(SM + ".mvp_block_order")
    for order, space, block, idx in ((0, "ph", ("ph", "ph"), "ia"), (1, "ph", ("ph", "pphh"), "ia"), (1, "pphh", ("pphh", "ph"), "ijab"),
                                     (0, "pphh", ("pphh", "pphh"), "ijab"), (2, "h", ("h", "phh"), "i")):
        scen = dx.Scenario()
        sx = dx.make_sx(ctx, "mvp_block_order", scen)
        outs = sx.run(fn, lambda: dict(self=_self(scen), order=order, space=space, block=",".join(block), indices=idx,
                                       subtract_gs=sym("SG")))
        what = f"mvp_block_order({order}, {space}, {block})"
        if len(outs) != 1 or outs[0].kind != "return":
            ctx.bad(rule, fn, f"{what}: {outs}", key=f"mvp shape {block}")
            continue
        v = dx.val(outs[0])
        ctx.check(rule, fn, isinstance(v, T) and v.op == "call" and v.args[0] == "evaluate_deltas",
                  f"{what}: Kronecker deltas of the contraction evaluated", f"{what}: result is not passed through evaluate_deltas: {show(v)[:200]}",
                  key=f"mvp deltas {block}")
        gen = [k for k, sp in scen.generated.items() if sp == block[1]]
        ctx.check("D3", fn, len(scen.generated) == 1 and len(gen) == 1, f"{what}: summed indices generated for the ket space {block[1]}",
                  f"{what}: summed indices are generated for the spaces {sorted(scen.generated.values())}, expected [{block[1]}]",
                  key=f"mvp generated {block}")
        if not gen:
            continue
        g = gen[0]
        M = mcall(sym("self"), "isr_matrix_block", order=order, block=block, indices=(idx, g), subtract_gs=sym("SG"))
        Y = mcall(sym("isr"), "amplitude_vector", indices=g, lr="right")
        from ..terms import t_pow
        from fractions import Fraction
        p = t_mul(t_pow(1 / dx.lift(space), Fraction(-1, 2)), t_pow(1 / dx.lift(block[1]), Fraction(-1, 2)))
        want = dx.keys(expand_products(t_mul(p, M, Y)))
        got = dx.keys(dx.skeleton(v))
        if got != want:
            # attribute the difference: prefactor only -> D3
            strip_c = lambda ks: multiset(k.split(" | ", 1)[1] for k in ks for _ in range(ks[k]))
            r = "D3" if strip_c(got) == strip_c(want) else rule
            dx.compare(ctx, r, fn, what, got, want, key=f"mvp formula {block}")
        else:
            ctx.ok(rule, fn, f"{what} = p({space}) p({block[1]}) M Y with p = 1/sqrt(n_o! n_v!)", key=f"mvp formula {block}")
            ctx.ok("D3", fn, f"{what}: both square-root factors", key=f"mvp prefactors {block}")
    # foreign bra space
    scen = dx.Scenario()
    sx = dx.make_sx(ctx, "mvp_block_order", scen)
    outs = sx.run(fn, lambda: dict(self=_self(scen), order=0, space="pphh", block="ph,pphh", indices="ijab", subtract_gs=True))
    ctx.check(rule, fn, all(o.kind == "raise" for o in outs), "result space different from the bra space refused",
              "mvp_block_order accepts a result space that is not the bra space of the block", key="mvp space guard")


def _table(scen, n):
    """ADC(n) truncation table order(mu, nu) = n - (mu - 1) - (nu - 1) for the variant of the scenario."""
    ms = {"pp": "ph", "ip": "h", "ea": "p", "dip": "hh", "dea": "pp"}[scen.variant]
    spaces = ["p" * i + ms + "h" * i for i in range(0, n // 2 + 1)]
    return {(a, b): n - i - j for i, a in enumerate(spaces) for j, b in enumerate(spaces)}


def r03a_sums(ctx):
    rule = "R03a"
    extra = {f"{SM}.block_order", f"{SM}.max_ptorder_spaces"}
    for meth, inner in (("mvp", "mvp_block_order"), ("expectation_value", "expectation_value_block_order")):
        fn = ctx.model.fn(f"{SM}.{meth}")
        for variant, space, idx in (("pp", "ph", "ia"), ("pp", "pphh", "ijab"), ("ip", "h", "i")):
            for n in (0, 1, 2, 3):
                for order in (None, 0, 1, n):
                    scen = dx.Scenario(variant=variant)
                    sx = dx.make_sx(ctx, meth, scen, extra_inline=extra)
                    table = _table(scen, n)
                    if meth == "mvp":
                        if space not in {b for b, _ in table}:
                            continue
                        args = lambda: dict(self=_self(scen), adc_order=n, space=space, indices=idx, order=order, subtract_gs=sym("SG"))
                    else:
                        if (space, idx) != ("ph", "ia") and variant == "pp":
                            continue
                        args = lambda: dict(self=_self(scen), adc_order=n, order=order, subtract_gs=sym("SG"))
                    outs = sx.run(fn, args)
                    what = f"{variant}-ADC({n}) {meth}({space if meth == 'mvp' else ''}{', order=%s' % order if order is not None else ''})"
                    if len(outs) != 1 or outs[0].kind != "return":
                        ctx.bad(rule, fn, f"{what}: {outs}", key=f"{meth} shape {variant} {n} {space} {order}")
                        continue
                    want = []
                    for blk, mo in table.items():
                        if meth == "mvp" and blk[0] != space:
                            continue
                        for o in (range(mo + 1) if order is None else [order] if order <= mo else []):
                            if meth == "mvp":
                                want.append(mcall(sym("self"), inner, order=o, space=space, block=blk, indices=idx, subtract_gs=sym("SG")))
                            else:
                                want.append(mcall(sym("self"), inner, order=o, block=blk, subtract_gs=sym("SG")))
                    dx.compare(ctx, rule, fn, what, dx.keys(dx.skeleton(dx.val(outs[0]))), dx.keys(expand_products(t_add(*want)) if want else []),
                               key=f"{meth} {variant} {n} {space if meth == 'mvp' else ''} {order}")
    # expectation value of one block: left vector on indices generated for the bra space
    fn = ctx.model.fn(f"{SM}.expectation_value_block_order")
    for order, block in ((0, ("ph", "ph")), (1, ("ph", "pphh")), (1, ("pphh", "ph"))):
        scen = dx.Scenario()
        sx = dx.make_sx(ctx, "expectation_value_block_order", scen)
        outs = sx.run(fn, lambda: dict(self=_self(scen), order=order, block=",".join(block), subtract_gs=sym("SG")))
        what = f"expectation_value_block_order({order}, {block})"
        if len(outs) != 1 or outs[0].kind != "return":
            ctx.bad(rule, fn, f"{what}: {outs}", key=f"expec shape {block}")
            continue
        gen = [k for k, sp in scen.generated.items() if sp == block[0]]
        ctx.check(rule, fn, len(scen.generated) == 1 and len(gen) == 1, f"{what}: summed indices generated for the bra space {block[0]}",
                  f"{what}: indices generated for {sorted(scen.generated.values())}", key=f"expec generated {block}")
        if not gen:
            continue
        g = gen[0]
        want = t_mul(mcall(sym("isr"), "amplitude_vector", indices=g, lr="left"),
                     mcall(sym("self"), "mvp_block_order", order=order, space=block[0], block=block, indices=g, subtract_gs=sym("SG")))
        dx.compare(ctx, rule, fn, what, dx.keys(dx.skeleton(dx.val(outs[0]))), dx.keys(expand_products(want)), key=f"expec formula {block}")


def r03b(ctx):
    rule = "R03b"
    mp = ctx.model.fn(SM + ".max_ptorder_spaces")
    bo = ctx.model.fn(SM + ".block_order")
    for var in ("pp", "ip", "ea", "dip", "dea"):
        for n in range(0, 7):
            scen = dx.Scenario(variant=var)
            sx = dx.make_sx(ctx, "block_order", scen, extra_inline={f"{SM}.max_ptorder_spaces"})
            table = _table(scen, n)
            want = {}
            for (a, b), o in table.items():
                want[a] = max(want.get(a, -99), o) if a == b else want.get(a, -99)
            want = {a: table[(a, a)] + 0 for a in {x for x, _ in table}}
            # max order of a class mu is n - (mu - 1)
            ms = min(want, key=len)
            want = {a: n - (len(a) - len(ms)) // 2 for a in want}
            outs = sx.run(mp, lambda: dict(self=_self(scen), order=n))
            val = dx.val(outs[0]) if len(outs) == 1 and outs[0].kind == "return" else None
            ctx.check(rule, mp, val == want, f"{var}-ADC({n}): classes {want}",
                      f"{var}-ADC({n}): max_ptorder_spaces gives {val}, expected {want}", key=f"spaces {var} {n}")
            outs = sx.run(bo, lambda: dict(self=_self(scen), order=n))
            val = dx.val(outs[0]) if len(outs) == 1 and outs[0].kind == "return" else None
            ctx.check(rule, bo, val == table, f"{var}-ADC({n}): block orders n-(mu-1)-(nu-1)",
                      f"{var}-ADC({n}): block_order gives {val}, expected {table}", key=f"blocks {var} {n}")


def d2(ctx):
    """<bra| op |ket> inside every wicks of the matrix blocks (read off the evaluated skeleton)."""
    rule = "D2"
    for meth, state in (("isr_matrix_block", "intermediate_state"), ("precursor_matrix_block", "precursor")):
        fn = ctx.model.fn(f"{SM}.{meth}")
        scen = dx.Scenario()
        sx = dx.make_sx(ctx, meth, scen, max_paths=4096)
        outs = sx.run(fn, lambda: dict(self=_self(scen), order=2, block="ph,pphh", indices="ia,jkbc", subtract_gs=True))
        n = 0
        for o in outs:
            if o.kind != "return":
                continue
            for w in subterms(dx.val(o)):
                if not (w.op == "call" and w.args[0] == "wicks"):
                    continue
                n += 1
                a = args_of(w)
                fs = [f for f in (a["expr"].args if isinstance(a["expr"], T) and a["expr"].op == "mul" else [a["expr"]]) if not is_num(f)]
                kinds = []
                for f in fs:
                    if isinstance(f, T) and f.op == "mcall" and f.args[1] == state:
                        fa = args_of(f)
                        kinds.append((fa["braket"], fa["space"], fa["indices"]))
                    else:
                        kinds.append(("op", f))
                shape = [k[0] for k in kinds]
                # H - E: the energy shift is a scalar next to the operator
                core = [k for k in kinds if k[0] != "op" or not dx.is_scalar(k[1])]
                ok = [k[0] for k in core] == ["bra", "op", "ket"] and core[0][1:] == ("ph", "ia") and core[2][1:] == ("pphh", "jkbc")
                if [k[0] for k in core] == ["bra", "ket"]:
                    ok = core[0][1:] == ("ph", "ia") and core[1][1:] == ("pphh", "jkbc")  # pure energy-shift term
                ctx.check(rule, fn, ok, f"{meth}: wicks(<bra ph,ia| op |ket pphh,jkbc>)",
                          f"{meth}: operator string inside wicks is ordered {shape} with states {[k[1:] for k in kinds if k[0] != 'op']}: "
                          f"{show(a['expr'])[:300]}", key=f"{meth} sandwich {product_key(1, fs)[:200]}")
                op = [k[1] for k in kinds if k[0] == "op" and not dx.is_scalar(k[1])]
                if op:
                    src = op[0].args[0] if op[0].op == "item" else None
                    okr = a.get("rules") == (T("item", src, 1) if src is not None else None)
                    ctx.check(rule, fn, okr, f"{meth}: rules of the operator passed to wicks",
                              f"{meth}: wicks gets rules {show(a.get('rules'))} for the operator {show(op[0])}",
                              key=f"{meth} rules {product_key(1, fs)[:200]}")
                ctx.check(rule, fn, a.get("simplify_kronecker_deltas") is True, f"{meth}: deltas evaluated in wicks",
                          f"{meth}: wicks called with simplify_kronecker_deltas={a.get('simplify_kronecker_deltas')}",
                          key=f"{meth} deltas {product_key(1, fs)[:200]}")
        ctx.floor(rule, f"wicks calls in the skeleton of {meth}", n, 6)


def run(ctx):
    from . import c04, c02
    if ctx.want("D5"):
        d5(ctx)
    if ctx.want("R03a") or ctx.want("D1"):
        r03a_blocks(ctx)
    if ctx.want("R03a") or ctx.want("D3"):
        r03a_mvp(ctx)
    if ctx.want("R03a"):
        r03a_sums(ctx)
    if ctx.want("D2"):
        d2(ctx)
    if ctx.want("R03b"):
        r03b(ctx)
    if hasattr(c04, 'lower_layers'):
        c04.lower_layers(ctx)
