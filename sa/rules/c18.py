"""C18 print / import round trip (structural clauses)."""
from __future__ import annotations

import ast

from ..model import AnalysisError, U, Defs, calls_in, call_name, walk_fn, kwarg, enclosing, enclosing_stmt
from ..pathcond import conditions
from . import common

EXPLANATION = (
    "R18a: writer/reader agreement on the tensor class per configurable name: table W (every "
    "constructor call in the package whose name argument comes from tensor_names.*) against table R "
    "(the dispatch of import_from_sympy_latex). R18b: token agreement between the _latex printers "
    "(Index, AntiSymmetricTensor, NonSymmetricTensor, KroneckerDelta) and the reader (spin suffix "
    "words and codes, upper/lower order, delta blank separation, dagger, exponents). R18b': no "
    "writer format string contains the separators the reader splits on ('}{', top-level blank or "
    "sign). R18c: default-name mapping uses the same split logic as is_t_amplitude/is_gs_density. "
    "R18d: reader arithmetic (sign table, numerator/denominator order, every term added once, "
    "exponent restored, NO / bracket recursion forwards convert_default_names). R18e: re-applying "
    "the assumptions: Expr.__init__ applies declared bra-ket (anti)symmetry whenever either list is non-empty.")
ASSUMPTIONS = [
    "sympy's own printer for sums, fractions, powers and NO is trusted",
    "re-print equality is not decided",
]

CTORS = ("AntiSymmetricTensor", "SymmetricTensor", "Amplitude", "NonSymmetricTensor")
TWO_GROUP = ("AntiSymmetricTensor", "SymmetricTensor", "Amplitude")


def _fields(ctx):
    cls = ctx.model.cls("tensor_names:TensorNames")
    return [U(n.target) for n in cls.body if isinstance(n, ast.AnnAssign)]


def writer_table(ctx):
    """configurable name field -> {class: [sites]}"""
    fields = _fields(ctx)
    table = {}
    n_sites = 0
    for ref, fn in ctx.model.all_functions():
        if ref.startswith("func:import_from_sympy_latex"):
            continue  # the reader
        if getattr(fn, "_fn", None) is not None:
            continue
        defs = Defs(fn)
        for c in calls_in(fn):
            if call_name(c) not in CTORS or not isinstance(c.func, ast.Name) or not c.args:
                continue
            n_sites += 1
            src = U(defs.resolve(c.args[0]))
            used = [f for f in fields if f"tensor_names.{f}" in src]
            if "getattr(tensor_names" in src:
                used += [f for f in fields if f.endswith("_adc_amplitude")]
            for f in used:
                table.setdefault(f, {}).setdefault(call_name(c), []).append(c)
    return table, n_sites


def reader_table(ctx):
    fn = ctx.model.fn("func:import_from_sympy_latex.import_tensor")
    fields = _fields(ctx)
    tab = {}
    default2 = None
    default1 = None
    for a in walk_fn(fn):
        if isinstance(a, ast.Assign) and U(a.targets[0]) == "base" and isinstance(a.value, ast.Call) \
                and call_name(a.value) in CTORS:
            conds = conditions(a)
            cls = call_name(a.value)
            pos = [t for t, pol in conds if pol]
            named = False
            for t in pos:
                for f in fields:
                    if f"tensor_names.{f}" in t and ("name ==" in t or "name in" in t or "== name" in t):
                        tab[f] = cls
                        named = True
                if "is_adc_amplitude(name)" in t or "is_t_amplitude(name)" in t:
                    if "is_adc_amplitude(name)" in t:
                        tab["left_adc_amplitude"] = tab["right_adc_amplitude"] = cls
                    if "is_t_amplitude(name)" in t:
                        tab["gs_amplitude"] = cls
                    named = True
            if not named:
                if ("len(indices) == 2", True) in conds:
                    default2 = cls
                elif ("len(indices) == 1", True) in conds:
                    default1 = cls
    return tab, default2, default1, fn


def r18a(ctx):
    rule = "R18a"
    W, n_sites = writer_table(ctx)
    ctx.floor(rule, "tensor constructor call sites in the package", n_sites, 30)
    R, d2, d1, reader = reader_table(ctx)
    if d2 is None or d1 is None:
        raise AnalysisError("importer dispatch not recognised")
    ctx.floor(rule, "configurable names with a constructor site", len(W), 8)
    for f, classes in sorted(W.items()):
        for cls, sites in classes.items():
            if cls in TWO_GROUP:
                r = R.get(f, d2)
            else:
                r = d1
            ctx.check(rule, sites[0], r == cls,
                      f"tensor_names.{f}: written as {cls}, imported as {r}",
                      f"the library builds tensors named tensor_names.{f} as {cls} ({len(sites)} site(s)), but "
                      f"import_from_sympy_latex builds {r} for that name: the imported expression has another tensor kind",
                      fn="func:import_from_sympy_latex.import_tensor", key=f"{f}: {cls} vs {r}")
    # constructor arguments of the reader: (name, upper, lower)
    for a in walk_fn(reader):
        if isinstance(a, ast.Assign) and U(a.targets[0]) == "base" and isinstance(a.value, ast.Call) \
                and call_name(a.value) in TWO_GROUP:
            ctx.check(rule, a, [U(x) for x in a.value.args] == ["name", "upper", "lower"], "reader: (name, upper, lower)",
                      f"reader builds `{U(a.value)}`", key=f"ctor args {call_name(a.value)}")
    ul = {U(a.targets[0]): U(a.value) for a in walk_fn(reader) if isinstance(a, ast.Assign) and U(a.targets[0]) in ("upper", "lower")}
    ctx.check(rule, reader, ul == {"upper": "import_indices(indices[0])", "lower": "import_indices(indices[1])"},
              "first index group is the upper one", f"reader index groups {ul}", key="upper lower order")


def _strings(node):
    return [n.value for n in ast.walk(node) if isinstance(n, ast.Constant) and isinstance(n.value, str)]


def r18b(ctx):
    rule = "R18b"
    idx = ctx.model.fn("indices:Index._latex")
    rd = ctx.model.fn("func:import_from_sympy_latex.import_indices")
    # spin words
    words_w = sorted(s for s in _strings(idx) if s in ("alpha", "beta"))
    words_r = []
    for n in walk_fn(rd):
        if isinstance(n, ast.Compare) and U(n.left) == "spin" and isinstance(n.comparators[0], (ast.List, ast.Tuple)):
            words_r = sorted(_strings(n.comparators[0]))
    ctx.check(rule, rd, words_w == ["alpha", "beta"] and words_r == words_w, "spin words alpha/beta on both sides",
              f"writer prints {words_w}, reader accepts {words_r}", key="spin words")
    ife = [n for n in walk_fn(idx) if isinstance(n, ast.IfExp)]
    ctx.check(rule, idx, len(ife) == 1 and U(ife[0]) == "'alpha' if spin == 'a' else 'beta'", "writer: a -> alpha, b -> beta",
              "spin word selection changed", key="spin writer")
    sp = [c for c in calls_in(rd) if call_name(c) == "get_symbols" and len(c.args) == 2]
    ctx.check(rule, rd, len(sp) == 1 and U(sp[0].args[1]) == "spin[0]" and U(sp[0].args[0]) == "names[-1]",
              "reader: first letter of the word is the spin code, attached to the last name", "spin decoding changed", key="spin reader")
    tok_w = [s for s in _strings(idx) if "_{" in s]
    tok_r = [U(n.args[0]) for n in calls_in(rd) if call_name(n) == "split" and n.args and "_{" in U(n.args[0])]
    ctx.check(rule, rd, tok_w == ["_{\\"] and tok_r == ["'_{\\\\'"], "spin suffix token `_{\\` on both sides",
              f"writer token {tok_w}, reader token {tok_r}", key="spin token")
    rest = [c for c in calls_in(rd) if call_name(c) == "get_symbols" and len(c.args) == 1]
    ctx.check(rule, rd, sorted(U(c.args[0]) for c in rest) == ["names[:-1]", "sub_part"], "indices without suffix carry no spin",
              "spin-less index import changed", key="no spin")
    # tensors
    at = ctx.model.fn("sympy_objects:AntiSymmetricTensor._latex")
    nt = ctx.model.fn("sympy_objects:NonSymmetricTensor._latex")
    fa = [s for s in _strings(at) if "%s" in s]
    fn_ = [s for s in _strings(nt) if "%s" in s]
    ctx.check(rule, at, fa == ["{%s^{%s}_{%s}}"], "antisymmetric/symmetric/amplitude: {name^{upper}_{lower}}",
              f"tensor format is {fa}", key="tensor format")
    ctx.check(rule, nt, fn_ == ["{%s_{%s}}"], "non-symmetric: {name_{indices}}", f"format is {fn_}", key="nonsym format")
    ret = common.returns_of(at)[0].value
    args = ret.right.elts if isinstance(ret, ast.BinOp) and isinstance(ret.right, ast.Tuple) else []
    ok = len(args) == 3 and U(args[0]) == "self.symbol" and "self.args[1]" in U(args[1]) and "self.args[2]" in U(args[2])
    ctx.check(rule, at, ok, "upper group (args[1]) printed as superscript, lower (args[2]) as subscript",
              "order of the printed index groups changed", key="tensor groups")
    for cls in ("Amplitude", "SymmetricTensor"):
        c = ctx.model.cls(f"sympy_objects:{cls}")
        own = [n.name for n in c.body if isinstance(n, ast.FunctionDef)]
        ctx.check(rule, c, "_latex" not in own, f"{cls} shares the printer", f"{cls} has its own _latex", key=f"{cls} printer")
    # delta
    dl = ctx.model.fn("sympy_objects:KroneckerDelta._latex")
    sd = _strings(dl)
    ctx.check(rule, dl, "\\delta_{" in sd and " " in sd and "}" in sd, "delta: \\delta_{i j} with a blank between the indices",
              f"delta printer strings {sd}", key="delta writer")
    io = ctx.model.fn("func:import_from_sympy_latex.import_obj")
    dr = [a for a in walk_fn(io) if isinstance(a, ast.Assign) and U(a.targets[0]) == "idx" and "\\\\delta_{" in U(a.value)]
    ok = len(dr) == 1 and U(dr[0].value) == "obj_str[:-1].replace('\\\\delta_{', '', 1).split()"
    ctx.check(rule, io, ok, "reader strips \\delta_{ .. } and splits at blanks", "delta reader changed", key="delta reader")
    st = [n for n in walk_fn(io) if isinstance(n, ast.If) and "startswith('\\\\delta_')" in U(n.test)]
    ctx.check(rule, io, len(st) == 1, "delta recognised by its prefix", "delta recognition changed", key="delta prefix")
    chk = [n for n in walk_fn(io) if isinstance(n, ast.Raise) and ("len(idx) == 2", False) in conditions(n)]
    ctx.check(rule, io, len(chk) == 1, "delta needs two indices", "delta index check removed", key="delta two")
    # operators
    it = ctx.model.fn("func:import_from_sympy_latex.import_tensor")
    ops = {}
    for a in walk_fn(it):
        if isinstance(a, ast.Assign) and U(a.targets[0]) == "base" and isinstance(a.value, ast.Call) and call_name(a.value) in ("F", "Fd"):
            ops[call_name(a.value)] = (sorted(t for t, pol in conditions(a) if pol and "indices" in t), U(a.value))
    ok = ops.get("Fd", (None, None))[1] == "Fd(*import_indices(indices[1]))" and "indices[0] == '\\\\dagger'" in " ".join(ops["Fd"][0]) \
        and ops.get("F", (None, None))[1] == "F(*import_indices(indices[0]))"
    ctx.check(rule, it, ok, "a^\\dagger_{p} -> Fd, a_{p} -> F", f"operator import {ops}", key="operators")
    # exponent
    r = common.returns_of(it)
    ctx.check(rule, it, U(r[-1].value) == "Pow(base, exponent)", "exponent restored", f"import_tensor returns `{U(r[-1].value)}`",
              key="exponent")
    ex = [a for a in walk_fn(it) if isinstance(a, ast.Assign) and U(a.targets[0]) == "exponent"]
    vals = sorted(U(a.value) for a in ex)
    ctx.check(rule, it, vals == ["1", "int(exponent.lstrip('{').rstrip('}'))", "tensor[separator + 1:]"],
              "exponent parsed from ^{n}, default 1", f"exponent parsing {vals}", key="exponent parse")


def r18bp(ctx):
    rule = "R18b'"
    writers = ["indices:Index._latex", "sympy_objects:AntiSymmetricTensor._latex", "sympy_objects:NonSymmetricTensor._latex",
               "sympy_objects:KroneckerDelta._latex"]
    for w in writers:
        fn = ctx.model.fn(w)
        lits = [s for s in _strings(fn) if s and s != (ast.get_docstring(fn) or "")]
        text = "".join(lits)
        ok = all("}{" not in s for s in lits)
        ctx.check(rule, fn, ok, f"{w.split(':')[1]}: no `}}{{` in the format", f"{w}: writer string contains the fraction separator "
                  "`}{` the reader splits on", key=f"{w} fraction sep")
        # blanks and signs only inside braces
        depth_ok = True
        for s in lits:
            d = 0
            for ch in s:
                if ch == "{":
                    d += 1
                elif ch == "}":
                    d -= 1
                elif ch in " +-" and d <= 0 and not (w.endswith("KroneckerDelta._latex") and s == " "):
                    depth_ok = False
        ctx.check(rule, fn, depth_ok, f"{w.split(':')[1]}: no top-level blank or sign", f"{w}: a writer string has a top-level blank "
                  "or sign (the reader splits objects/terms there)", key=f"{w} top-level sep")
    dl = ctx.model.fn("sympy_objects:KroneckerDelta._latex")
    t = U(common.returns_of(dl)[0].value)
    a, b, c = t.find("\\\\delta_{"), t.find("' '.join"), t.rfind("'}'")
    ctx.check(rule, dl, 0 <= a < b < c, "delta: the blank is enclosed by the braces",
              "delta blank no longer enclosed", key="delta enclosed")


def r18c(ctx):
    rule = "R18c"
    a = ctx.model.fn("tensor_names:_split_default_t_amplitude")
    b = ctx.model.fn("tensor_names:_split_default_gs_density")
    sa = [U(s) for s in common.strip_docstring(a.body)]
    want_a = ["default = tensor_names.defaults()['gs_amplitude']", "base, ext = (name[:len(default)], name[len(default):])",
              "if base != default:\n    return None", "order = ext.replace('c', '')", "if order and (not order.isnumeric()):\n    return None",
              "return (base, ext)"]
    ctx.check(rule, a, sa == want_a, "default t-amplitude split: prefix, optional number, optional cc", f"body is {sa}", key="split t")
    sb = [U(s) for s in common.strip_docstring(b.body)]
    want_b = ["default = tensor_names.defaults()['gs_density']", "base, order = (name[:len(default)], name[len(default):])",
              "if base != default or (order and (not order.isnumeric())):\n    return None", "return (base, order)"]
    ctx.check(rule, b, sb == want_b, "default density split: prefix, optional number", f"body is {sb}", key="split p")
    m = ctx.model.fn("tensor_names:TensorNames.map_default_name")
    rets = {}
    for r in common.returns_of(m):
        par = r._parent
        key = U(par.test) if isinstance(par, ast.If) and r in par.body else "default"
        rets[key] = U(r.value)
    ok = rets.get("(split_name := _split_default_t_amplitude(name)) is not None") == "self.gs_amplitude + ext" and \
        rets.get("(split_name := _split_default_gs_density(name)) is not None") == "self.gs_density + ext" and \
        rets.get("field.default == name") == "getattr(self, field.name)" and rets.get("default") == "name"
    ctx.check(rule, m, ok, "default names mapped to the configured ones, extension kept", f"map_default_name returns {rets}", key="map")
    for f, attr in (("is_t_amplitude", "gs_amplitude"), ("is_gs_density", "gs_density")):
        fn = ctx.model.fn(f"tensor_names:{f}")
        rs = [U(r.value) for r in common.returns_of(fn)]
        ok = rs == [f"base == tensor_names.{attr} and order.isnumeric()", f"base == tensor_names.{attr}"]
        ctx.check(rule, fn, ok, f"{f}: configured prefix (+ number)", f"{f} returns {rs}", key=f)
    ia = ctx.model.fn("tensor_names:is_adc_amplitude")
    r = common.returns_of(ia)
    ctx.check(rule, ia, U(r[0].value) == "name == tensor_names.left_adc_amplitude or name == tensor_names.right_adc_amplitude",
              "ADC amplitudes: exactly the two configured names", "is_adc_amplitude changed", key="is_adc")
    it = ctx.model.fn("func:import_from_sympy_latex.import_tensor")
    mp = [a for a in walk_fn(it) if isinstance(a, ast.Assign) and U(a.value) == "tensor_names.map_default_name(name)"]
    ctx.check(rule, it, len(mp) == 1 and ("convert_default_names", True) in conditions(mp[0]), "mapping only on request",
              "default-name mapping not guarded by the flag", key="map flag")


def r18d(ctx):
    rule = "R18d"
    fn = ctx.model.fn("func:import_from_sympy_latex")
    loops = [n for n in fn.body if isinstance(n, ast.For) and U(n.iter) == "terms"]
    ctx.floor(rule, "term loop of the importer", len(loops), 1)
    lp = loops[0]
    body = {U(s) for s in lp.body}
    ctx.check(rule, lp, "sympy_term = -1 if sign == '-' else +1" in body, "'-' -> -1, '+' -> +1", "sign table changed", key="sign")
    ctx.check(rule, lp, "sympy_term *= import_term(num)" in body, "numerator multiplied", "numerator handling changed", key="num")
    dv = [s for s in ast.walk(lp) if isinstance(s, ast.AugAssign) and isinstance(s.op, ast.Div)]
    ok = len(dv) == 1 and U(dv[0].value) == "import_term(denom)" and ("denom is None", False) in conditions(dv[0])
    ctx.check(rule, lp, ok, "denominator divides", "denominator handling changed", key="denom")
    ctx.check(rule, lp, "sympy_expr += sympy_term" in body, "every term added once", "term accumulation changed", key="add")
    fr = [a for a in ast.walk(lp) if isinstance(a, ast.Assign) and U(a.targets[0]) == "(num, denom)"]
    vals = sorted(U(a.value) for a in fr)
    ctx.check(rule, lp, vals == ["(term, None)", "term[:-1].replace('\\\\frac{', '', 1).split('}{')"],
              "\\frac{num}{denom} split in this order", f"fraction split {vals}", key="frac")
    ret = common.returns_of(fn)
    ctx.check(rule, fn, U(ret[-1].value) == "Expr(sympy_expr)", "sum returned", "return changed", key="ret")
    io = ctx.model.fn("func:import_from_sympy_latex.import_obj")
    rec = [c for c in calls_in(io) if call_name(c) == "import_from_sympy_latex"]
    ok = len(rec) == 2 and all(U(kwarg(c, "convert_default_names", 1)) == "convert_default_names" for c in rec)
    ctx.check(rule, io, ok, "brackets and NO recurse with the same name conversion", "recursion loses convert_default_names", key="recursion")
    rs = [U(r.value) for r in common.returns_of(io)]
    for want, what in (("Pow(obj.sympy, exponent)", "bracket exponent"), ("NO(obj.sympy)", "normal ordering"),
                       ("sqrt(int(obj_str[:-1].replace('\\\\sqrt{', '', 1)))", "sqrt prefactor"), ("int(obj_str)", "integer prefactor"),
                       ("KroneckerDelta(*idx)", "delta"), ("import_tensor(obj_str)", "tensor")):
        ctx.check(rule, io, want in rs, f"{what} imported", f"{what}: return `{want}` not found ({rs})", key=what)
    im = ctx.model.fn("func:import_from_sympy_latex.import_term")
    r = common.returns_of(im)
    ctx.check(rule, im, U(r[-1].value) == "Mul(*(import_obj(o) for o in objects))", "term = product of all its objects",
              "term assembly changed", key="term product")
    stt = ctx.model.fn("func:import_from_sympy_latex.split_terms")
    cnd = [n for n in walk_fn(stt) if isinstance(n, ast.If) and "'+', '-'" in U(n.test)]
    ok = any(U(n.test) == "char in ['+', '-'] and (not stack) and (i != term_start_idx)" for n in cnd)
    ctx.check(rule, stt, ok, "terms split at top-level signs only", "term splitting changed", key="split terms")


def r18e(ctx):
    from . import c06
    c06.init_symmetry(ctx, "R18e")


def run(ctx):
    if ctx.want("R18e"):
        r18e(ctx)
    for r, f in (("R18a", r18a), ("R18b", r18b), ("R18b'", r18bp), ("R18c", r18c), ("R18d", r18d)):
        if ctx.want(r):
            f(ctx)
