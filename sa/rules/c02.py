"""C02 ground-state perturbation theory: derivation skeleton by abstract evaluation."""
from __future__ import annotations

import math
import re
from fractions import Fraction

from ..model import AnalysisError
from ..symex import Obj
from ..terms import (T, sym, kwcall, mcall, call, t_mul, t_add, t_neg, t_pow, t_div, expand_products, subterms, args_of,
                     show, is_num)
from . import dx

EXPLANATION = (
    "groundstate.py and operators.py are evaluated abstractly (sa.symex) for concrete orders, spaces and index strings; "
    "wicks, the second-quantised operators Fd/F/NO/Dagger, tensors, orbital energies and recursive sub-derivations stay "
    "uninterpreted, the index generator is modelled.  The evaluated sums of products are compared with the RSPT "
    "formulas of the library's conventions on every path. R02d: mp_h0 = f_pq p+q; mp_h1 = -<po||qo> p+q + 1/4 <pq||rs> "
    "p+q+sr; re_h0/re_h1 the full operator with block rules that partition the canonical Fock and ERI blocks; h0/h1 "
    "dispatch on the variant. D3: Operators.operator = 1/(n_c! n_a!) d^{create}_{annihilate} a+..a (annihilators "
    "reversed, first n_c generic indices create); excitation_operator order; psi^(n) = sum_exc (+/-)1/(exc!)^2 t^(n) "
    "NO(a+ .. i ..) with exc = 1..2n (singles skipped at first order unless requested), doubles negative, bra: cc name "
    "and adjoint operators. R02b: energy E^(n) = wicks(<0|H|psi^(k)>) with (H0,k=0) for n=0 and (H1,k=n-1) else; "
    "overlap S^(n) = sum wicks(<psi^(i)|psi^(j)>); expectation_value = sum N^(a) sum wicks(<psi^(i)| d |psi^(j)>) with "
    "the operator's rules. R02a: mp_amplitude = (wicks(<Phi|H1|psi^(n-1)>) +/- sum_{o1+o2=n; o1,o2>=1} E^(o1) t^(o2)) / "
    "(+/-)(sum e_occ - sum e_virt) with the doubles sign convention and the amplitude-existence guard; "
    "amplitude_residual = wicks(<Phi|H0|psi^(n)>) + wicks(<Phi|H1|psi^(n-1)>) +/- sum_{o1+o2=n} E^(o1) t^(o2); input "
    "guards; dispatch of amplitude() on the variant. R02c: expand_norm_factor returns the Taylor terms of (1+x)^-1 and "
    "norm_factor multiplies exactly those overlaps. D1/D2 are read off the same comparisons.")
ASSUMPTIONS = [
    "agreement of the derived expressions with explicit RSPT is not decided; the formulas above are the library's own conventions",
    "skeletons are evaluated for orders 0..4 (thorough tier: up to 7) and singles/doubles/triples spaces only (bounded)",
    "wicks, Fd, F, NO, Dagger, AntiSymmetricTensor, Amplitude, orb_energy and simplify are uninterpreted; Indices is modelled",
]

GS = dx.GS
OP = dx.OP


# ------------------------------------------------------------------ model of the index source

class Idx:
    """Model of Indices.get_indices / get_generic_indices / get_symbols on plain names."""

    def __init__(self):
        self.n = 0

    def reset(self, sx=None):
        self.n = 0

    @staticmethod
    def obj(name, space):
        o = Obj(None, name)
        o.attrs.update(name=name, space=space, spin="")
        return o

    def hooks(self):
        def get_indices(sx, a, kw):
            s = a[1] if len(a) > 1 else kw.get("indices")
            if isinstance(s, (list, tuple)):
                s = "".join(x.attrs["name"] if isinstance(x, Obj) else str(x) for x in s)
            if not isinstance(s, str):
                return NotImplemented
            out = {}
            for name in re.findall(r"<[^>]*>|[a-z]\d*", s):
                c = name[0]
                if c == "<":
                    sp = name[1:].split("#")[0]
                else:
                    sp = "occ" if "i" <= c <= "o" else "virt" if "a" <= c <= "h" else "general"
                out.setdefault((sp, ""), []).append(self.obj(name, sp))
            return out

        def get_generic_indices(sx, a, kw):
            out = {}
            self.n += 1
            for sp, cnt in kw.items():
                if not isinstance(cnt, int):
                    return NotImplemented
                if cnt:
                    out[(sp, "")] = [self.obj(f"<{sp}#{self.n}.{i}>", sp) for i in range(cnt)]
            return out

        def get_symbols(sx, a, kw):
            x = a[0] if a else kw.get("indices")
            if isinstance(x, str):
                return get_indices(sx, [None, x], {}) and [o for v in get_indices(sx, [None, x], {}).values() for o in v]
            return list(x)

        def indices_cls(sx, a, kw):
            return Obj("indices:Indices", "Indices()")

        def mul(sx, a, kw):
            return t_mul(*[x.term if isinstance(x, Obj) else x for x in a]) if a else 1
        return {"Indices.get_indices": get_indices, "Indices.get_generic_indices": get_generic_indices,
                "get_symbols": get_symbols, "Indices": indices_cls, "Mul": mul}


def _sx(ctx, what, scen, idx, **kw):
    hk = idx.hooks()
    hk.update(dx.taylor_hooks())
    sx = dx.make_sx(ctx, what, scen, hooks=hk, max_paths=8192, **kw)

    def start(s):
        scen.reset(s)
        idx.reset()
    sx.on_start = start
    return sx


def _gs(scen):
    return scen.objects()[1]


def _names(t):
    return T("attr", t, "x")


def tn(attr):
    """tensor_names.<attr> as the evaluator sees it."""
    return attr


def _is_tn(t, attr):
    return isinstance(t, T) and t.op == "attr" and t.args[1] == attr


# ------------------------------------------------------------------ operators.py

def _ast(name_attr, upper, lower, v):
    """AntiSymmetricTensor term with the configured name attribute checked separately."""
    return v


def _tensor_ok(t, name_attr, upper, lower):
    if not (isinstance(t, T) and t.op == "call" and t.args[0] == "AntiSymmetricTensor"):
        return False
    a = list(args_of(t).values())
    return _is_tn(a[0], name_attr) and tuple(a[1]) == tuple(upper) and tuple(a[2]) == tuple(lower)


def _fd(x):
    return call("Fd", x)


def _f(x):
    return call("F", x)


def _classify_h(prods):
    """[(coefficient, tensor term, operator string)] of a Hamiltonian expression."""
    out = []
    for c, fs in prods:
        tens = [f for f in fs if isinstance(f, T) and f.op == "call" and f.args[0] == "AntiSymmetricTensor"]
        ops = [f for f in fs if isinstance(f, T) and f.op == "call" and f.args[0] in ("Fd", "F")]
        rest = [f for f in fs if f not in tens and f not in ops]
        out.append((Fraction(c), tens, ops, rest))
    return out


def r02d(ctx):
    rule = "R02d"
    p, q, r, s = (sym(x) for x in "pqrs")
    full_eri = {"oooo", "ooov", "oovv", "ovov", "ovvv", "vvvv"}
    results = {}
    for meth in ("mp_h0", "mp_h1", "re_h0", "re_h1"):
        fn = ctx.model.fn(f"{OP}.{meth}")
        scen, idx = dx.Scenario(), Idx()
        sx = _sx(ctx, meth, scen, idx)
        outs = sx.run(fn, lambda: dict())
        if len(outs) != 1 or outs[0].kind != "return" or not isinstance(dx.val(outs[0]), tuple) or len(dx.val(outs[0])) != 2:
            ctx.bad(rule, fn, f"{meth} does not return one (operator, rules) pair: {outs}", key=f"{meth} shape")
            continue
        op, rules = dx.val(outs[0])
        parts = _classify_h(expand_products(op))
        o = sym("<occ#1.0>")
        want = []
        if meth in ("mp_h0", "re_h0", "re_h1"):
            want.append((Fraction(1), ("fock", (p,), (q,)), [_fd(p), _f(q)]))
        if meth in ("mp_h1", "re_h0", "re_h1"):
            want.append((Fraction(-1), ("eri", (p, o), (q, o)), [_fd(p), _f(q)]))
            want.append((Fraction(1, 4), ("eri", (p, q), (r, s)), [_fd(p), _fd(q), _f(s), _f(r)]))
        ok = len(parts) == len(want)
        detail = ""
        if ok:
            for (c, (na, up, lo), ops) in want:
                m = [x for x in parts if len(x[1]) == 1 and _tensor_ok(x[1][0], na, up, lo) and not x[3]]
                if len(m) != 1:
                    ok, detail = False, f"no term with the tensor {na}^{show(up)}_{show(lo)}"
                    break
                if m[0][0] != c:
                    ok, detail = False, f"the {na}^{show(up)}_{show(lo)} term has the prefactor {m[0][0]}, expected {c}"
                    break
                if m[0][2] != ops:
                    ok, detail = False, f"the {na}^{show(up)}_{show(lo)} term carries the operator string {show(m[0][2])}, expected {show(ops)}"
                    break
        else:
            detail = f"{len(parts)} terms, expected {len(want)}"
        ctx.check(rule, fn, ok, f"{meth}: " + " + ".join(f"{c} {na}" for c, (na, _, _), _ in want),
                  f"{meth}: {detail}: {show(op)[:300]}", key=f"{meth} formula")
        if meth.startswith("mp"):
            ctx.check(rule, fn, rules is None, f"{meth}: no block rules", f"{meth} returns rules {show(rules)}", key=f"{meth} rules")
        else:
            fb = None
            if isinstance(rules, T) and rules.op == "call" and rules.args[0] == "Rules":
                d = args_of(rules).get("forbidden_tensor_blocks")
                if isinstance(d, T) and d.op == "dict":
                    fb = {}
                    for k, v in d.args:
                        na = k.args[1] if isinstance(k, T) and k.op == "attr" else str(k)
                        fb[na] = set(v)
            results[meth] = fb
            ctx.check(rule, fn, fb is not None and set(fb) == {"fock", "eri"}, f"{meth}: block rules for the Fock matrix and the ERI",
                      f"{meth}: rules are {show(rules)[:200]}", key=f"{meth} rules")
    h0, h1 = results.get("re_h0"), results.get("re_h1")
    fn = ctx.model.fn(f"{OP}.re_h0")
    if h0 and h1 and set(h0) == {"fock", "eri"} == set(h1):
        canon_eri = lambda b: min(x for x in (b, b[2:] + b[:2], b[1] + b[0] + b[2:], b[:2] + b[3] + b[2], b[1] + b[0] + b[3] + b[2],
                                              b[2:] + b[1] + b[0], b[3] + b[2] + b[:2], b[3] + b[2] + b[1] + b[0]))
        for na, blocks, norm in (("fock", {"oo", "ov", "vo", "vv"}, lambda b: b),
                                 ("eri", full_eri, canon_eri)):
            for b in sorted(blocks):
                in0 = any(norm(x) == norm(b) for x in h0[na]) is False
                in1 = any(norm(x) == norm(b) for x in h1[na]) is False
                ctx.check(rule, fn, in0 != in1, f"RE: {na} block {b} belongs to exactly one of H0/H1",
                          f"RE partitioning: the {na} block {b} is kept by {'both' if in0 and in1 else 'neither'} of H0 and H1 "
                          f"(forbidden in H0: {sorted(h0[na])}, in H1: {sorted(h1[na])})", key=f"re partition {na} {b}")
            # every spelling of a forbidden canonical block that the tensors can take must be listed
            if na == "eri":
                for which, fbd in (("H0", h0[na]), ("H1", h1[na])):
                    for b in sorted({norm(x) for x in fbd}):
                        # a tensor that is not bra-ket symmetric (complex orbitals) keeps <bra||ket> and <ket||bra> apart:
                        # both spellings (each pair sorted) of a forbidden block have to be listed
                        for sp in sorted({b, b[2:] + b[:2]}):
                            ctx.check(rule, fn, sp in fbd, f"RE {which}: spelling {sp} of the block {b} listed",
                                      f"RE {which}: the block {b} is forbidden, but its spelling {sp} (bra and ket exchanged) is not listed "
                                      f"({sorted(fbd)}): without bra-ket symmetry that block survives", key=f"re spelling {which} {sp}")
        ctx.check(rule, fn, h0["fock"] == {"ov", "vo"} and {canon_eri(x) for x in h1["eri"]} == {"oooo", "ovov", "vvvv"},
                  "RE: H0 keeps the diagonal blocks (oo, vv; oooo, ovov, vvvv)",
                  f"RE: H0 forbids fock {sorted(h0['fock'])}, H1 forbids eri {sorted(h1['eri'])}", key="re diagonal")
    # dispatch of h0 / h1 on the variant
    for prop, table in (("h0", {"mp": "mp_h0", "re": "re_h0"}), ("h1", {"mp": "mp_h1", "re": "re_h1"})):
        fn = ctx.model.fn(f"{OP}.{prop}")
        for variant in ("mp", "re", "xx"):
            scen, idx = dx.Scenario(), Idx()
            sx = dx.make_sx(ctx, prop, scen)
            sx.inline = lambda q_: False
            outs = sx.run(fn, lambda: dict(self=Obj(OP, "h", _variant=variant)))
            if variant in table:
                v = dx.val(outs[0]) if len(outs) == 1 and outs[0].kind == "return" else None
                ok = isinstance(v, T) and v.op in ("mcall", "call") and (v.args[1] if v.op == "mcall" else v.args[0]).split(".")[-1] == table[variant]
                ctx.check(rule, fn, ok, f"{prop} of the {variant} partitioning is {table[variant]}()",
                          f"Operators.{prop} for variant '{variant}' evaluates to {show(v)[:120]}", key=f"dispatch {prop} {variant}")
            else:
                dx.all_raise(ctx, rule, fn, f"{prop} for an unknown partitioning", outs, key=f"dispatch {prop} unknown")


def d3_operator(ctx):
    rule = "D3"
    fn = ctx.model.fn(f"{OP}.operator")
    for nc, na in ((1, 1), (2, 2), (1, 0), (0, 1), (2, 1), (1, 2), (3, 3)):
        scen, idx = dx.Scenario(), Idx()
        sx = _sx(ctx, "operator", scen, idx)
        outs = sx.run(fn, lambda: dict(self=Obj(OP, "h", _variant="mp", _indices=Obj("indices:Indices", "h._indices")),
                                       n_create=nc, n_annihilate=na))
        what = f"operator({nc}, {na})"
        if len(outs) != 1 or outs[0].kind != "return" or not isinstance(dx.val(outs[0]), tuple):
            ctx.bad(rule, fn, f"{what}: {outs}", key=f"operator shape {nc} {na}")
            continue
        op, rules = dx.val(outs[0])
        g = [sym(f"<general#1.{i}>") for i in range(nc + na)]
        create, ann = g[:nc], g[nc:]
        prods = expand_products(op)
        ok = len(prods) == 1
        detail = f"{len(prods)} products"
        if ok:
            c, fs = prods[0]
            tens = [f for f in fs if isinstance(f, T) and f.op == "call" and f.args[0] == "AntiSymmetricTensor"]
            exc = [f for f in fs if isinstance(f, T) and f.op == "mcall" and f.args[1] == "excitation_operator"]
            want_c = Fraction(1, math.factorial(nc) * math.factorial(na))
            if Fraction(c) != want_c:
                ok, detail = False, f"prefactor {c}, expected 1/({nc}! {na}!) = {want_c}"
            elif len(tens) != 1 or not _tensor_ok(tens[0], "operator", create, ann):
                ok, detail = False, f"tensor {show(tens)}, expected d^{show(create)}_{show(ann)}"
            elif len(exc) != 1 or tuple(args_of(exc[0]).get("creation")) != tuple(create) or \
                    tuple(args_of(exc[0]).get("annihilation")) != tuple(ann) or args_of(exc[0]).get("reverse_annihilation") is not True:
                ok, detail = False, f"operator string {show(exc)}, expected creation={show(create)}, annihilation={show(ann)} reversed"
            elif len(fs) != 2:
                ok, detail = False, f"unexpected factors {show(fs)}"
        ctx.check(rule, fn, ok, f"{what} = 1/({nc}! {na}!) d a+..a with the first {nc} generic indices creating",
                  f"{what}: {detail}: {show(op)[:300]}", key=f"operator formula {nc} {na}")
        ctx.check(rule, fn, rules is None, f"{what}: no block rules", f"{what}: rules {show(rules)}", key=f"operator rules {nc} {na}")
    fn = ctx.model.fn(f"{OP}.excitation_operator")
    a, b, i, j = (sym(x) for x in "abij")
    for cr, an, rev, want in (((a, b), (i, j), True, [_fd(a), _fd(b), _f(j), _f(i)]), ((a, b), (i, j), False, [_fd(a), _fd(b), _f(i), _f(j)]),
                              ((a,), None, True, [_fd(a)]), (None, (i, j), True, [_f(j), _f(i)]), (None, None, True, []),
                              ((a,), (i, j), True, [_fd(a), _f(j), _f(i)])):
        scen, idx = dx.Scenario(), Idx()
        sx = _sx(ctx, "excitation_operator", scen, idx)
        outs = sx.run(fn, lambda: dict(self=Obj(OP, "h"), creation=list(cr) if cr else None, annihilation=list(an) if an else None,
                                       reverse_annihilation=rev))
        v = dx.val(outs[0]) if len(outs) == 1 and outs[0].kind == "return" else None
        prods = expand_products(v) if v is not None else None
        ok = prods is not None and len(prods) == 1 and prods[0][0] == 1 and prods[0][1] == want
        if want == []:
            ok = v == 1
        ctx.check(rule, fn, ok, f"excitation_operator({show(cr)}, {show(an)}, reverse={rev}) = {show(want)}",
                  f"excitation_operator(creation={show(cr)}, annihilation={show(an)}, reverse_annihilation={rev}) builds {show(v)[:200]}, "
                  f"expected {show(want)}", key=f"excitation operator {show(cr)} {show(an)} {rev}")


# ------------------------------------------------------------------ groundstate.py

def _psi(o, bk):
    return mcall(sym("gs"), "psi", order=o, braket=bk)


def _E(o):
    return mcall(sym("gs"), "energy", order=o)


def _wicks(expr, rules):
    return kwcall("wicks", expr=expr, rules=rules, simplify_kronecker_deltas=True)


def _hpart(k):
    return T("attr", sym("h"), k)


def d3_psi(ctx):
    rule = "D3"
    fn = ctx.model.fn(f"{GS}.psi")
    for singles in (False, True):
        for order in dx.orders(ctx, (0, 1, 2, 3), (4, 5)):
            for bk in ("ket", "bra"):
                scen, idx = dx.Scenario(singles=singles), Idx()
                sx = _sx(ctx, "psi", scen, idx)
                outs = sx.run(fn, lambda: dict(self=_gs(scen), order=order, braket=bk))
                what = f"psi({order}, {bk}{', singles' if singles else ''})"
                if len(outs) != 1 or outs[0].kind != "return":
                    ctx.bad(rule, fn, f"{what}: {outs}", key=f"psi shape {order} {bk} {singles}")
                    continue
                v = dx.val(outs[0])
                if order == 0:
                    ctx.check(rule, fn, dx.skeleton(v) == [(1, [])], f"{what} = 1", f"{what} = {show(v)[:100]}", key=f"psi {order} {bk} {singles}")
                    continue
                occ = [sym(f"<occ#1.{i}>") for i in range(2 * order)]
                virt = [sym(f"<virt#1.{i}>") for i in range(2 * order)]
                prods = dx.skeleton(v)
                excs = [e for e in range(1, 2 * order + 1) if not (order == 1 and e == 1 and not singles)]
                ok = len(prods) == len(excs)
                detail = f"{len(prods)} excitation classes, expected {excs}"
                seen = set()
                for c, fs in prods if ok else []:
                    amp = [f for f in fs if isinstance(f, T) and f.op == "call" and f.args[0] == "Amplitude"]
                    no = [f for f in fs if isinstance(f, T) and f.op == "call" and f.args[0] == "NO"]
                    if len(amp) != 1 or len(no) != 1 or len(fs) != 2:
                        ok, detail = False, f"unexpected product {show(fs)[:200]}"
                        break
                    a = list(args_of(amp[0]).values())
                    e = len(a[1])
                    seen.add(e)
                    name = a[0]
                    nm_ok = isinstance(name, T) and name.op == "fstr" and len(name.args) >= 2 and _is_tn(name.args[0], "gs_amplitude") and \
                        "".join(str(x) for x in name.args[1:]) == f"{order}{'cc' if bk == 'bra' else ''}"
                    inner = list(args_of(no[0]).values())[0]
                    if bk == "bra":
                        dag_ok = isinstance(inner, T) and inner.op == "call" and inner.args[0] == "Dagger"
                        inner = list(args_of(inner).values())[0] if dag_ok else inner
                    else:
                        dag_ok = not (isinstance(inner, T) and inner.op == "call" and inner.args[0] == "Dagger")
                    ea = args_of(inner) if isinstance(inner, T) and inner.op == "mcall" and inner.args[1] == "excitation_operator" else {}
                    want_c = Fraction(-1 if e == 2 else 1, math.factorial(e) ** 2)
                    if tuple(a[1]) != tuple(virt[:e]) or tuple(a[2]) != tuple(occ[:e]):
                        ok, detail = False, f"{e}-fold amplitude on {show(a[1])}/{show(a[2])}, expected the first {e} virtual (upper) and occupied (lower) generic indices"
                    elif Fraction(c) != want_c:
                        ok, detail = False, f"{e}-fold excitation with prefactor {c}, expected {want_c} (1/({e}!)^2, doubles negative)"
                    elif not nm_ok:
                        ok, detail = False, f"amplitude name {show(name)}, expected gs_amplitude + '{order}{'cc' if bk == 'bra' else ''}'"
                    elif not dag_ok:
                        ok, detail = False, "adjoint operators exactly for the bra"
                    elif tuple(ea.get("creation", ())) != tuple(virt[:e]) or tuple(ea.get("annihilation", ())) != tuple(occ[:e]) or \
                            ea.get("reverse_annihilation") is not True:
                        ok, detail = False, f"operator string {show(inner)[:160]}, expected a+(virt[:{e}]) a(occ[:{e}]) reversed"
                    if not ok:
                        break
                if ok and seen != set(excs):
                    ok, detail = False, f"excitation classes {sorted(seen)}, expected {excs}"
                ctx.check(rule, fn, ok, f"{what} = sum over exc in {excs} of (+/-)1/(exc!)^2 t NO(a+ a)",
                          f"{what}: {detail}", key=f"psi {order} {bk} {singles}")


def r02b(ctx):
    rule = "R02b"
    # energy
    fn = ctx.model.fn(f"{GS}.energy")
    for order in dx.orders(ctx, (0, 1, 2, 3, 4), (5, 6, 7)):
        scen, idx = dx.Scenario(), Idx()
        sx = _sx(ctx, "energy", scen, idx)
        outs = sx.run(fn, lambda: dict(self=_gs(scen), order=order))
        hp = _hpart("h0" if order == 0 else "h1")
        k = 0 if order == 0 else order - 1
        formula = [_wicks(t_mul(_psi(0, "bra"), T("item", hp, 0), _psi(k, "ket")), T("item", hp, 1))]
        dx.check_formula(ctx, rule, fn, f"energy({order})", outs, formula, key=f"energy {order}")
    # overlap
    fn = ctx.model.fn(f"{GS}.overlap")
    for order in dx.orders(ctx, (0, 1, 2, 3, 4), (5, 6, 7)):
        scen, idx = dx.Scenario(), Idx()
        sx = _sx(ctx, "overlap", scen, idx)
        outs = sx.run(fn, lambda: dict(self=_gs(scen), order=order))
        formula = [1] if order == 0 else [_wicks(t_mul(_psi(i, "bra"), _psi(j, "ket")), None) for i, j in dx.compositions(order, 2)]
        dx.check_formula(ctx, rule, fn, f"overlap({order})", outs, formula, key=f"overlap {order}")
    # expectation value
    fn = ctx.model.fn(f"{GS}.expectation_value")
    for order in dx.orders(ctx, (0, 1, 2, 3), (4, 5)):
        for npart in (1, 2):
            scen, idx = dx.Scenario(), Idx()
            sx = _sx(ctx, "expectation_value", scen, idx)
            outs = sx.run(fn, lambda: dict(self=_gs(scen), order=order, n_particles=npart))
            op = mcall(sym("h"), "operator", n_create=npart, n_annihilate=npart)
            formula = [t_mul(mcall(sym("gs"), "norm_factor", order=a), _wicks(t_mul(_psi(i, "bra"), T("item", op, 0), _psi(j, "ket")), T("item", op, 1)))
                       for a, m in dx.compositions(order, 2) for i, j in dx.compositions(m, 2)]
            dx.check_formula(ctx, rule, fn, f"expectation_value({order}, {npart})", outs, formula, key=f"expectation {order} {npart}")


def _amp_name(o):
    return None


def _amp_ok(t, order, upper, lower):
    if not (isinstance(t, T) and t.op == "call" and t.args[0] == "Amplitude"):
        return False
    a = list(args_of(t).values())
    name = a[0]
    nm = isinstance(name, T) and name.op == "fstr" and _is_tn(name.args[0], "gs_amplitude") and "".join(str(x) for x in name.args[1:]) == str(order)
    return nm and tuple(a[1]) == tuple(upper) and tuple(a[2]) == tuple(lower)


def r02a(ctx):
    rule = "R02a"
    cases = (("ph", "ia"), ("pphh", "ijab"), ("ppphhh", "ijkabc"))
    for meth in ("mp_amplitude", "amplitude_residual"):
        fn = ctx.model.fn(f"{GS}.{meth}")
        for singles in (False, True):
            for space, istr in cases:
                for order in dx.orders(ctx, (0, 1, 2, 3), (4, 5)):
                    scen, idx = dx.Scenario(singles=singles, gs_variant="mp" if meth == "mp_amplitude" else "re"), Idx()
                    sx = _sx(ctx, meth, scen, idx)
                    outs = sx.run(fn, lambda: dict(self=_gs(scen), order=order, space=space, indices=istr))
                    what = f"{meth}({order}, {space}{', singles' if singles else ''})"
                    n = len(space) // 2
                    occ = [sym(c) for c in istr if "i" <= c <= "o"]
                    virt = [sym(c) for c in istr if "a" <= c <= "h"]
                    if len(outs) != 1 or outs[0].kind != "return":
                        ctx.bad(rule, fn, f"{what}: {outs}", key=f"{meth} shape {space} {order} {singles}")
                        continue
                    v = dx.val(outs[0])
                    if n > 2 * order:
                        ctx.check(rule, fn, v == 0, f"{what} = 0 (class absent at this order)", f"{what} = {show(v)[:120]}, expected 0",
                                  key=f"{meth} {space} {order} {singles}")
                        continue
                    # <Phi| : excitation operator creating the occupied, annihilating the virtual indices
                    bra = mcall(sym("h"), "excitation_operator", creation=tuple(occ), annihilation=tuple(virt), reverse_annihilation=True)
                    sign = 1 if n == 2 else -1
                    elig = lambda o2: not (n > 2 * o2) and not (n == 1 and o2 == 1 and not singles)
                    if meth == "mp_amplitude":
                        h1 = _hpart("h1")
                        num = [_wicks(t_mul(bra, T("item", h1, 0), _psi(order - 1, "ket")), T("item", h1, 1))]
                        pairs = [(o1, o2) for o1, o2 in dx.compositions(order, 2, lo=1)]
                    else:
                        h0, h1 = _hpart("h0"), _hpart("h1")
                        num = [_wicks(t_mul(bra, T("item", h0, 0), _psi(order, "ket")), T("item", h0, 1)),
                               _wicks(t_mul(bra, T("item", h1, 0), _psi(order - 1, "ket")), T("item", h1, 1))]
                        pairs = [(o1, o2) for o1, o2 in dx.compositions(order, 2)]
                    got = v
                    denom_ok = True
                    if meth == "mp_amplitude":
                        # v = numerator * denom ** -1
                        fs = v.args if isinstance(v, T) and v.op == "mul" else (v,)
                        den = [f for f in fs if isinstance(f, T) and f.op == "pow" and f.args[1] == -1]
                        rest = [f for f in fs if f not in den]
                        denom_ok = len(den) == 1
                        if denom_ok:
                            of, vf = (-1, 1) if n == 2 else (1, -1)
                            want_den = dx.keys(expand_products(t_add(*[t_mul(of, kwcall("orb_energy", idx=x)) for x in occ],
                                                                     *[t_mul(vf, kwcall("orb_energy", idx=x)) for x in virt])))
                            got_den = dx.keys(expand_products(_strip_kw(den[0].args[0])))
                            denom_ok = want_den == got_den
                            got = t_mul(*rest)
                        ctx.check(rule, fn, denom_ok, f"{what}: denominator {'e_a+e_b-e_i-e_j' if n == 2 else 'sum e_occ - sum e_virt'}",
                                  f"{what}: denominator is {show(den)[:200]}", key=f"{meth} denominator {space} {order} {singles}")
                    prods = dx.skeleton(got)
                    want = sum((expand_products(x) for x in num), [])
                    wk = dx.keys(want)
                    gk = {}
                    ok, detail = True, ""
                    extra = []
                    for c, fs in prods:
                        amp = [f for f in fs if isinstance(f, T) and f.op == "call" and f.args[0] == "Amplitude"]
                        if not amp:
                            k = dx.product_key(c, fs, dx.is_scalar)
                            gk[k] = gk.get(k, 0) + 1
                        else:
                            extra.append((c, fs, amp))
                    if gk != wk:
                        ok, detail = False, f"Wick part differs: got {sorted(gk)[:2]}, expected {sorted(wk)[:2]}"
                    want_pairs = [(o1, o2) for o1, o2 in pairs if elig(o2)]
                    seen = []
                    for c, fs, amp in extra if ok else []:
                        en = [f for f in fs if isinstance(f, T) and f.op == "mcall" and f.args[1] == "energy"]
                        if len(amp) != 1 or len(en) != 1 or len(fs) != 2:
                            ok, detail = False, f"unexpected product {show(fs)[:200]}"
                            break
                        o1 = args_of(en[0]).get("order")
                        o2s = [o2 for o2 in range(0, order + 1) if _amp_ok(amp[0], o2, virt, occ)]
                        if len(o2s) != 1:
                            ok, detail = False, f"amplitude factor {show(amp[0])[:160]} is not t^(k) on the requested (virtual, occupied) indices"
                            break
                        if Fraction(c) != sign:
                            ok, detail = False, f"E^({o1}) t^({o2s[0]}) enters with the sign {c}, expected {sign} (doubles convention)"
                            break
                        seen.append((o1, o2s[0]))
                    if ok and sorted(seen) != sorted(want_pairs):
                        ok, detail = False, f"energy-amplitude products {sorted(seen)}, expected {sorted(want_pairs)} (orders add up to {order}; amplitude exists)"
                        if {a + b for a, b in seen} - {order}:
                            ctx.bad("D1", fn, f"{what}: {detail}", key=f"{meth} {space} {order} {singles} orders")
                    ctx.check(rule, fn, ok, f"{what}: Wick part and {len(want_pairs)} energy-amplitude products", f"{what}: {detail}",
                              key=f"{meth} {space} {order} {singles}")
        # guards
        for space, istr, why in (("pph", "iab", "space with unequal numbers of particles and holes"), ("pphh", "ia", "indices that do not fit the space")):
            scen, idx = dx.Scenario(), Idx()
            sx = _sx(ctx, meth, scen, idx)
            outs = sx.run(fn, lambda: dict(self=_gs(scen), order=2, space=space, indices=istr))
            dx.all_raise(ctx, rule, fn, f"{meth}: {why}", outs, key=f"{meth} guard {why}")
    fn = ctx.model.fn(f"{GS}.amplitude")
    for variant, target in (("mp", "mp_amplitude"), ("re", "amplitude_residual"), ("xx", None)):
        scen, idx = dx.Scenario(gs_variant=variant), Idx()
        sx = dx.make_sx(ctx, "amplitude", scen)
        sx.inline = lambda q_: False
        outs = sx.run(fn, lambda: dict(self=_gs(scen), order=sym("N"), space=sym("S"), indices=sym("I")))
        if target is None:
            dx.all_raise(ctx, rule, fn, "amplitude for an unknown partitioning", outs, key="amplitude dispatch unknown")
        else:
            v = dx.val(outs[0]) if len(outs) == 1 and outs[0].kind == "return" else None
            ok = isinstance(v, T) and v.op == "mcall" and v.args[1] == target and \
                [args_of(v).get(k) for k in ("order", "space", "indices")] == [sym("N"), sym("S"), sym("I")]
            ctx.check(rule, fn, ok, f"amplitude of the {variant} partitioning is {target}(order, space, indices)",
                      f"amplitude() for variant '{variant}' evaluates to {show(v)[:160]}", key=f"amplitude dispatch {variant}")


def _strip_kw(t):
    return t


def r02c(ctx):
    rule = "R02c"
    fn = ctx.model.fn(f"{GS}.expand_norm_factor")
    for order in range(0, 10):
        scen, idx = dx.Scenario(), Idx()
        sx = _sx(ctx, "expand_norm_factor", scen, idx)
        outs = sx.run(fn, lambda: dict(self=_gs(scen), order=order, min_order=2))
        want = [(1, [(order,)])] if order < 2 else [(dx.taylor_coefficient(-1, k), [tuple(c) for c in dx.compositions(order, k, lo=2)])
                                                   for k in range(1, order // 2 + 1)]
        got = dx.val(outs[0]) if len(outs) == 1 and outs[0].kind == "return" else None
        try:
            norm = [(Fraction(p), sorted(tuple(t) for t in ts)) for p, ts in got]
        except Exception:
            norm = None
        ctx.check(rule, fn, norm == [(Fraction(p), sorted(ts)) for p, ts in want], f"(1+x)^-1 Taylor terms of order {order}",
                  f"expand_norm_factor({order}) returns {show(got)[:300]}, expected {want}", key=f"norm taylor {order}")
    scen, idx = dx.Scenario(), Idx()
    sx = _sx(ctx, "expand_norm_factor", scen, idx)
    outs = sx.run(fn, lambda: dict(self=_gs(scen), order=4, min_order=0))
    dx.all_raise(ctx, rule, fn, "expand_norm_factor: min_order 0", outs, key="norm taylor guard")
    fn = ctx.model.fn(f"{GS}.norm_factor")
    for order in range(0, 7):
        scen, idx = dx.Scenario(), Idx()
        sx = _sx(ctx, "norm_factor", scen, idx, extra_inline={f"{GS}.expand_norm_factor"}, oracle=dx.nothing_vanishes, max_steps=3000000)
        outs = sx.run(fn, lambda: dict(self=_gs(scen), order=order))
        S = lambda o: mcall(sym("gs"), "overlap", order=o)
        if order < 2:
            formula = [S(order)]
        else:
            formula = [t_mul(dx.taylor_coefficient(-1, k), *[S(o) for o in os_]) for k in range(1, order // 2 + 1)
                       for os_ in dx.compositions(order, k, lo=2)]
        dx.check_formula(ctx, rule, fn, f"norm_factor({order})", outs, formula, key=f"norm factor {order}", only_full=True)


def ground_state_layer(ctx):
    if ctx.want("R02d"):
        r02d(ctx)
    if ctx.want("D3"):
        d3_operator(ctx)
        d3_psi(ctx)
    if ctx.want("R02b"):
        r02b(ctx)
    if ctx.want("R02a"):
        r02a(ctx)
    if ctx.want("R02c"):
        r02c(ctx)


def run(ctx):
    ground_state_layer(ctx)
