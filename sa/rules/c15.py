"""C15 spin integration (structural clauses)."""
from __future__ import annotations

import ast

from ..model import (AnalysisError, U, Defs, FuncNode, calls_in, call_name, walk_fn, kwarg, enclosing,
                     enclosing_stmt, parents, names_in, short)
from ..pathcond import conditions
from . import common

EXPLANATION = (
    "R15a: no in-place mutation of a value reached through a shallow copy (dict.copy()/dict(d)/"
    "list.copy()) while the original stays live (package-wide). R15b: no fold that seeds its "
    "accumulator from the first element under `if not acc` and later interprets emptiness, unless "
    "the folded sequence is known non-empty (package-wide; triaged exceptions frozen with reasons). "
    "R15c: Coulomb expansion <pq||rs> = (pr|qs) - (ps|qr): each Coulomb tensor is dominated by the "
    "spin equalities of exactly its own charge distributions, signs +/-, bra-ket symmetry 1 "
    "required, exponent kept. R15d: hard-coded spin-block tables (ERI, Coulomb, delta, operators, "
    "t-amplitudes) agree with the spin-conservation oracle and with the guards of R15c. R15e: "
    "restricted beta->alpha renaming refuses clashes, resets targets to alpha, keeps every term "
    "once. R15f: in integrate_spin a term leaves the loop without contribution only under "
    "term_vanishes, which is set only when an object has no admissible block or no consistent "
    "combination exists; unassigned contracted indices get both spins; the spin is attached "
    "without renaming. R15g: the backtracking search _has_valid_combination (behind the reported "
    "allowed spin blocks) evaluated on 1728 three-tensor instances against brute force.")
ASSUMPTIONS = [
    "completeness/duplicate-freeness of the enumeration of spin assignments in general is not decided",
]

SO = "spatial_orbitals:"
MUTATORS = {"add", "append", "update", "extend", "remove", "discard", "pop", "clear", "insert",
            "difference_update", "intersection_update", "symmetric_difference_update", "sort", "reverse",
            "setdefault", "popitem"}

# R15b triage: (function) -> reason why an empty folded sequence cannot occur / is handled
FOLD_FROZEN = {
    "simplify:find_compatible_terms.compare_terms": {
        "ov_sub_list": "folded over idx_pattern.items(): a pattern entry exists only for spaces that hold an index",
        "sub_list": "terms without indices carry an empty pattern; such terms differ only by a number and are "
                    "merged by sympy's Add, so `no match` is the correct answer",
    },
    "factor_intermediates:_compare_eri_parts": {
        "variants": "folded over the objects of an intermediate term's ERI part, which is never empty for a "
                    "registered definition (R12a types every term); an empty part yields `no match` and the "
                    "caller keeps the term unfactored (value preserved)",
    },
}


def shallow_copy_sites(fn):
    """(copy statement, copy name, original text, mutation node)"""
    out = []
    for n in walk_fn(fn, nested=True):
        if not (isinstance(n, ast.Assign) and len(n.targets) == 1 and isinstance(n.targets[0], ast.Name)):
            continue
        v = n.value
        orig = None
        if isinstance(v, ast.Call) and isinstance(v.func, ast.Attribute) and v.func.attr == "copy" and not v.args:
            orig = v.func.value
        elif isinstance(v, ast.Call) and isinstance(v.func, ast.Name) and v.func.id in ("dict", "list") \
                and len(v.args) == 1 and isinstance(v.args[0], ast.Name):
            orig = v.args[0]
        if orig is None:
            continue
        name = n.targets[0].id
        scope = enclosing(n, FuncNode) or fn
        for m in ast.walk(scope):
            if getattr(m, "lineno", 0) < n.lineno:
                continue
            # copy[k].mutator(...)
            if isinstance(m, ast.Call) and isinstance(m.func, ast.Attribute) and m.func.attr in MUTATORS \
                    and isinstance(m.func.value, ast.Subscript) and U(m.func.value.value) == name:
                out.append((n, name, U(orig), m))
            # copy[k] |= ... / += ...
            if isinstance(m, ast.AugAssign) and isinstance(m.target, ast.Subscript) and isinstance(m.target.value, ast.Subscript) \
                    and U(m.target.value.value) == name:
                out.append((n, name, U(orig), m))
            if isinstance(m, ast.AugAssign) and isinstance(m.target, ast.Subscript) and U(m.target.value) == name \
                    and isinstance(m.op, (ast.BitOr, ast.BitAnd, ast.Sub, ast.BitXor)):
                out.append((n, name, U(orig), m))
    return out


def r15a(ctx, modules=None):
    rule = "R15a"
    n_copy = 0
    for ref, fn in ctx.model.all_functions():
        if modules and ref.split(":")[0] not in modules:
            continue
        if getattr(fn, "_fn", None) is not None:
            continue  # nested functions are walked with their parent
        copies = [c for c in calls_in(fn) if isinstance(c.func, ast.Attribute) and c.func.attr == "copy" and not c.args]
        n_copy += len(copies)
        for st, name, orig, mut in shallow_copy_sites(fn):
            # a value stored under the key before the mutation makes it private
            key = U(mut.func.value.slice) if isinstance(mut, ast.Call) else None
            private = False
            for m in ast.walk(enclosing(st, FuncNode) or fn):
                if isinstance(m, ast.Assign) and isinstance(m.targets[0], ast.Subscript) \
                        and U(m.targets[0].value) == name and st.lineno < m.lineno < mut.lineno:
                    private = True
            if private:
                ctx.ok(rule, mut, "nested value replaced before mutation")
                continue
            ctx.bad(rule, mut, f"`{name}` is a shallow copy of `{orig}` (`{short(st, 60)}`); `{short(mut, 60)}` mutates a "
                    f"nested value that is shared with `{orig}` and with every other copy", fn=ref,
                    key=f"{name} <- {orig}")
    if not modules:
        ctx.floor(rule, ".copy() call sites examined package-wide", n_copy, 10)
    ctx.ok(rule, None, f"{n_copy} copy sites examined", fn="package", key="copy sites")
    # positive fixture: the detector must match the textbook pattern on every run
    fix = ast.parse("def f(ms):\n    out = []\n    for m in ms:\n        c = m.copy()\n        c['a'].add(1)\n        out.append(c)\n    return out\n")
    for x in ast.walk(fix):
        for ch in ast.iter_child_nodes(x):
            ch._parent = x
    if len(shallow_copy_sites(fix.body[0])) != 1:
        raise AnalysisError("R15a: positive fixture not matched")


def fold_sites(fn):
    """loops of the form  acc=[] ; for x in S: if not acc: <seed>; continue|else ... """
    out = []
    for lp in walk_fn(fn, nested=True):
        if not isinstance(lp, ast.For):
            continue
        for s in lp.body:
            if isinstance(s, ast.If) and isinstance(s.test, ast.UnaryOp) and isinstance(s.test.op, ast.Not) \
                    and isinstance(s.test.operand, ast.Name):
                acc = s.test.operand.id
                seeds = [c for c in ast.walk(ast.Module(body=s.body, type_ignores=[]))
                         if (isinstance(c, ast.Call) and call_name(c) in ("extend", "append") and U(c.func.value) == acc)
                         or (isinstance(c, ast.Assign) and U(c.targets[0]) == acc)]
                if not seeds:
                    continue
                # accumulator initialised empty before the loop
                scope = enclosing(lp, FuncNode) or fn
                init = [a for a in ast.walk(scope) if isinstance(a, (ast.Assign, ast.AnnAssign))
                        and U(a.targets[0] if isinstance(a, ast.Assign) else a.target) == acc
                        and a.value is not None and U(a.value) in ("[]", "list()") and a.lineno < lp.lineno]
                if not init:
                    continue
                out.append((lp, acc, s))
    return out


def r15b(ctx, modules=None):
    rule = "R15b"
    n = 0
    for ref, fn in ctx.model.all_functions():
        if modules and ref.split(":")[0] not in modules:
            continue
        if getattr(fn, "_fn", None) is not None and ref not in FOLD_FROZEN:
            # nested functions are reported under their own qualified name
            pass
        for lp, acc, iff in fold_sites(fn):
            owner = enclosing(lp, FuncNode)
            oref = f"{ref.split(':')[0]}:{owner._qual}"
            if oref != ref:
                continue
            n += 1
            seq = U(lp.iter)
            conds = conditions(lp)
            nonempty = (seq, True) in conds or (f"len({seq}) > 0", True) in conds or (f"len({seq}) == 0", False) in conds
            frozen = FOLD_FROZEN.get(ref, {}).get(acc)
            if nonempty:
                ctx.ok(rule, lp, f"fold over `{seq}` guarded non-empty", fn=ref, key=f"{acc} over {seq}")
            elif frozen:
                ctx.ok(rule, lp, f"fold `{acc}` over `{seq}`: triaged - {frozen}", fn=ref, key=f"{acc} over {seq}")
            else:
                ctx.bad(rule, lp, f"`{acc}` starts empty, is seeded from the first element of `{seq}` under `if not {acc}` "
                        f"and its emptiness is interpreted afterwards; if `{seq}` is empty the neutral element of the "
                        "fold is confused with `no valid combination` (the term is dropped)", fn=ref,
                        key=f"{acc} over {seq}")
    if not modules:
        ctx.floor(rule, "fold sites examined package-wide", n, 3)


# ---------------------------------------------------------------------- R15c/d


def r15c(ctx):
    rule = "R15c"
    fn = ctx.model.fn("expr_container:Obj.expand_antisym_eri")
    unp = [n for n in walk_fn(fn) if isinstance(n, ast.Assign) and isinstance(n.targets[0], ast.Tuple)
           and U(n.value).endswith(".idx") and len(n.targets[0].elts) == 4]
    if len(unp) != 1:
        raise AnalysisError("expand_antisym_eri: `p, q, r, s = <eri>.idx` not found")
    n0, n1, n2, n3 = (U(e) for e in unp[0].targets[0].elts)
    sites = [c for c in calls_in(fn) if call_name(c) == "SymmetricTensor"]
    ctx.floor(rule, "Coulomb tensors in expand_antisym_eri", len(sites), 2)
    want = {((n0, n2), (n1, n3)): ast.Add, ((n0, n3), (n1, n2)): ast.Sub}
    seen = set()
    for c in sites:
        if len(c.args) < 3 or not all(isinstance(a, ast.Tuple) and len(a.elts) == 2 for a in c.args[1:3]):
            ctx.bad(rule, c, "Coulomb tensor not built from two index pairs", key="coulomb shape")
            continue
        pairs = tuple(tuple(U(e) for e in a.elts) for a in c.args[1:3])
        norm = tuple(sorted(tuple(sorted(p)) for p in pairs))
        key = next((k for k in want if tuple(sorted(tuple(sorted(p)) for p in k)) == norm), None)
        ctx.check(rule, c, key is not None, f"charge distributions {pairs} are one of (pr|qs), (ps|qr)",
                  f"Coulomb integral built from pairs {pairs}; <pq||rs> expands to (pr|qs) - (ps|qr) only",
                  key=f"pairs {pairs}")
        if key is None:
            continue
        seen.add(key)
        st = enclosing_stmt(c)
        ctx.check(rule, c, isinstance(st, ast.AugAssign) and isinstance(st.op, want[key]) and st.value is c,
                  f"{pairs}: sign {'+' if want[key] is ast.Add else '-'}",
                  f"Coulomb term {pairs} enters with the wrong sign or prefactor (`{short(st, 60)}`)", key=f"sign {pairs}")
        conds = conditions(c)
        need = set()
        for a, b in pairs:
            need.add(frozenset((f"{a}.spin", f"{b}.spin")))
        got = set()
        for t, pol in conds:
            if pol and " == " in t and ".spin" in t:
                got.add(frozenset(t.split(" == ")))
        ctx.check(rule, c, got == need, f"{pairs}: guarded by equal spins within each charge distribution",
                  f"Coulomb term {pairs} is guarded by {sorted(map(sorted, got))}, required "
                  f"{sorted(map(sorted, need))}", key=f"guard {pairs}")
        ctx.check(rule, c, U(c.args[0]) == "tensor_names.coulomb" and len(c.args) == 4 and U(c.args[3]) == "1",
                  "configured Coulomb name, bra-ket symmetric", "Coulomb tensor name or bra-ket symmetry changed",
                  key=f"name {pairs}")
    ctx.check(rule, fn, seen == set(want), "both charge distributions present", "a Coulomb term is missing", key="both terms")
    r = [n for n in walk_fn(fn) if isinstance(n, ast.Raise)]
    ok = any(("self.bra_ket_sym != 1", True) in conditions(x) or ("self.bra_ket_sym == 1", False) in conditions(x) for x in r)
    ctx.check(rule, fn, ok, "only bra-ket symmetric ERI are expanded", "expansion of non-symmetric ERI is not refused", key="real only")
    g = [n for n in walk_fn(fn) if isinstance(n, ast.If) and U(n.test) == "self.name == tensor_names.eri"]
    ctx.check(rule, fn, len(g) == 1, "only the antisymmetric ERI is expanded", "ERI name test changed", key="eri only")
    from .skeleton import obj_level
    obj_level(ctx, rule, "expand_antisym_eri")


def r15d(ctx):
    rule = "R15d"
    import itertools
    fn = ctx.model.fn("expr_container:Obj.allowed_spin_blocks")
    blocks = {}
    for r in common.returns_of(fn):
        if not isinstance(r.value, ast.Tuple) or not all(isinstance(e, ast.Constant) for e in r.value.elts):
            continue
        conds = conditions(r)
        val = tuple(e.value for e in r.value.elts)
        for t, pol in conds:
            if pol and t.startswith("name == tensor_names."):
                blocks[t.split("tensor_names.")[1]] = val
            if pol and t == "isinstance(obj, KroneckerDelta)":
                blocks["delta"] = val
            if pol and t == "isinstance(obj, FermionicOperator)":
                blocks["operator"] = val
    all4 = ["".join(b) for b in itertools.product("ab", repeat=4)]
    eri = sorted(b for b in all4 if (b[0] == b[2] and b[1] == b[3]) or (b[0] == b[3] and b[1] == b[2]))
    coul = sorted(b for b in all4 if b[0] == b[1] and b[2] == b[3])
    want = {"eri": eri, "coulomb": coul, "delta": ["aa", "bb"], "operator": ["a", "b"]}
    for k, w in want.items():
        got = sorted(blocks.get(k, ()))
        ctx.check(rule, fn, got == w, f"{k}: blocks {w}", f"allowed spin blocks of {k} are {got}; spin conservation gives {w}",
                  key=f"blocks {k}")
        ctx.check(rule, fn, len(blocks.get(k, ())) == len(set(blocks.get(k, ()))), f"{k}: no duplicate block",
                  f"{k}: duplicate spin block listed (double counting)", key=f"dups {k}")
    # t-amplitudes: same number of alpha in both halves
    comp = [n for n in walk_fn(fn) if isinstance(n, ast.ListComp) and "product('ab'" in U(n)]
    ok = False
    if len(comp) == 1:
        g = comp[0].generators[0]
        b = U(g.target)
        ok = U(g.iter).replace(" ", "") == "product('ab',repeat=len(idx))" and len(g.ifs) == 1 \
            and U(g.ifs[0]).replace(" ", "") in (f"{b}[:n].count('a')=={b}[n:].count('a')", f"{b}[:n].count('b')=={b}[n:].count('b')") \
            and U(comp[0].elt) == f"''.join({b})"
        nn = [a for a in common.assigns_to(fn, "n")]
        ok = ok and len(nn) == 1 and U(nn[0].value).replace(" ", "") == "len(idx)//2" \
            and ("is_t_amplitude(name)", True) in conditions(comp[0])
    ctx.check(rule, fn, ok, "t-amplitudes: blocks conserving the number of alpha between the halves",
              "t-amplitude spin blocks are not `#alpha(first half) == #alpha(second half)` over all 2^(2n) strings",
              key="blocks t")
    # fall back to the registered intermediate
    rets = [r for r in common.returns_of(fn) if U(r.value) == "itmd.allowed_spin_blocks"]
    ctx.check(rule, fn, len(rets) == 1, "other tensors: blocks of the registered intermediate", "intermediate fallback changed",
              key="blocks itmd")
    no = ctx.model.fn("expr_container:NormalOrdered.allowed_spin_blocks")
    r = common.returns_of(no)
    ctx.check(rule, no, len(r) == 1 and U(r[0].value) == "tuple((''.join(b) for b in product(*allowed_blocks)))",
              "NO: product of the operator blocks", "NormalOrdered spin blocks changed", key="blocks NO")


# ---------------------------------------------------------------------- R15e/f


def r15e(ctx):
    rule = "R15e"
    fn = ctx.model.fn(SO + "transform_to_spatial_orbitals")
    loops = [n for n in walk_fn(fn) if isinstance(n, ast.For) and U(n.iter) == "expr.terms"]
    ctx.floor(rule, "term loop in transform_to_spatial_orbitals", len(loops), 1)
    lp = loops[0]
    t = U(lp.target)
    acc, drops = common.loop_conservation(ctx, rule, fn, lp, t)
    common.lost(ctx, rule, lp, t, drops)
    ra = [n for n in walk_fn(lp) if isinstance(n, ast.Raise)]
    sub = [n for n in walk_fn(lp) if isinstance(n, ast.Assign) and isinstance(n.targets[0], ast.Subscript)
           and U(n.targets[0].value) == "sub"]
    ok = False
    if ra and sub:
        conds = conditions(ra[0])
        new = U(sub[0].value)
        ok = any(pol and t2.startswith(f"{new} in ") for t2, pol in conds) and ra[0].lineno < sub[0].lineno \
            and enclosing(ra[0], ast.For) is enclosing(sub[0], ast.For)
    ctx.check(rule, lp, ok, "alpha index of the same name already in the term => refused",
              "beta->alpha renaming no longer refuses a clash with an existing alpha index", key="clash guard")
    b = [a for a in common.assigns_to(fn, "beta_idx")]
    ok = len(b) == 1 and isinstance(b[0].value, ast.ListComp) and [U(i) for i in b[0].value.generators[0].ifs] == \
        [f"{U(b[0].value.generators[0].target)}.spin == 'b'"]
    ctx.check(rule, fn, ok, "exactly the beta indices are renamed", "selection of beta indices changed", key="beta selection")
    nw = [a for a in common.assigns_to(fn, "new_idx")]
    ok = len(nw) == 1 and U(nw[0].value).replace(" ", "") == "get_symbols([i.nameforiinbeta_idx],'a'*len(beta_idx))"
    ctx.check(rule, fn, ok, "same names with alpha spin", "replacement indices are not the same names with alpha spin", key="alpha names")
    rt = [a for a in common.assigns_to(fn, "restricted_target")]
    ok = len(rt) == 1 and U(rt[0].value).replace(" ", "") == "get_symbols(target_idx,'a'*len(target_spin))"
    ctx.check(rule, fn, ok, "targets reset to all-alpha", "restricted target indices changed", key="restricted target")
    # order of the pipeline
    calls = [(c.lineno, call_name(c)) for c in calls_in(fn) if call_name(c) in ("integrate_spin", "expand_antisym_eri")]
    ctx.check(rule, fn, [n for _, n in sorted(calls)] == ["integrate_spin", "expand_antisym_eri"],
              "integrate first (intermediates are defined with antisymmetric ERI), then expand", "pipeline order changed",
              key="pipeline")
    isp = [c for c in calls_in(fn) if call_name(c) == "integrate_spin"]
    ok = len(isp) == 1 and [U(a) for a in isp[0].args] == ["expr", "target_idx", "target_spin"]
    ctx.check(rule, fn, ok, "targets and spins forwarded", "integrate_spin arguments changed", key="forward")
    ee = [c for c in calls_in(fn) if call_name(c) == "expand_antisym_eri"]
    ctx.check(rule, fn, len(ee) == 1 and ("expand_eri", True) in conditions(ee[0]), "ERI expansion only on request",
              "ERI expansion not guarded by expand_eri", key="expand flag")


def r15f(ctx):
    rule = "R15f"
    fn = ctx.model.fn(SO + "integrate_spin")
    loops = [n for n in walk_fn(fn) if isinstance(n, ast.For) and U(n.iter) == "expr.terms"]
    ctx.floor(rule, "term loop in integrate_spin", len(loops), 1)
    lp = loops[0]
    t = U(lp.target)

    def is_event(n):
        return isinstance(n, ast.AugAssign) and U(n.target) == "result" and isinstance(n.op, ast.Add)
    acc, drops = common.loop_conservation(ctx, rule, fn, lp, t, is_event=is_event)
    for p in drops:
        last = p.decisions[-1] if p.decisions else None
        ok = last is not None and U(last[0]) == "term_vanishes" and last[1]
        ctx.check(rule, p.exit_node or lp, ok, "term dropped only when it vanishes",
                  f"a term leaves the loop without contribution on path [{common.path_desc(p)}]", key="drop path")
    sets = [a for a in walk_fn(lp) if isinstance(a, ast.Assign) and U(a.targets[0]) == "term_vanishes" and U(a.value) == "True"]
    ctx.floor(rule, "term_vanishes assignments", len(sets), 1)
    for a in sets:
        conds = conditions(a)
        ok = ("obj_spin_idx_maps", False) in conds or ("combinations", False) in conds
        ctx.check(rule, a, ok, "vanishing only if no admissible block / no consistent combination",
                  "term_vanishes set under another condition", key="vanish condition")
    ti = [a for a in walk_fn(lp) if isinstance(a, ast.Assign) and U(a.targets[0]) == "term_indices"]
    ctx.check(rule, lp, len(ti) == 1 and U(ti[0].value) == "set(term.idx)", "indices of the term without repetition",
              f"term_indices is `{U(ti[0].value) if ti else None}`: Term.idx lists an index once per occurrence, so unassigned "
              "contracted indices are enumerated several times and spin variants are duplicated", key="term indices set")
    # block filtering against the target spins
    val = [a for a in walk_fn(lp) if isinstance(a, ast.Assign) and U(a.targets[0]) == "valid" and U(a.value) == "False"]
    ok = len(val) == 1 and {(t2, pol) for t2, pol in conditions(val[0])} >= {
        ("idx in target_idx_spin_map", True), ("spin == target_idx_spin_map[idx]", False)}
    ctx.check(rule, lp, ok, "a block is discarded iff it contradicts a target spin",
              "block filter against the requested target spins changed", key="block filter")
    # combination: contradiction test and union
    cont = [n for n in walk_fn(lp) if isinstance(n, ast.Continue) and isinstance(n._parent, ast.If)
            and "addition" in U(n._parent.test)]
    ok = len(cont) >= 1 and U(cont[0]._parent.test).replace(" ", "") in (
        "idx_map['a']&addition['b']oridx_map['b']&addition['a']", "idx_map['b']&addition['a']oridx_map['a']&addition['b']")
    ctx.check(rule, lp, ok, "combination rejected iff an index would get both spins", "contradiction test changed", key="contradiction")
    cm = [a for a in walk_fn(lp) if isinstance(a, ast.Assign) and U(a.targets[0]) == "combined_map"]
    ok = len(cm) == 1 and U(cm[0].value).replace(" ", "") == "{'a':idx_map['a']|addition['a'],'b':idx_map['b']|addition['b']}"
    ctx.check(rule, lp, ok, "combined map = union per spin", "combined map changed", key="union")
    # unassigned indices
    mi = [a for a in walk_fn(lp) if isinstance(a, ast.Assign) and U(a.targets[0]) == "missing_indices"]
    ok = len(mi) == 1 and U(mi[0].value).replace(" ", "") == "[idxforidxinterm_indicesifidxnotinassigned_indices]"
    ctx.check(rule, lp, ok, "every index without a spin is completed", "detection of unassigned indices changed", key="missing")
    pr = [c for c in calls_in(lp) if call_name(c) == "product" and "'ab'" in U(c)]
    ok = any(U(c).replace(" ", "") == "product('ab',repeat=len(missing_contracted))" for c in pr)
    ctx.check(rule, lp, ok, "unassigned contracted indices: both spins, all combinations",
              "contracted indices without spin no longer get all 2^n assignments", key="both spins")
    tg = [c for c in calls_in(lp) if call_name(c) == "add" and "target_idx_spin_map[idx]" in U(c.func.value)]
    ctx.check(rule, lp, len(tg) == 1, "unassigned target index: requested spin", "unassigned target indices changed", key="target spin")
    # spin attached without renaming
    for name, want in (("names", "''.join((s.name for s in old))"), ("spins", "''.join((spin for _ in range(len(old))))")):
        a = [x for x in walk_fn(lp) if isinstance(x, ast.Assign) and U(x.targets[0]) == name]
        ctx.check(rule, lp, len(a) == 1 and U(a[0].value) == want, f"{name}: same names, the variant's spin",
                  f"`{name}` is `{U(a[0].value) if a else None}`", key=f"attach {name}")
    cb = [n for n in walk_fn(lp) if isinstance(n, ast.AugAssign) and U(n.target) == "contribution"]
    ok = len(cb) == 1 and U(cb[0].value) == "term.sympy.subs(order_substitutions(sub))" and isinstance(cb[0].op, ast.Add)
    ctx.check(rule, lp, ok, "each spin variant contributes the substituted term once", "contribution accumulation changed", key="contribution")
    # the result target indices carry the requested spins
    rt = [a for a in common.assigns_to(fn, "result_target")]
    ok = len(rt) == 1 and U(rt[0].value).replace(" ", "") == "get_symbols([s.nameforsintarget_idx],target_spin)"
    ctx.check(rule, fn, ok, "result targets: same names with the requested spins", "result target indices changed", key="result target")
    sm = [a for a in walk_fn(fn) if isinstance(a, ast.Assign) and U(a.targets[0]) == "target_idx_spin_map[idx]"]
    ok = len(sm) == 1 and U(sm[0].value) == "spin" and U(enclosing(sm[0], ast.For).iter) == "zip(target_idx, target_spin)"
    ctx.check(rule, fn, ok, "target index -> requested spin by position", "target spin map changed", key="spin map")


def r15g(ctx):
    """_has_valid_combination evaluated on 3 tensors over the index pairs (x,y),(y,z),(x,z), each
    with two admissible spin blocks: answer == brute force, variant complete and consistent on
    success."""
    rule = "R15g"
    import itertools
    from ..abseval import Interp, Rec
    fn = ctx.model.fn(SO + "_has_valid_combination")
    idx = {n: Rec("Index", name=n) for n in "xyz"}
    supports = [("x", "y"), ("y", "z"), ("x", "z")]
    blocks = ["aa", "ab", "ba", "bb"]
    pairs = [(b1, b2) for b1 in blocks for b2 in blocks if b1 != b2]
    n = 0
    bad = 0
    for choice in itertools.product(pairs, repeat=3):
        maps = []
        for sup, bl in zip(supports, choice):
            lst = []
            for b in bl:
                m = {"a": set(), "b": set()}
                for sp, name in zip(b, sup):
                    m[sp].add(idx[name])
                lst.append(m)
            maps.append(lst)
        variant = {"a": set(), "b": set()}

        def rec(i, node, a, kw):
            k, v = Interp({"_has_valid_combination": rec}, what="_has_valid_combination").call(
                fn, {"tensor_idx_maps": a[0], "current_pos": a[1], "variant": a[2]})
            if k != "return":
                raise AnalysisError(f"R15g: recursion raised {v}")
            return v
        kind, val = Interp({"_has_valid_combination": rec}, what="_has_valid_combination").call(
            fn, {"tensor_idx_maps": maps, "current_pos": 0, "variant": variant})
        n += 1
        # oracle
        want = False
        for sel in itertools.product(range(2), repeat=3):
            spin = {}
            ok = True
            for t, k in enumerate(sel):
                for sp in "ab":
                    for i in maps[t][k][sp]:
                        if spin.setdefault(i.name, sp) != sp:
                            ok = False
            if ok:
                want = True
                break
        good = kind == "return" and bool(val) == want
        if good and want:
            good = not (variant["a"] & variant["b"]) and len(variant["a"] | variant["b"]) == 3
        if not good:
            bad += 1
            if bad <= 3:
                ctx.bad(rule, fn, f"blocks {choice}: search answers {val} (assignment {sorted(i.name for i in variant['a'])}|"
                        f"{sorted(i.name for i in variant['b'])}), a consistent spin assignment "
                        f"{'exists' if want else 'does not exist'}: choices that dead-end are not reverted correctly",
                        key=f"search {choice}")
        else:
            ctx.ok(rule, fn, f"blocks {choice}: {want}", key=f"search {choice}")
    ctx.floor(rule, "search instances", n, 1000)


def run(ctx):
    if ctx.want("R15g"):
        r15g(ctx)
    if ctx.want("R15a"):
        r15a(ctx, modules=None if ctx.tier == "thorough" else {"spatial_orbitals"})
    if ctx.want("R15b"):
        r15b(ctx, modules=None if ctx.tier == "thorough" else {"spatial_orbitals"})
    if ctx.want("R15c"):
        r15c(ctx)
    if ctx.want("R15d"):
        r15d(ctx)
    if ctx.want("R15e"):
        r15e(ctx)
    if ctx.want("R15f"):
        r15f(ctx)
