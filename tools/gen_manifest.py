#!/usr/bin/env python3
"""Regenerates MANIFEST.json from the rule modules present in sa/rules."""
import importlib
import json
import os
import sys

HERE = os.path.dirname(os.path.dirname(os.path.abspath(__file__)))
sys.path.insert(0, HERE)

BASELINE = ("cd /repo && /venv/bin/python -m pytest -ra -q -p no:cacheprovider "
            "--timeout=900 --continue-on-collection-errors")

NOTE = ("Decides the listed structural clauses (necessary conditions of the property) "
        "exhaustively over all their sites in the current working tree of /repo, from the "
        "source alone (ast); it does NOT decide the behavioural equality the property states. "
        "Trusted base: CPython's ast parser, the rule implementations under /verif/sa, sympy "
        "semantics of the calls the rules treat as primitives.")


def main():
    props = [json.loads(l) for l in open(os.path.join(HERE, "properties.jsonl"))]
    fixes = []
    kf = os.path.join(HERE, "known_findings.json")
    if os.path.exists(kf):
        for f in json.load(open(kf)).get("findings", []):
            if f.get("status") == "fixed" and f.get("commit"):
                fixes.append(f["commit"])
    checks, na = [], []
    for p in props:
        pid = p["id"]
        try:
            m = importlib.import_module(f"sa.rules.{pid.lower()}")
        except ModuleNotFoundError:
            na.append({"property_id": pid, "reason": "static rules for this property are "
                       "not built yet; taken whole it quantifies over runtime values"})
            continue
        checks.append({
            "property_id": pid,
            "quick_cmd": f"./check {pid} --tier quick",
            "thorough_cmd": f"./check {pid} --tier thorough",
            "evidence_file": f"evidence/{pid}.json",
            "replay_cmd_template": f"./check {pid} --replay {{path}}",
            "engine": "sa",
            "level_claimed": {
                "category": "other",
                "text": ("Static analysis of /repo's source: " + m.EXPLANATION +
                         " Every rule is evaluated on every site of its schema; a passing run "
                         "means these structural necessary conditions hold, not that the "
                         "behavioural property is proved."),
                "design_ref": f"DESIGN.md section 4, {pid}",
            },
            "level_note": NOTE + " " + " ".join(m.ASSUMPTIONS),
            "technique": getattr(m, "TECHNIQUE", "custom AST-based static analysis: "
                                 "guard dominance, decision-table extraction, sibling agreement"),
        })
    man = {
        "version": 1,
        "setup_cmd": "true",
        "hooks": {
            "guard": "ADCGEN_VERIF",
            "enable": "none needed: the checks only read the source of /repo/adcgen; no hook "
                      "or instrumentation exists in /repo",
            "baseline_off_cmd": BASELINE,
            "source_commits": sorted(set(fixes)),
            "add_only": True,
        },
        "engines": [{
            "name": "sa", "path": "sa/",
            "serves_properties": [c["property_id"] for c in checks],
            "kind_free_text": "repository-specific static analysis on Python's ast (path "
                              "conditions, def-use, finite decision-table extraction, formula "
                              "IR, permutation groups); never imports or runs adcgen",
        }],
        "checks": checks,
        "not_applicable": na,
        "notes": "exit 0 holds / exit 1 VIOLATION / exit 2 ANALYSIS-ERROR (anchor vanished or "
                 "shape not recognised). Known findings: known_findings.json.",
    }
    with open(os.path.join(HERE, "MANIFEST.json"), "w") as f:
        json.dump(man, f, indent=1)
        f.write("\n")
    print("claimed", len(checks), "not_applicable", len(na))


if __name__ == "__main__":
    main()
