"""A12: the checker is tested both ways on scratch copies.

A witness is a textual edit of one file of the package:
  {"id", "prop", "file", "old", "new", "expect": "<rule prefix>" | None}
``expect`` = rule that must report it (breaking edit) or None (behaviour-
preserving edit: the check must stay silent).  Scratch copies live in a
``tempfile.mkdtemp`` directory outside /repo and /verif and are removed in a
``finally``.  A witness whose ``old`` text is absent from the current tree is
reported as skipped; it never turns a verdict.
"""
from __future__ import annotations

import importlib
import io
import os
import shutil
import sys
import tempfile
from concurrent.futures import ProcessPoolExecutor


def _run_one(args):
    prop, w, repo = args
    from .main import run_property
    src = os.path.join(repo, "adcgen", w["file"])
    try:
        with open(src, encoding="utf-8") as f:
            text = f.read()
    except OSError:
        return (w["id"], "skipped", "file missing")
    edits = w.get("edits") or [(w["old"], w["new"])]
    for old, new in edits:
        if text.count(old) < 1:
            return (w["id"], "skipped", "anchor text not in current tree")
        text = text.replace(old, new, 1)
    tmp = tempfile.mkdtemp(prefix="adcgen-witness-")
    try:
        shutil.copytree(os.path.join(repo, "adcgen"), os.path.join(tmp, "adcgen"),
                        ignore=shutil.ignore_patterns("__pycache__"))
        with open(os.path.join(tmp, "adcgen", w["file"]), "w", encoding="utf-8") as f:
            f.write(text)
        try:
            compile(text, w["file"], "exec")
        except SyntaxError as e:
            return (w["id"], "broken-witness", f"edit does not compile: {e}")
        old_stdout = sys.stdout
        sys.stdout = io.StringIO()
        try:
            rc = run_property(prop, "quick", None, tmp, write=False, quiet=True)
            printed = sys.stdout.getvalue()
        finally:
            sys.stdout = old_stdout
        ctx = getattr(run_property, "last_ctx", None)
        rules = sorted({v.rule for v in ctx.violations}) if ctx and rc != 2 else []
        exp = w.get("expect")
        if exp is None:
            if rc == 0:
                return (w["id"], "ok", "silent on behaviour-preserving edit")
            return (w["id"], "FALSE-ALARM", f"rc={rc} rules={rules} {printed[:300]}")
        exps = [exp] if isinstance(exp, str) else list(exp)
        if rc == 1 and any(r.startswith(e) for r in rules for e in exps):
            return (w["id"], "ok", f"reported by {[r for r in rules if any(r.startswith(e) for e in exps)]}")
        return (w["id"], "MISSED", f"rc={rc} rules={rules} {printed[:300]}")
    finally:
        shutil.rmtree(tmp, ignore_errors=True)


def witnesses_for(prop):
    try:
        m = importlib.import_module(f"sa.witnesses.{prop.lower()}")
    except ModuleNotFoundError:
        return []
    return list(m.WITNESSES)


def run_witnesses(prop, repo, jobs=16):
    ws = witnesses_for(prop)
    if not ws:
        return {"run": 0, "results": []}
    with ProcessPoolExecutor(max_workers=min(jobs, len(ws))) as ex:
        res = list(ex.map(_run_one, [(prop, w, repo) for w in ws]))
    return {"run": len(res),
            "ok": sum(1 for r in res if r[1] == "ok"),
            "skipped": sum(1 for r in res if r[1] == "skipped"),
            "failed": [list(r) for r in res if r[1] not in ("ok", "skipped")],
            "results": [list(r) for r in res]}


if __name__ == "__main__":
    props = sys.argv[1:] or [f"C{i:02d}" for i in range(1, 21)]
    bad = 0
    for p in props:
        r = run_witnesses(p.upper(), os.environ.get("VERIF_REPO", "/repo"))
        for x in r["results"]:
            if x[1] != "ok":
                print(p, *x)
        bad += len(r.get("failed", []))
        print(p, "witnesses", r["run"], "ok", r.get("ok", 0), "skipped", r.get("skipped", 0))
    sys.exit(1 if bad else 0)
