S = "spatial_orbitals.py"
E = "expr_container.py"

_COPY = ("                        complete_variant = {\n                            sp: indices.copy()\n"
         "                            for sp, indices in idx_map.items()\n                        }")
_FOLD_OLD = '''        combinations = [{"a": set(), "b": set()}]
        for tensor_spin_idx_maps in term_spin_idx_maps:
            old_combinations = combinations.copy()
            combinations.clear()
            for idx_map, addition in \\
                    product(old_combinations, tensor_spin_idx_maps):
                # ensure that there are no contradictions
                if idx_map["a"] & addition["b"] or \\
                        idx_map["b"] & addition["a"]:
                    continue
                combined_map = {"a": idx_map["a"] | addition["a"],
                                "b": idx_map["b"] | addition["b"]}
                # we only need unique variants -> remove duplicates
                if any(d == combined_map for d in combinations):
                    continue
                combinations.append(combined_map)
            # it was not possible to find a single valid combination
            # -> the term should vanish for the given target indices
            if not combinations:
                term_vanishes = True
                break
        if term_vanishes:
            continue
'''
_HVC_OLD = '''        addition = {"a": tuple(idx for idx in idx_map["a"]
                               if idx not in variant["a"]),
                    "b": tuple(idx for idx in idx_map["b"]
                               if idx not in variant["b"])}
        variant["a"].update(idx_map["a"])
        variant["b"].update(idx_map["b"])
        if len(tensor_idx_maps) == current_pos + 1:  # we are done!!
            return True
        # recurse further and try to complete
        if _has_valid_combination(tensor_idx_maps, current_pos+1, variant):
            return True
        # could not complete -> revert the addition and continue looping
        variant["a"].difference_update(addition["a"])
        variant["b"].difference_update(addition["b"])
'''
_HVC_ADD = '''        addition = {"a": tuple(idx for idx in idx_map["a"]
                               if idx not in variant["a"]),
                    "b": tuple(idx for idx in idx_map["b"]
                               if idx not in variant["b"])}
'''
_ERI_IFS = '''            if p.spin == r.spin and q.spin == s.spin:
                res += SymmetricTensor(tensor_names.coulomb, (p, r), (q, s), 1)
                expanded_coulomb = True
            if p.spin == s.spin and q.spin == r.spin:
                res -= SymmetricTensor(tensor_names.coulomb, (p, s), (q, r), 1)
                expanded_coulomb = True
'''
_FILTER_OLD = '''                for spin, idx in zip(block, obj_idx):
                    if idx in target_idx_spin_map and \\
                            spin != target_idx_spin_map[idx]:
                        valid = False
                        break
                    else:
                        idx_map[spin].add(idx)
'''
_RESTR_OLD = '''        idx = set(term.idx)
        beta_idx = [i for i in idx if i.spin == "b"]
        if not beta_idx:
            restricted_expr += term.sympy
            continue
        new_idx = get_symbols([i.name for i in beta_idx], "a"*len(beta_idx))
        sub = {}
        for old, new in zip(beta_idx, new_idx):
            # conststruct the alpha index
            if new in idx:
                raise RuntimeError("It is not safe to replace the beta index "
                                   f"{old} with the corresponding alpha index,"
                                   " because the index with alpha spin is "
                                   f"already used in the term: {term}.")
            sub[old] = new
        # replace all indices at once: replacing them one after another may
        # create an intermediate delta_{i_alpha j_beta}, which vanishes
        restricted_expr += term.sympy.xreplace(sub)
'''

WITNESSES = [
    # ------------------------------------------------------------------ breaking (kept from the text rules)
    dict(id="c15-f2-revert", prop="C15", file=S, expect=["R15a", "R15f"], old=_COPY,
         new="                        complete_variant = idx_map.copy()"),
    dict(id="c15-f2-dict-ctor", prop="C15", file=S, expect=["R15a", "R15f"], old=_COPY,
         new="                        complete_variant = dict(idx_map)"),
    dict(id="c15-f3-revert", prop="C15", file=S, expect=["R15b", "R15f"],
         old="        combinations = [{\"a\": set(), \"b\": set()}]\n        for tensor_spin_idx_maps in term_spin_idx_maps:\n",
         new="        combinations = []\n        for tensor_spin_idx_maps in term_spin_idx_maps:\n            if not combinations:  # initialize combinations\n                combinations.extend(tensor_spin_idx_maps)\n                continue\n"),
    dict(id="c15-coulomb-guard", prop="C15", file=E, expect="R15c",
         old="            if p.spin == s.spin and q.spin == r.spin:", new="            if p.spin == s.spin:"),
    dict(id="c15-coulomb-guard-swapped", prop="C15", file=E, expect="R15c",
         old="            if p.spin == r.spin and q.spin == s.spin:\n                res += SymmetricTensor(tensor_names.coulomb, (p, r), (q, s), 1)",
         new="            if p.spin == s.spin and q.spin == r.spin:\n                res += SymmetricTensor(tensor_names.coulomb, (p, r), (q, s), 1)"),
    dict(id="c15-coulomb-sign", prop="C15", file=E, expect="R15c",
         old="                res -= SymmetricTensor(tensor_names.coulomb, (p, s), (q, r), 1)", new="                res += SymmetricTensor(tensor_names.coulomb, (p, s), (q, r), 1)"),
    dict(id="c15-coulomb-pairs", prop="C15", file=E, expect="R15c",
         old="                res -= SymmetricTensor(tensor_names.coulomb, (p, s), (q, r), 1)", new="                res -= SymmetricTensor(tensor_names.coulomb, (p, q), (s, r), 1)"),
    dict(id="c15-coulomb-exponent", prop="C15", file=E, expect="R15c",
         old="            res = Pow(res, self.exponent)\n        else:  # nothing to do", new="            res = res\n        else:  # nothing to do"),
    dict(id="c15-eri-blocks", prop="C15", file=E, expect="R15d",
         old='                return ("aaaa", "abab", "abba", "baab", "baba", "bbbb")', new='                return ("aaaa", "abab", "abba", "baba", "bbbb")'),
    dict(id="c15-coulomb-blocks", prop="C15", file=E, expect="R15d",
         old='                return ("aaaa", "aabb", "bbaa", "bbbb")', new='                return ("aaaa", "abab", "baba", "bbbb")'),
    dict(id="c15-t-blocks", prop="C15", file=E, expect="R15d",
         old='                     if block[:n].count("a") == block[n:].count("a")]', new='                     if block[:n].count("a") == block[n:].count("b")]'),
    dict(id="c15-restricted-clash", prop="C15", file=S, expect="R15e",
         old="            if new in idx:\n                raise RuntimeError(\"It is not safe", new="            if False:\n                raise RuntimeError(\"It is not safe"),
    dict(id="c15-restricted-term-lost", prop="C15", file=S, expect="R15e",
         old="        if not beta_idx:\n            restricted_expr += term.sympy\n            continue", new="        if not beta_idx:\n            continue"),
    dict(id="c15-vanish-wrong", prop="C15", file=S, expect="R15f",
         old="            if allowed_blocks is None:\n                continue\n            obj_idx = obj.idx", new="            if allowed_blocks is None:\n                term_vanishes = True\n                break\n            obj_idx = obj.idx"),
    dict(id="c15-one-spin-only", prop="C15", file=S, expect="R15f",
         old='                    for var in product("ab", repeat=len(missing_contracted)):', new='                    for var in product("a", repeat=len(missing_contracted)):'),
    dict(id="c15-block-filter", prop="C15", file=S, expect="R15f",
         old="                    if idx in target_idx_spin_map and \\\n                            spin != target_idx_spin_map[idx]:", new="                    if idx in target_idx_spin_map and \\\n                            spin == target_idx_spin_map[idx]:"),
    dict(id="c15-contradiction", prop="C15", file=S, expect="R15f",
         old='                if idx_map["a"] & addition["b"] or \\\n                        idx_map["b"] & addition["a"]:', new='                if idx_map["a"] & addition["b"] and \\\n                        idx_map["b"] & addition["a"]:'),
    # ------------------------------------------------------------------ breaking: checks introduced with the model evaluation
    dict(id="c15-term-idx-list", prop="C15", file=S, expect="R15f",
         old="        term_indices = set(term.idx)", new="        term_indices = list(term.idx)"),
    dict(id="c15-number-term-lost", prop="C15", file=S, expect="R15f",
         old="            result += term.sympy\n            continue", new="            continue"),
    dict(id="c15-unassigned-target-flipped", prop="C15", file=S, expect="R15f",
         old="                        idx_map[target_idx_spin_map[idx]].add(idx)", new='                        idx_map["a"].add(idx)'),
    dict(id="c15-dedup-lost-term", prop="C15", file=S, expect="R15f",
         old="                if any(d == combined_map for d in combinations):\n                    continue\n                combinations.append(combined_map)",
         new="                if combinations:\n                    continue\n                combinations.append(combined_map)"),
    dict(id="c15-vanish-break-outer", prop="C15", file=S, expect="R15f",
         old="            term_spin_idx_maps.append(obj_spin_idx_maps)\n        if term_vanishes:\n            continue",
         new="            term_spin_idx_maps.append(obj_spin_idx_maps)\n        if term_vanishes:\n            break"),
    dict(id="c15-result-target-spinless", prop="C15", file=S, expect="R15f",
         old="    result_target = get_symbols([s.name for s in target_idx], target_spin)", new="    result_target = get_symbols([s.name for s in target_idx])"),
    dict(id="c15-result-target-always", prop="C15", file=S, expect="R15f",
         old="    if expr.provided_target_idx is not None:  # set target indices if necessary\n        result.set_target_idx(result_target)",
         new="    result.set_target_idx(result_target)"),
    dict(id="c15-assumptions-lost", prop="C15", file=S, expect="R15f",
         old="    result = Expr(0, **expr.assumptions)\n    if expr.provided_target_idx is not None:  # set", new="    result = Expr(0)\n    if expr.provided_target_idx is not None:  # set"),
    dict(id="c15-guard-spatial-input", prop="C15", file=S, expect="R15f",
         old="        if any(s.spin for s in term_indices):", new="        if False:"),
    dict(id="c15-guard-term-target", prop="C15", file=S, expect="R15f",
         old="        if term.target != sorted_target:\n            raise ValueError(f\"Target indices of {term} {term.target} dont \"\n                             f\"match the desired target indices {target_idx}\")\n        # - ensure that no index",
         new="        # - ensure that no index"),
    dict(id="c15-coulomb-not-symmetric", prop="C15", file=E, expect="R15c",
         old="                res += SymmetricTensor(tensor_names.coulomb, (p, r), (q, s), 1)", new="                res += SymmetricTensor(tensor_names.coulomb, (p, r), (q, s), 0)"),
    dict(id="c15-coulomb-name", prop="C15", file=E, expect="R15c",
         old="                res += SymmetricTensor(tensor_names.coulomb, (p, r), (q, s), 1)", new="                res += SymmetricTensor(tensor_names.eri, (p, r), (q, s), 1)"),
    dict(id="c15-coulomb-sym-tensors", prop="C15", file=E, expect="R15c",
         old="        if expanded_coulomb:\n            assumptions['sym_tensors'] = (", new="        if False:\n            assumptions['sym_tensors'] = ("),
    dict(id="c15-coulomb-complex", prop="C15", file=E, expect="R15c",
         old="            if self.bra_ket_sym != 1:\n                raise NotImplementedError(\"Can only expand antisymmetric ERI \"",
         new="            if self.bra_ket_sym == 0:\n                raise NotImplementedError(\"Can only expand antisymmetric ERI \""),
    dict(id="c15-coulomb-other-tensor", prop="C15", file=E, expect="R15c",
         old="        if self.name == tensor_names.eri:\n            # ensure that the eri is Symmetric.", new="        if self.name in (tensor_names.eri, tensor_names.coulomb):\n            # ensure that the eri is Symmetric."),
    dict(id="c15-delta-blocks", prop="C15", file=E, expect="R15d",
         old='            return ("aa", "bb")', new='            return ("aa", "ab", "bb")'),
    dict(id="c15-operator-blocks", prop="C15", file=E, expect="R15d",
         old='            return ("a", "b")', new='            return ("a",)'),
    dict(id="c15-itmd-blocks-lost", prop="C15", file=E, expect="R15d",
         old="            return itmd.allowed_spin_blocks\n", new="            return None\n"),
    dict(id="c15-t-odd-accepted", prop="C15", file=E, expect="R15d",
         old="                if len(idx) % 2:\n                    raise ValueError(\"Expected t-amplitude to have the same \"\n                                     f\"of upper and lower indices: {self}.\")\n",
         new=""),
    dict(id="c15-no-blocks", prop="C15", file=E, expect="R15d",
         old='        return tuple("".join(b) for b in product(*allowed_blocks))', new='        return tuple("".join(b) for b in zip(*allowed_blocks))'),
    dict(id="c15-restricted-target-spins", prop="C15", file=S, expect="R15e",
         old='        restricted_target = get_symbols(target_idx, "a" * len(target_spin))', new='        restricted_target = get_symbols(target_idx, target_spin)'),
    dict(id="c15-expand-after-restricting", prop="C15", file=S, expect="R15e",
         old="    if expand_eri:\n        expr.expand_antisym_eri().expand()\n    if not restricted:\n        return expr",
         new="    if not restricted:\n        if expand_eri:\n            expr.expand_antisym_eri().expand()\n        return expr"),
    dict(id="c15-expand-always", prop="C15", file=S, expect="R15e",
         old="    if expand_eri:\n        expr.expand_antisym_eri().expand()", new="    expr.expand_antisym_eri().expand()"),
    dict(id="c15-forward-spins", prop="C15", file=S, expect="R15e",
         old="    expr = integrate_spin(expr, target_idx, target_spin)", new='    expr = integrate_spin(expr, target_idx, "a" * len(target_spin))'),
    dict(id="c15-restricted-first-beta-only", prop="C15", file=S, expect="R15e",
         old="        for old, new in zip(beta_idx, new_idx):\n            # conststruct the alpha index", new="        for old, new in zip(beta_idx[:1], new_idx):\n            # conststruct the alpha index"),
    dict(id="c15-restricted-assumptions", prop="C15", file=S, expect="R15e",
         old="    restricted_expr = Expr(0, **expr.assumptions)", new="    restricted_expr = Expr(0)"),
    dict(id="c15-blocks-ignore-incompatible", prop="C15", file=S, expect="R15h",
         old="                if not relevant_object_spin_idx_maps:\n                    valid_block = False\n                    break",
         new="                if not relevant_object_spin_idx_maps:\n                    continue"),
    dict(id="c15-blocks-no-revert", prop="C15", file=S, expect=["R15g", "R15h"],
         old='        variant["a"].difference_update(addition["a"])\n        variant["b"].difference_update(addition["b"])\n', new=""),
    dict(id="c15-blocks-first-term-only", prop="C15", file=S, expect="R15h",
         old="        # blocks that have been found dont need to be checked again\n        spin_blocks_to_check = [i for i in spin_blocks_to_check\n                                if i not in blocks_to_remove]\n    return tuple(sorted(allowed_blocks))",
         new="        # blocks that have been found dont need to be checked again\n        spin_blocks_to_check = [i for i in spin_blocks_to_check\n                                if i not in blocks_to_remove]\n        break\n    return tuple(sorted(allowed_blocks))"),
    dict(id="c15-blocks-target-compat", prop="C15", file=S, expect="R15h",
         old="                    if any(spin != idx_map[t_idx]\n                           for t_idx, spin in target_spin.items()\n                           if t_idx in idx_map):\n                        continue\n",
         new=""),
    dict(id="c15-contradiction-ignored", prop="C15", file=S, expect="R15f",
         old='                if idx_map["a"] & addition["b"] or \\\n                        idx_map["b"] & addition["a"]:', new='                if False:'),
    dict(id="c15-unassigned-target-both-spins", prop="C15", file=S, expect="R15f",
         old="                    if spin is not None:  # is a target index -> just add", new="                    if False:"),
    dict(id="c15-result-overwritten", prop="C15", file=S, expect="R15f",
         old="        result += simplify(contribution)", new="        result = simplify(contribution)"),
    dict(id="c15-blocks-search-ignored", prop="C15", file=S, expect="R15h",
         old='            if not _has_valid_combination(relevant_term_spin_idx_maps, 0,\n                                          spin_idx_map):\n                continue',
         new='            _has_valid_combination(relevant_term_spin_idx_maps, 0, spin_idx_map)'),
    dict(id="c15-itmd-blocks-targets", prop="C15", file="intermediates.py", expect="R15h",
         old="        return allowed_spin_blocks(itmd.expand(), target_idx)", new="        return allowed_spin_blocks(itmd.expand(), target_idx[::-1])"),
    # fix b5a3f06: a block that gives a repeated index two spins vanishes instead of raising
    dict(id="c15-repeated-index-revert-integrate", prop="C15", file=S, expect="R15f",
         old='                if idx_map["a"] & idx_map["b"]:\n                    continue\n                obj_spin_idx_maps.append(idx_map)',
         new='                if idx_map["a"] & idx_map["b"]:\n                    raise ValueError("Found invalid allowed spin block "\n                                     f"{block} for {obj}.")\n                obj_spin_idx_maps.append(idx_map)'),
    dict(id="c15-repeated-index-revert-blocks", prop="C15", file=S, expect="R15h",
         old='                    if idx in idx_map and idx_map[idx] != spin:\n                        break\n                    idx_map[idx] = spin\n                else:\n                    object_idx_maps.append(idx_map)',
         new='                    if idx in idx_map and idx_map[idx] != spin:\n                        raise ValueError("Found invalid allowed spin block "\n                                         f"{block} for {obj}.")\n                    idx_map[idx] = spin\n                object_idx_maps.append(idx_map)'),
    dict(id="c15-repeated-index-block-kept", prop="C15", file=S, expect="R15f",
         old='                if idx_map["a"] & idx_map["b"]:\n                    continue\n                obj_spin_idx_maps.append(idx_map)',
         new='                obj_spin_idx_maps.append(idx_map)'),
    dict(id="c15-repeated-index-last-spin-wins", prop="C15", file=S, expect="R15h",
         old='                    if idx in idx_map and idx_map[idx] != spin:\n                        break\n                    idx_map[idx] = spin\n                else:\n                    object_idx_maps.append(idx_map)',
         new='                    idx_map[idx] = spin\n                object_idx_maps.append(idx_map)'),
    # fix 2b66ec3: the beta indices of a term are renamed all at once (a delta between two beta indices must survive)
    dict(id="c15-restricted-sequential-revert", prop="C15", file=S, expect="R15e",
         old="        restricted_expr += term.sympy.xreplace(sub)", new="        restricted_expr += term.sympy.subs(order_substitutions(sub))"),
    dict(id="c15-restricted-subs-dict", prop="C15", file=S, expect="R15e",
         old="        restricted_expr += term.sympy.xreplace(sub)", new="        restricted_expr += term.sympy.subs(sub)"),
    dict(id="c15-restricted-subs-loop", prop="C15", file=S, expect="R15e",
         old="        restricted_expr += term.sympy.xreplace(sub)",
         new="        renamed = term.sympy\n        for old, new in sub.items():\n            renamed = renamed.subs(old, new)\n        restricted_expr += renamed"),
    # lazy bookkeeping: generator expressions that are consumed only after `variant` was updated see nothing to revert
    dict(id="c15-search-lazy-bookkeeping", prop="C15", file=S, expect=["R15g", "R15h"], old=_HVC_ADD,
         new='''        addition = {"a": (idx for idx in idx_map["a"]
                          if idx not in variant["a"]),
                    "b": (idx for idx in idx_map["b"]
                          if idx not in variant["b"])}
'''),
    dict(id="c15-search-lazy-filter", prop="C15", file=S, expect=["R15g", "R15h"], old=_HVC_ADD,
         new='''        addition = {"a": filter(lambda idx: idx not in variant["a"],
                                idx_map["a"]),
                    "b": filter(lambda idx: idx not in variant["b"],
                                idx_map["b"])}
'''),
    # fix cdbbd7e (F38): the fock matrix is a spin free one particle operator, only aa and bb do not vanish
    dict(id="c15-fock-blocks-revert", prop="C15", file=E, expect="R15d",
         old="            elif name == tensor_names.fock and len(obj.idx) == 2:\n                return (\"aa\", \"bb\")\n", new=""),
    dict(id="c15-fock-blocks-all-listed", prop="C15", file=E, expect="R15d",
         old="            elif name == tensor_names.fock and len(obj.idx) == 2:\n                return (\"aa\", \"bb\")",
         new="            elif name == tensor_names.fock and len(obj.idx) == 2:\n                return (\"aa\", \"ab\", \"ba\", \"bb\")"),
    dict(id="c15-denominator-blocks-restricted", prop="C15", file=E, expect="R15d",
         old="            elif name == tensor_names.fock and len(obj.idx) == 2:",
         new="            elif name in (tensor_names.fock, tensor_names.sym_orb_denom) and len(obj.idx) == 2:"),
    # fix 103d6a9 (F39): a pure number is added unwrapped (the Term container carries the spin-less targets of the input)
    dict(id="c15-number-term-container-revert", prop="C15", file=S, expect="R15f",
         old="            result += term.sympy\n            continue", new="            result += term\n            continue"),
    # ------------------------------------------------------------------ behaviour preserving
    dict(id="c15-ok-copy-comprehension", prop="C15", file=S, expect=None, old=_COPY,
         new="                        complete_variant = {\"a\": set(idx_map[\"a\"]), \"b\": set(idx_map[\"b\"])}"),
    # algorithm replaced: all objects combined at once instead of the pairwise fold
    dict(id="c15-ok-fold-as-product", prop="C15", file=S, expect=None, old=_FOLD_OLD, new='''        combinations = []
        for choice in product(*term_spin_idx_maps):
            merged = {"a": set(), "b": set()}
            for part in choice:
                merged["a"].update(part["a"])
                merged["b"].update(part["b"])
            if merged["a"].isdisjoint(merged["b"]) and merged not in combinations:
                combinations.append(merged)
        if not combinations:
            continue
'''),
    # flag variable replaced by try/except on the lookup and set methods instead of operators
    dict(id="c15-ok-filter-try-except", prop="C15", file=S, expect=None, old=_FILTER_OLD, new='''                for spin, idx in zip(block, obj_idx):
                    try:
                        wanted = target_idx_spin_map[idx]
                    except KeyError:
                        wanted = spin
                    if wanted != spin:
                        valid = False
                        break
                    idx_map.setdefault(spin, set()).add(idx)
'''),
    # variants produced by a nested generator, sets copied with the set constructor
    dict(id="c15-ok-variant-generator", prop="C15", file=S, expect=None,
         edits=[("                    variants = []\n                    for var in product(\"ab\", repeat=len(missing_contracted)):\n"
                 "                        # copy the sets: the variants must not share them\n" + _COPY + "\n"
                 "                        for spin, idx in zip(var, missing_contracted):\n"
                 "                            complete_variant[spin].add(idx)\n"
                 "                        variants.append(complete_variant)\n",
                 "                    def spin_variants(base, free):\n"
                 "                        for n_beta in range(len(free) + 1):\n"
                 "                            for beta in itertools_combinations(free, n_beta):\n"
                 "                                yield {\"a\": base[\"a\"] | (set(free) - set(beta)),\n"
                 "                                       \"b\": base[\"b\"].union(beta)}\n"
                 "                    variants = list(spin_variants(idx_map, missing_contracted))\n"),
                ("from itertools import product\n", "from itertools import product\nfrom itertools import combinations as itertools_combinations\n")]),
    # in-place revert replaced by copy-and-commit
    dict(id="c15-ok-search-copy-commit", prop="C15", file=S, expect=None, old=_HVC_OLD, new='''        trial = {"a": variant["a"] | idx_map["a"],
                 "b": variant["b"] | idx_map["b"]}
        if len(tensor_idx_maps) > current_pos + 1 and \\
                not _has_valid_combination(tensor_idx_maps, current_pos+1,
                                           trial):
            continue
        for sp in "ab":
            variant[sp].clear()
            variant[sp].update(trial[sp])
        return True
'''),
    # table of (sign, pairs) instead of two if blocks; bra and ket exchanged in the symmetric tensor
    dict(id="c15-ok-coulomb-table", prop="C15", file=E, expect=None, old=_ERI_IFS, new='''            for sign, (bra, ket) in ((-1, ((q, r), (p, s))), (1, ((q, s), (p, r)))):
                if all(x.spin == y.spin for x, y in (bra, ket)):
                    res = res + sign * SymmetricTensor(
                        name=tensor_names.coulomb, upper=bra, lower=ket,
                        bra_ket_sym=1
                    )
                    expanded_coulomb = True
'''),
    # hard-coded table replaced by the rule that generates it; equal halves counted by beta
    dict(id="c15-ok-eri-blocks-computed", prop="C15", file=E, expect=None,
         edits=[('                return ("aaaa", "abab", "abba", "baab", "baba", "bbbb")',
                 '                return tuple(p + q + r + s for p, q, r, s in product("ab", repeat=4)\n'
                 '                             if (p, q) in ((r, s), (s, r)))'),
                ('                     if block[:n].count("a") == block[n:].count("a")]', '                     if block[n:].count("b") == block[:n].count("b")]')]),
    # blocks in another order, delta blocks generated
    dict(id="c15-ok-blocks-reordered", prop="C15", file=E, expect=None,
         edits=[('                return ("aaaa", "aabb", "bbaa", "bbbb")', '                return ("bbbb", "bbaa", "aabb", "aaaa")'),
                ('            return ("aa", "bb")', '            return tuple(2 * sp for sp in "ab")')]),
    # restricted branch: early exit inverted into a guarded block, renaming map built by a dict comprehension
    dict(id="c15-ok-restricted-dictcomp", prop="C15", file=S, expect=None, old=_RESTR_OLD, new='''        used = frozenset(term.idx)
        renaming = {i: get_symbols(i.name, "a")[0]
                    for i in used if i.spin == "b"}
        clashes = [old for old, new in renaming.items() if new in used]
        if clashes:
            raise RuntimeError("It is not safe to replace the beta indices "
                               f"{clashes} in the term: {term}.")
        restricted_expr += (term.sympy.xreplace(renaming)
                            if renaming else term.sympy)
'''),
    # spin map built with dict(zip) after the consistency check; while loop over the terms
    dict(id="c15-ok-spin-map-zip", prop="C15", file=S, expect=None,
         old="    target_idx_spin_map = {}\n    for idx, spin in zip(target_idx, target_spin):\n        if idx in target_idx_spin_map and target_idx_spin_map[idx] != spin:\n"
             "            raise ValueError(f\"The index {idx} can not be assigned to alpha \"\n                             \"and beta spin simultaneously.\")\n        target_idx_spin_map[idx] = spin\n",
         new="    target_idx_spin_map = dict(zip(target_idx, target_spin))\n    if any(target_idx_spin_map[idx] != spin\n           for idx, spin in zip(target_idx, target_spin)):\n"
             "        raise ValueError(\"An index can not be assigned to alpha \"\n                         \"and beta spin simultaneously.\")\n"),
    # expression level blocks: no sorting by the number of target indices (pure heuristic), set of open blocks
    dict(id="c15-ok-blocks-unsorted", prop="C15", file=S, expect=None,
         old="        term_idx_maps = sorted(term_idx_maps,\n                               key=lambda tpl: tpl[1], reverse=True)\n", new=""),
    # the spin flipped block is not added explicitly (it is found on its own turn)
    dict(id="c15-ok-blocks-no-flip", prop="C15", file=S, expect=None,
         old="            allowed_blocks.add(\"\".join(\"a\" if spin == \"b\" else \"b\"\n                                       for spin in block))\n", new=""),
    # NormalOrdered blocks by explicit recursion instead of itertools.product
    dict(id="c15-ok-no-blocks-loop", prop="C15", file=E, expect=None,
         old='        return tuple("".join(b) for b in product(*allowed_blocks))',
         new='        blocks = [""]\n        for op_blocks in allowed_blocks:\n            blocks = [b + sp for b in blocks for sp in op_blocks]\n        return tuple(blocks)'),
    # the per-object block filter extracted into a module level helper written with dict.get and set comprehensions
    dict(id="c15-ok-extracted-block-helper", prop="C15", file=S, expect=None, edits=[
        ('''            obj_idx = obj.idx
            obj_spin_idx_maps = []
            for block in allowed_blocks:
                valid = True
                idx_map = {"a": set(), "b": set()}
''' + _FILTER_OLD + '''                if not valid:
                    continue
                # an index that occurs twice on the object can not have
                # two different spins: the block vanishes
                if idx_map["a"] & idx_map["b"]:
                    continue
                obj_spin_idx_maps.append(idx_map)
''', '''            obj_spin_idx_maps = _compatible_blocks(obj, allowed_blocks,
                                                   target_idx_spin_map)
'''),
        ("def allowed_spin_blocks(expr: Expr, target_idx: str) -> tuple[str]:", '''def _compatible_blocks(obj, allowed_blocks, fixed_spins):
    maps = []
    for block in allowed_blocks:
        pairs = list(zip(block, obj.idx))
        if any(fixed_spins.get(idx, spin) != spin for spin, idx in pairs):
            continue
        idx_map = {sp: {idx for spin, idx in pairs if spin == sp}
                   for sp in "ab"}
        if idx_map["a"].isdisjoint(idx_map["b"]):
            maps.append(idx_map)
    return maps


def allowed_spin_blocks(expr: Expr, target_idx: str) -> tuple[str]:''')]),
    # dispatch on the public type string instead of isinstance
    dict(id="c15-ok-dispatch-type-str", prop="C15", file=E, expect=None, edits=[
        ("        elif isinstance(obj, KroneckerDelta):  # delta\n            # spins have to be equal", "        elif self.type_as_str == 'delta':  # delta\n            # spins have to be equal"),
        ("        elif isinstance(obj, FermionicOperator):  # create / annihilate", "        elif self.type_as_str in ('create', 'annihilate'):  # create / annihilate")]),
    # indices and exponent read from base_and_exponent / upper + lower
    dict(id="c15-ok-base-and-exponent", prop="C15", file=E, expect=None, edits=[
        ("            p, q, r, s = self.idx  # <pq||rs>", "            base, exponent = self.base_and_exponent\n            p, q, r, s = base.upper + base.lower  # <pq||rs>"),
        ("            res = Pow(res, self.exponent)\n        else:  # nothing to do", "            res = Pow(res, exponent)\n        else:  # nothing to do")]),
    # keyword call in another order
    dict(id="c15-ok-integrate-keywords", prop="C15", file=S, expect=None,
         old="    expr = integrate_spin(expr, target_idx, target_spin)", new="    expr = integrate_spin(target_spin=target_spin, expr=expr, target_idx=target_idx)"),
    # intermediates: temporaries removed, keywords
    dict(id="c15-ok-itmd-blocks-inline", prop="C15", file="intermediates.py", expect=None,
         old="        target_idx = self.default_idx\n        itmd = self.expand_itmd(indices=target_idx, fully_expand=False)\n        return allowed_spin_blocks(itmd.expand(), target_idx)",
         new="        definition = self.expand_itmd(self.default_idx, fully_expand=False)\n        return allowed_spin_blocks(target_idx=self.default_idx,\n                                   expr=definition.expand())"),
    # equivalent spellings of a simultaneous replacement
    dict(id="c15-ok-restricted-subs-simultaneous", prop="C15", file=S, expect=None,
         old="        restricted_expr += term.sympy.xreplace(sub)", new="        restricted_expr += term.sympy.subs(sub, simultaneous=True)"),
    dict(id="c15-ok-restricted-subs-pairs-simultaneous", prop="C15", file=S, expect=None,
         old="        restricted_expr += term.sympy.xreplace(sub)",
         new="        restricted_expr += term.sympy.subs(list(sub.items()),\n                                           simultaneous=True)"),
    dict(id="c15-ok-restricted-xreplace-keyword", prop="C15", file=S, expect=None,
         old="        restricted_expr += term.sympy.xreplace(sub)", new="        renaming = dict(zip(beta_idx, new_idx))\n        restricted_expr += term.sympy.xreplace(rule=renaming)"),
    # integrate_spin: spin-less -> spin renaming never passes through a delta of two spins, at once or one after another
    dict(id="c15-ok-integrate-xreplace", prop="C15", file=S, expect=None,
         old="                contribution += term.sympy.subs(order_substitutions(sub))", new="                contribution += term.sympy.xreplace(sub)"),
    dict(id="c15-ok-integrate-subs-simultaneous", prop="C15", file=S, expect=None,
         old="                contribution += term.sympy.subs(order_substitutions(sub))",
         new="                contribution += term.sympy.subs(sub, simultaneous=True)"),
    dict(id="c15-ok-integrate-subs-pairs", prop="C15", file=S, expect=None,
         old="                contribution += term.sympy.subs(order_substitutions(sub))",
         new="                contribution += term.sympy.subs(sorted(sub.items(), key=lambda p: p[0].name))"),
    # lazy generators over a snapshot taken before the update / materialised before the update: still correct
    dict(id="c15-ok-search-lazy-over-snapshot", prop="C15", file=S, expect=None, old=_HVC_ADD,
         new='''        before = {sp: frozenset(variant[sp]) for sp in "ab"}
        addition = {"a": (idx for idx in idx_map["a"]
                          if idx not in before["a"]),
                    "b": (idx for idx in idx_map["b"]
                          if idx not in before["b"])}
'''),
    dict(id="c15-ok-search-generators-consumed-first", prop="C15", file=S, expect=None, old=_HVC_ADD,
         new='''        lazy = {"a": (idx for idx in idx_map["a"]
                      if idx not in variant["a"]),
                "b": (idx for idx in idx_map["b"]
                      if idx not in variant["b"])}
        addition = {sp: list(gen) for sp, gen in lazy.items()}
'''),
    # twins of the repaired logic
    dict(id="c15-ok-fock-blocks-generated", prop="C15", file=E, expect=None,
         old="            elif name == tensor_names.fock and len(obj.idx) == 2:\n                return (\"aa\", \"bb\")",
         new="            elif len(obj.idx) == 2 and tensor_names.fock == name:\n                return tuple(sp + sp for sp in (\"b\", \"a\"))"),
    dict(id="c15-ok-number-term-unwrapped-temp", prop="C15", file=S, expect=None,
         old="            result += term.sympy\n            continue", new="            number = term.sympy\n            result = result + number\n            continue"),
    # ------------------------------------------------------------------ F53: sums inside products (R15i)
    dict(id="c15-F53-revert", prop="C15", file=S, expect=["R15i", "R15f"],
         old="    expr = Expr(expr.sympy.expand(), **expr.assumptions)\n", new=""),
    # expands only a copy that is never used: the loop still runs over the unexpanded terms
    dict(id="c15-F53-expanded-copy-unused", prop="C15", file=S, expect=["R15i", "R15f"],
         old="    expr = Expr(expr.sympy.expand(), **expr.assumptions)\n",
         new="    expanded = Expr(expr.sympy.expand(), **expr.assumptions)\n"),
    # expands the caller's container in place
    dict(id="c15-F53-expand-in-place", prop="C15", file=S, expect="R15i",
         old="    expr = Expr(expr.sympy.expand(), **expr.assumptions)\n", new="    expr = expr.expand()\n"),
    dict(id="c15-ok-F53-expand-on-copy", prop="C15", file=S, expect=None,
         old="    expr = Expr(expr.sympy.expand(), **expr.assumptions)\n", new="    expr = expr.copy().expand()\n"),
    dict(id="c15-ok-F53-expand-temporaries", prop="C15", file=S, expect=None,
         old="    expr = Expr(expr.sympy.expand(), **expr.assumptions)\n",
         new="    options = expr.assumptions\n    flat_sum = expr.sympy.expand()\n    expr = Expr(flat_sum, **options)\n"),
    dict(id="c15-ok-F53-expand-term-by-term", prop="C15", file=S, expect=None,
         edits=[("    expr = Expr(expr.sympy.expand(), **expr.assumptions)\n", ""),
                ("    for term in expr.terms:\n        # - ensure that the term has matching target indices",
                 "    for term in (t for unexpanded in expr.terms\n                 for t in unexpanded.expand().terms):\n"
                 "        # - ensure that the term has matching target indices")]),
    dict(id="c15-ok-F53-expand-term-sympy", prop="C15", file=S, expect=None,
         edits=[("    expr = Expr(expr.sympy.expand(), **expr.assumptions)\n", ""),
                ("    for term in expr.terms:\n        # - ensure that the term has matching target indices",
                 "    expanded_terms = []\n    for unexpanded in expr.terms:\n"
                 "        expanded_terms.extend(\n            Expr(unexpanded.sympy.expand(), **expr.assumptions).terms\n        )\n"
                 "    for term in expanded_terms:\n"
                 "        # - ensure that the term has matching target indices")]),
]
