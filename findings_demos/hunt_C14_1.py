"""remove_tensor: the assignment of the indices of a block expression to the
removed blocks is not consistent if a tensor occurs several times in different
blocks.

Run from the worktree root:  /venv/bin/python hunt_out/1/demo.py
exit 1: defect present, exit 0: fixed.

The key of the returned dict is the *sorted* tuple of the removed blocks, but
the indices of the block expression are assigned in the order the occurences
are removed (the first removed occurence gets the lowest indices), which is the
order of the objects in the sympy product and depends on the index names.
"""
import os
import sys
sys.path.insert(0, os.getcwd())
import itertools  # noqa E402
import random  # noqa E402
from sympy import Add, Mul, Pow, Rational, S, expand  # noqa E402
from adcgen import Expr, remove_tensor  # noqa E402
from adcgen.indices import get_symbols  # noqa E402
from adcgen.sympy_objects import (  # noqa E402
    AntiSymmetricTensor, SymmetricTensor, NonSymmetricTensor, KroneckerDelta
)

NO, NV = 2, 2  # occ orbitals: 0, 1; virt orbitals: 2, 3


def idx_range(s):
    return {"occ": range(NO), "virt": range(NO, NO + NV),
            "general": range(NO + NV)}[s.space]


class Tables:
    """Random rational tensor elements that respect the tensor symmetry."""

    def __init__(self, seed):
        self.rng = random.Random(seed)
        self.data = {}

    def get(self, key):
        if key not in self.data:
            self.data[key] = Rational(self.rng.randint(1, 9),
                                      self.rng.randint(1, 5))
        return self.data[key]

    def tensor(self, t, val):
        if isinstance(t, NonSymmetricTensor):
            return self.get((t.name, tuple(val[s] for s in t.indices)))
        u = [val[s] for s in t.upper]
        lo = [val[s] for s in t.lower]
        sign = 1
        if not isinstance(t, SymmetricTensor):  # antisymmetric
            for x in (u, lo):
                if len(set(x)) != len(x):
                    return S.Zero
                for i in range(len(x)):  # parity of the sorting permutation
                    for j in range(i + 1, len(x)):
                        if x[i] > x[j]:
                            sign = -sign
        u, lo = tuple(sorted(u)), tuple(sorted(lo))
        if t.bra_ket_sym is not S.Zero and (lo, u) < (u, lo):
            u, lo = lo, u
            sign *= int(t.bra_ket_sym)
        return sign * self.get((t.name, u, lo))

    def value(self, o, val):
        if o.is_number:
            return o
        if isinstance(o, (Mul, Add)):
            return o.func(*(self.value(a, val) for a in o.args))
        if isinstance(o, Pow):
            return self.value(o.args[0], val) ** o.args[1]
        if isinstance(o, KroneckerDelta):
            return S.One if val[o.args[0]] == val[o.args[1]] else S.Zero
        return self.tensor(o, val)


def evaluate(expr, free_val, tables):
    """Sum of all terms. The indices in free_val are fixed, all other indices
    of a term are summed."""
    res = S.Zero
    for term in Expr(expr.sympy).expand().terms:
        contracted = sorted(set(s for s in term.idx if s not in free_val),
                            key=lambda s: s.name)
        for vals in itertools.product(*(idx_range(s) for s in contracted)):
            val = dict(free_val)
            val.update(zip(contracted, vals))
            res += tables.value(term.sympy, val)
    return expand(res)


def recontract(block_expr, order, bra_ket_sym, tables):
    """Contract the block expression with the rank 2 tensor blocks f again.
    'order' lists the blocks in the order the index groups are assigned to
    them: the first block gets the lowest indices, the second block the next
    higher indices...
    Normalisation (docstring of remove_tensor): only the canonical blocks are
    returned, the bra-ket partner of an off-diagonal block of a bra-ket
    symmetric tensor is folded into the canonical block -> factor 2."""
    names = {"o": iter("ijklmn"), "v": iter("abcdef")}
    tensors, factor = [], 1
    for block in order:
        idx = get_symbols([next(names[sp]) for sp in block])
        tensors.append(AntiSymmetricTensor("f", idx[:1], idx[1:], bra_ket_sym))
        if bra_ket_sym and block[0] != block[1]:
            factor *= 2
    all_idx = [s for t in tensors for s in t.idx]
    res = S.Zero
    for vals in itertools.product(*(idx_range(s) for s in all_idx)):
        val = dict(zip(all_idx, vals))
        t_val = Mul(*(tables.value(t, val) for t in tensors))
        res += t_val * evaluate(block_expr, val, tables)
    return expand(factor * res)


def check(label, expr, bra_ket_sym):
    tables = Tables(7)
    ref = evaluate(expr, {}, tables)
    res = remove_tensor(expr, "f")
    print(f"\n{label}\n  expr = {expr}\n  value of expr = {ref}")
    assert len(res) == 1
    (key, block_expr), = res.items()
    print(f"  remove_tensor: {key}: {block_expr}")
    ok = False
    for order in sorted(set(itertools.permutations(key))):
        val = recontract(block_expr, order, bra_ket_sym, tables)
        print(f"  index groups assigned in the order {order}: "
              f"recontraction gives {val}" + ("  ok" if val == ref else ""))
        ok = ok or val == ref
    if not ok:
        print("  -> NO assignment of the indices to the blocks restores expr")
    return ok


i, j, k, l, a, b = get_symbols("ijklab")


def f(u, lo, bk=0):
    return AntiSymmetricTensor("f", (u,), (lo,), bk)


def Z(*idx):
    return NonSymmetricTensor("Z", idx)


def U(*idx):
    return NonSymmetricTensor("U", idx)


t1 = f(i, j) * f(k, a) * Z(i, j, k, a)
t2 = f(i, a) * f(j, k) * U(i, a, j, k)
results = [
    check("term 1 alone", Expr(t1), 0),
    check("term 2 alone", Expr(t2), 0),
    check("1) sum of both terms (f without bra-ket symmetry)",
          Expr(t1 + t2), 0),
    check("2) a single term with a bra-ket symmetric f: f^j_a (f^j_k)^2 Z_ka",
          Expr(f(j, a, 1) * f(j, k, 1)**2 * Z(k, a)), 1),
]
sys.exit(0 if all(results) else 1)
