F = "func.py"
S = "sympy_objects.py"
I = "indices.py"
T = "tensor_names.py"
WITNESSES = [
    dict(id="c18-f5-revert", prop="C18", file=F, expect="R18a",
         old="            elif name in (tensor_names.coulomb, tensor_names.sym_orb_denom):", new="            elif name == tensor_names.coulomb:"),
    dict(id="c18-coulomb-antisym", prop="C18", file=F, expect="R18a",
         old="            elif name in (tensor_names.coulomb, tensor_names.sym_orb_denom):\n                base = SymmetricTensor(name, upper, lower)",
         new="            elif name in (tensor_names.coulomb, tensor_names.sym_orb_denom):\n                base = AntiSymmetricTensor(name, upper, lower)"),
    dict(id="c18-upper-lower", prop="C18", file=F, expect="R18a",
         old="            upper = import_indices(indices[0])\n            lower = import_indices(indices[1])", new="            upper = import_indices(indices[1])\n            lower = import_indices(indices[0])"),
    dict(id="c18-writer-eri-symmetric", prop="C18", file="operators.py", expect="R18a",
         old="        v2 = AntiSymmetricTensor(tensor_names.eri, (p, q), (r, s))\n        pqsr = Fd(p) * Fd(q) * F(s) * F(r)\n        h1 = -v1",
         new="        v2 = SymmetricTensor(tensor_names.eri, (p, q), (r, s))\n        pqsr = Fd(p) * Fd(q) * F(s) * F(r)\n        h1 = -v1"),
    dict(id="c18-spin-word", prop="C18", file=I, expect="R18b",
         old='            spin = "alpha" if spin == "a" else "beta"', new='            spin = "beta" if spin == "a" else "alpha"'),
    dict(id="c18-spin-last-index", prop="C18", file=F, expect="R18b",
         old="                idx.extend(get_symbols(names[:-1]))\n                idx.extend(get_symbols(names[-1], spin[0]))", new="                idx.extend(get_symbols(names, spin[0] * len(names)))"),
    dict(id="c18-tensor-format", prop="C18", file=S, expect="R18b",
         old='        return "{%s^{%s}_{%s}}" % (', new='        return "{%s_{%s}^{%s}}" % ('),
    dict(id="c18-delta-sep", prop="C18", file=S, expect="R18b",
         old='            "\\\\delta_{" + " ".join(s._latex(printer) for s in self.args) + "}"', new='            "\\\\delta_{" + "".join(s._latex(printer) for s in self.args) + "}"'),
    dict(id="c18-dagger", prop="C18", file=F, expect="R18b",
         old='            if len(indices) == 2 and indices[0] == "\\\\dagger":\n                base = Fd(*import_indices(indices[1]))', new='            if len(indices) == 2 and indices[0] == "\\\\dagger":\n                base = F(*import_indices(indices[1]))'),
    dict(id="c18-exponent-lost", prop="C18", file=F, expect="R18b",
         old="        return Pow(base, exponent)\n\n    def import_obj", new="        return base\n\n    def import_obj"),
    dict(id="c18-frac-sep", prop="C18", file=S, expect="R18b'",
         old='        return "{%s_{%s}}" % (self.symbol, "".join([i._latex(printer)', new='        return "{%s}{%s}" % (self.symbol, "".join([i._latex(printer)'),
    dict(id="c18-default-split", prop="C18", file=T, expect="R18c",
         old='    if order and not order.isnumeric():\n        return None\n    return base, ext', new='    if not order.isnumeric():\n        return None\n    return base, ext'),
    dict(id="c18-map-ext", prop="C18", file=T, expect="R18c",
         old="            _, ext = split_name\n            return self.gs_amplitude + ext", new="            return self.gs_amplitude"),
    dict(id="c18-sign", prop="C18", file=F, expect="R18d",
         old="        sympy_term = -1 if sign == '-' else +1", new="        sympy_term = -1 if sign == '+' else +1"),
    dict(id="c18-frac-order", prop="C18", file=F, expect="R18d",
         old="            sympy_term /= import_term(denom)", new="            sympy_term /= import_term(num)"),
    dict(id="c18-recursion-flag", prop="C18", file=F, expect="R18d",
         old="            obj = import_from_sympy_latex(\n                obj_str, convert_default_names=convert_default_names\n            )\n            return NO(obj.sympy)",
         new="            obj = import_from_sympy_latex(obj_str)\n            return NO(obj.sympy)"),
    dict(id="c18-ok-eq-chain", prop="C18", file=F, expect=None,
         old="            elif name in (tensor_names.coulomb, tensor_names.sym_orb_denom):", new="            elif name == tensor_names.coulomb or name == tensor_names.sym_orb_denom:"),
]

# ---------------------------------------------------------------------------------------------------------------------
# behaviour-preserving refactorings of kinds that are not in refactors/ (the checks must stay silent)
WITNESSES += [
    # table lookup instead of a conditional expression
    dict(id="c18-ok-spin-table", prop="C18", file=I, expect=None,
         old='            spin = "alpha" if spin == "a" else "beta"', new='            spin = {"a": "alpha", "b": "beta"}[spin]'),
    # str.format + the upper/lower properties instead of %-formatting of self.args[k]
    dict(id="c18-ok-format-properties", prop="C18", file=S, expect=None,
         old='        return "{%s^{%s}_{%s}}" % (\n            self.symbol,\n            "".join([i._latex(printer) for i in self.args[1]]),\n            "".join([i._latex(printer) for i in self.args[2]])\n        )',
         new='        upper = "".join(map(lambda s: s._latex(printer), self.upper))\n        lower = "".join(map(lambda s: s._latex(printer), self.lower))\n        return "{{{}^{{{}}}_{{{}}}}}".format(self.symbol, upper, lower)'),
    # unpacking + string accumulation in the delta printer
    dict(id="c18-ok-delta-unpack", prop="C18", file=S, expect=None,
         old='        return (\n            "\\\\delta_{" + " ".join(s._latex(printer) for s in self.args) + "}"\n        )',
         new='        first, second = self.args\n        text = "\\\\delta_{"\n        text += first._latex(printer)\n        text += " " + second._latex(printer)\n        return text + "}"'),
    # sign table as a dict, the sum collected in a list and built by Add
    dict(id="c18-ok-sum-by-add", prop="C18", file=F, expect=None, edits=[
        ("    sympy_expr = 0\n    for term in terms:", "    summands = []\n    for term in terms:"),
        ("        sympy_term = -1 if sign == '-' else +1\n", "        sympy_term = {'+': 1, '-': -1}[sign]\n"),
        ("        sympy_expr += sympy_term\n    return Expr(sympy_expr)", "        summands.append(sympy_term)\n    return Expr(Add(*summands))"),
    ]),
    # numerator and denominator imported first, one product at the end
    dict(id="c18-ok-fraction-late", prop="C18", file=F, expect=None, edits=[
        ("        sympy_term *= import_term(num)\n        if denom is not None:\n            sympy_term /= import_term(denom)\n        sympy_expr += sympy_term",
         "        value = import_term(num)\n        if denom is not None:\n            value = value / import_term(denom)\n        sympy_expr = sympy_expr + sympy_term * value"),
    ]),
    # independent branches of the object dispatch reordered (the prefixes are disjoint)
    dict(id="c18-ok-dispatch-reordered", prop="C18", file=F, expect=None, edits=[
        ('        elif obj_str.startswith("\\\\left("):  # braket', '        elif obj_str.startswith("\\\\left\\\\{"):  # NO\n            no, unexpected_stuff = obj_str.rsplit("\\\\right\\\\}", 1)\n            if unexpected_stuff:\n                raise NotImplementedError(f"Unexpected NO object: {obj_str}.")\n            inner = import_from_sympy_latex(\n                no.replace("\\\\left\\\\{", "", 1),\n                convert_default_names=convert_default_names\n            )\n            return NO(inner.sympy)\n        elif obj_str.startswith("\\\\left("):  # braket'),
    ]),
    # one spin list for the whole group instead of two calls
    dict(id="c18-ok-spin-list", prop="C18", file=F, expect=None,
         old="                idx.extend(get_symbols(names[:-1]))\n                idx.extend(get_symbols(names[-1], spin[0]))",
         new='                spins = [""] * (len(names) - 1) + [spin[0]]\n                idx.extend(get_symbols(names, spins))'),
    # while loop with an explicit position instead of for/enumerate
    dict(id="c18-ok-while-scan", prop="C18", file=F, expect=None, edits=[
        ("        term_start_idx = 0\n        for i, char in enumerate(expr_string):\n            if char in ['{', '(']:",
         "        term_start_idx = 0\n        i = -1\n        while i + 1 < len(expr_string):\n            i += 1\n            char = expr_string[i]\n            if char in ['{', '(']:"),
    ]),
    # slicing instead of startswith, strip instead of lstrip/rstrip
    dict(id="c18-ok-slices", prop="C18", file=F, expect=None, edits=[
        ('        if term.startswith("\\\\frac"):  # fraction', '        if term[:5] == "\\\\frac":  # fraction'),
        ('            exponent = int(exponent.lstrip("{").rstrip("}"))', '            exponent = int(exponent.strip("{}"))'),
    ]),
    # boolean algebra: the two returns of the recognisers merged
    dict(id="c18-ok-recogniser-merged", prop="C18", file=T, expect=None, edits=[
        ('    order = order.replace("c", "")\n    if order:\n        return base == tensor_names.gs_amplitude and order.isnumeric()\n    else:\n        return base == tensor_names.gs_amplitude',
         '    digits = order.replace("c", "")\n    return base == tensor_names.gs_amplitude and (not digits or digits.isnumeric())'),
        ('    if order:\n        return base == tensor_names.gs_density and order.isnumeric()\n    else:\n        return base == tensor_names.gs_density',
         '    if base != tensor_names.gs_density:\n        return False\n    return order == "" or order.isnumeric()'),
    ]),
    # startswith instead of slicing and comparing; the field loop as a dict lookup
    dict(id="c18-ok-default-lookup", prop="C18", file=T, expect=None, edits=[
        ('    base, order = name[:len(default)], name[len(default):]\n    if base != default or (order and not order.isnumeric()):\n        return None\n    return base, order',
         '    if not name.startswith(default):\n        return None\n    order = name[len(default):]\n    if order and not order.isnumeric():\n        return None\n    return default, order'),
        ('        for field in fields(self):\n            if field.default == name:\n                return getattr(self, field.name)\n        return name  # found not matching default name -> return input',
         '        configured = {field.default: getattr(self, field.name)\n                      for field in fields(self)}\n        return configured.get(name, name)'),
    ]),
    # nested if split into two guarded statements, the declaration test hoisted
    dict(id="c18-ok-init-guards", prop="C18", file="expr_container.py", expect=None,
         old="        if self._sym_tensors or self._antisym_tensors:\n            if real:\n                self._sym_tensors.update([tensor_names.fock, tensor_names.eri])\n            self._apply_tensor_braket_sym()",
         new="        declared = len(self._sym_tensors) + len(self._antisym_tensors) > 0\n        if declared and real:\n            self._sym_tensors |= {tensor_names.fock, tensor_names.eri}\n        if declared:\n            self._apply_tensor_braket_sym()"),
    # the configurable name reaches the constructor through an augmented local and a keyword argument
    dict(id="c18-ok-writer-name-flow", prop="C18", file="intermediates.py", expect=None,
         old='        return AntiSymmetricTensor(\n            f"{tensor_names.gs_density}2", (indices[0],), (indices[1],), 1\n        )',
         new='        label = tensor_names.gs_density\n        label += "2"\n        return AntiSymmetricTensor(\n            upper=(indices[0],), lower=(indices[1],), name=label, bra_ket_sym=1\n        )'),
]

# ---------------------------------------------------------------------------------------------------------------------
# breaking edits for the checks introduced with the evaluation based rules
WITNESSES += [
    dict(id="c18-spin-word-unchecked", prop="C18", file=F, expect="R18b",
         old='                if spin not in ["alpha", "beta"]:', new='                if not spin:'),
    dict(id="c18-spin-code-last-letter", prop="C18", file=F, expect="R18b",
         old="                idx.extend(get_symbols(names[-1], spin[0]))", new="                idx.extend(get_symbols(names[-1], spin[-1]))"),
    dict(id="c18-delta-three-indices", prop="C18", file=F, expect="R18b",
         old="            if len(idx) != 2:", new="            if len(idx) < 2:"),
    dict(id="c18-operator-unchecked", prop="C18", file=F, expect="R18b",
         old='            if len(indices) == 2 and indices[0] == "\\\\dagger":', new='            if len(indices) == 2:'),
    dict(id="c18-empty-text", prop="C18", file=F, expect="R18d",
         old="    if not expr_string:\n        return Expr(0)\n", new=""),
    dict(id="c18-sqrt-lost", prop="C18", file=F, expect="R18d",
         old='            return sqrt(int(obj_str[:-1].replace("\\\\sqrt{", "", 1)))', new='            return int(obj_str[:-1].replace("\\\\sqrt{", "", 1))'),
    dict(id="c18-bracket-exponent-lost", prop="C18", file=F, expect="R18d",
         old="            return Pow(obj.sympy, exponent)", new="            return obj.sympy"),
    dict(id="c18-last-term-only", prop="C18", file=F, expect="R18d",
         old="        sympy_expr += sympy_term\n    return Expr(sympy_expr)", new="        sympy_expr = sympy_term\n    return Expr(sympy_expr)"),
    dict(id="c18-denominator-flag", prop="C18", file=F, expect="R18d",
         old="                return import_from_sympy_latex(\n                    term_string, convert_default_names=convert_default_names\n                ).sympy",
         new="                return import_from_sympy_latex(term_string).sympy"),
    dict(id="c18-operators-commuted", prop="C18", file=F, expect="R18d",
         old="        return Mul(*(import_obj(o) for o in objects))", new="        return Mul(*(import_obj(o) for o in reversed(objects)))"),
    dict(id="c18-result-with-assumptions", prop="C18", file=F, expect="R18d",
         old="        sympy_expr += sympy_term\n    return Expr(sympy_expr)", new="        sympy_expr += sympy_term\n    return Expr(sympy_expr, real=True)"),
    dict(id="c18-adc-left-only", prop="C18", file=T, expect="R18c",
         old="    return (name == tensor_names.left_adc_amplitude or\n            name == tensor_names.right_adc_amplitude)", new="    return name == tensor_names.left_adc_amplitude"),
    dict(id="c18-density-any-order", prop="C18", file=T, expect="R18c",
         old="    if order:\n        return base == tensor_names.gs_density and order.isnumeric()\n    else:\n        return base == tensor_names.gs_density",
         new="    return base == tensor_names.gs_density"),
    dict(id="c18-amplitude-default-length", prop="C18", file=T, expect="R18c",
         old="    n = len(tensor_names.gs_amplitude)\n    return name[:n], name[n:]", new="    n = 1\n    return name[:n], name[n:]"),
    dict(id="c18-density-mapped-to-amplitude", prop="C18", file=T, expect="R18c",
         old="            return self.gs_density + ext", new="            return self.gs_amplitude + ext"),
    dict(id="c18-map-always", prop="C18", file=F, expect="R18c",
         old="        if convert_default_names:\n            name = tensor_names.map_default_name(name)", new="        name = tensor_names.map_default_name(name)"),
    dict(id="c18-init-real-dropped", prop="C18", file="expr_container.py", expect="R18e",
         old="        if real:\n            self.make_real()\n\n    def __str__(self):\n        return latex(self.sympy)", new="\n    def __str__(self):\n        return latex(self.sympy)"),
    dict(id="c18-init-antisym-only", prop="C18", file="expr_container.py", expect="R18e",
         old="        if self._sym_tensors or self._antisym_tensors:\n            if real:", new="        if self._sym_tensors:\n            if real:"),
    dict(id="c18-init-apply-before-store", prop="C18", file="expr_container.py", expect="R18e", edits=[
        ("        self._antisym_tensors: set = (set() if antisym_tensors is None\n                                      else set(antisym_tensors))\n", "        self._antisym_tensors: set = set()\n"),
        ("            self._apply_tensor_braket_sym()\n        # then check if we are real", "            self._apply_tensor_braket_sym()\n        if antisym_tensors is not None:\n            self._antisym_tensors = set(antisym_tensors)\n        # then check if we are real"),
    ]),
    dict(id="c18-writer-density-symmetric", prop="C18", file="intermediates.py", expect="R18a",
         old='        return AntiSymmetricTensor(\n            f"{tensor_names.gs_density}2", (indices[0],), (indices[1],), 1\n        )',
         new='        return SymmetricTensor(\n            f"{tensor_names.gs_density}2", (indices[0],), (indices[1],), 1\n        )'),
    dict(id="c18-amplitude-own-printer", prop="C18", file=S, expect="R18b",
         old='class Amplitude(AntiSymmetricTensor):\n    """\n    Represents antisymmetric Amplitudes.\n    """\n',
         new='class Amplitude(AntiSymmetricTensor):\n    """\n    Represents antisymmetric Amplitudes.\n    """\n\n    def _latex(self, printer) -> str:\n        return "{%s_{%s}^{%s}}" % (\n            self.symbol,\n            "".join([i._latex(printer) for i in self.lower]),\n            "".join([i._latex(printer) for i in self.upper])\n        )\n'),
    dict(id="c18-delta-top-level-blank", prop="C18", file=S, expect="R18b'",
         old='            "\\\\delta_{" + " ".join(s._latex(printer) for s in self.args) + "}"', new='            "\\\\delta _{" + " ".join(s._latex(printer) for s in self.args) + "}"'),
]

WITNESSES += [
    # sympy's printer dispatch instead of calling _latex directly; the name read through the `name` property
    dict(id="c18-ok-printer-dispatch", prop="C18", file=S, expect=None, edits=[
        ('        return "{%s_{%s}}" % (self.symbol, "".join([i._latex(printer)\n                                                    for i in self.indices]))',
         '        printed = [printer._print(i) for i in self.indices]\n        return "{%s_{%s}}" % (self.name, "".join(printed))'),
    ]),
]

WITNESSES += [
    # the configurable name reaches the constructor through a parameter of an extracted module level helper; the
    # singleton is imported under another local name
    dict(id="c18-ok-writer-helper-alias", prop="C18", file="operators.py", expect=None, edits=[
        ("from .tensor_names import tensor_names\n", "from .tensor_names import tensor_names as names\n"),
        ("class Operators:\n", "def _matrix(label, upper, lower):\n    return AntiSymmetricTensor(label, upper, lower)\n\n\nclass Operators:\n"),
        ("        f = AntiSymmetricTensor(tensor_names.fock, (p,), (q,))\n        pq = Fd(p) * F(q)\n        h0 = f * pq",
         "        f = _matrix(names.fock, (p,), (q,))\n        pq = Fd(p) * F(q)\n        h0 = f * pq"),
        ("        name = tensor_names.operator\n", "        name = names.operator\n"),
        ("        v1 = AntiSymmetricTensor(tensor_names.eri, (p, occ), (q, occ))", "        v1 = _matrix(lower=(q, occ), upper=(p, occ), label=names.eri)"),
        ("        v2 = AntiSymmetricTensor(tensor_names.eri, (p, q), (r, s))", "        v2 = _matrix(names.eri, (p, q), (r, s))"),
        ("        f = AntiSymmetricTensor(tensor_names.fock, (p,), (q,))\n        piqi = AntiSymmetricTensor(tensor_names.eri, (p, occ), (q, occ))\n        pqrs = AntiSymmetricTensor(tensor_names.eri, (p, q), (r, s))",
         "        f = _matrix(names.fock, (p,), (q,))\n        piqi = _matrix(names.eri, (p, occ), (q, occ))\n        pqrs = _matrix(names.eri, (p, q), (r, s))"),
        ("        f = AntiSymmetricTensor(tensor_names.fock, (p,), (q,))\n        piqi = AntiSymmetricTensor(tensor_names.eri, (p, occ), (q, occ))\n        pqrs = AntiSymmetricTensor(tensor_names.eri, (p, q), (r, s))",
         "        f = _matrix(names.fock, (p,), (q,))\n        piqi = _matrix(names.eri, (p, occ), (q, occ))\n        pqrs = _matrix(names.eri, (p, q), (r, s))"),
    ]),
    # ... and the same helper building the wrong class is still seen
    dict(id="c18-writer-helper-symmetric", prop="C18", file="operators.py", expect="R18a", edits=[
        ("from .sympy_objects import AntiSymmetricTensor\n", "from .sympy_objects import AntiSymmetricTensor, SymmetricTensor\n"),
        ("class Operators:\n", "def _matrix(label, upper, lower):\n    return SymmetricTensor(label, upper, lower)\n\n\nclass Operators:\n"),
        ("        v2 = AntiSymmetricTensor(tensor_names.eri, (p, q), (r, s))", "        v2 = _matrix(tensor_names.eri, (p, q), (r, s))"),
    ]),
    dict(id="c18-three-groups-accepted", prop="C18", file=F, expect="R18b",
         old="        elif len(indices) == 1:  # nonsymtensor\n            base = NonSymmetricTensor(name, import_indices(indices[0]))\n        else:\n            raise RuntimeError(f\"Unknown tensor object: {tensor}\")",
         new="        else:  # nonsymtensor\n            base = NonSymmetricTensor(name, import_indices(indices[0]))"),
    dict(id="c18-symbol-as-tensor", prop="C18", file=F, expect="R18b",
         old="        if len(indices) == 0:  # no indices -> a symbol\n            base = Symbol(name)", new="        if len(indices) == 0:  # no indices -> a symbol\n            base = NonSymmetricTensor(name, [])"),
    dict(id="c18-amplitude-by-prefix", prop="C18", file=F, expect="R18a",
         old="            if is_adc_amplitude(name) or is_t_amplitude(name):", new="            if is_adc_amplitude(name) or name.startswith(tensor_names.gs_amplitude):"),
    dict(id="c18-no-strip", prop="C18", file=F, expect="R18d",
         old="    expr_string = expr_string.strip()\n    if not expr_string:", new="    if not expr_string:"),
    dict(id="c18-no-exponent-accepted", prop="C18", file=F, expect="R18d",
         old="            if unexpected_stuff:\n                raise NotImplementedError(f\"Unexpected NO object: {obj_str}.\")\n", new=""),
    dict(id="c18-init-target-dropped", prop="C18", file="expr_container.py", expect="R18e",
         old="        if target_idx is not None:\n            self.set_target_idx(target_idx)\n        # first apply the tensor symmetry", new="        # first apply the tensor symmetry"),
    dict(id="c18-init-antisym-not-stored", prop="C18", file="expr_container.py", expect="R18e",
         old="        self._antisym_tensors: set = (set() if antisym_tensors is None\n                                      else set(antisym_tensors))\n", new="        self._antisym_tensors: set = set()\n"),
]

WITNESSES += [
    # the term splitter as a generator, the index parts through `yield from`
    dict(id="c18-ok-generators", prop="C18", file=F, expect=None, edits=[
        ("    def split_terms(expr_string: str) -> list[str]:\n        stack: list[str] = []\n        terms: list[str] = []\n", "    def split_terms(expr_string: str):\n        stack: list[str] = []\n"),
        ("                terms.append(expr_string[term_start_idx:i])\n                term_start_idx = i\n        terms.append(expr_string[term_start_idx:])  # append last term\n        return terms",
         "                yield expr_string[term_start_idx:i]\n                term_start_idx = i\n        yield expr_string[term_start_idx:]  # last term"),
        ("    terms = split_terms(expr_string)\n", "    terms = list(split_terms(expr_string))\n"),
        ("        idx = []\n        for sub_part in indices.split(\"}\"):", "        idx = []\n        for sub_part in (yield_parts(indices)):"),
        ("    def import_indices(indices: str):", "    def yield_parts(indices: str):\n        yield from indices.split(\"}\")\n\n    def import_indices(indices: str):"),
    ]),
    # operators instead of the Pow/Mul constructors, the product accumulated in a loop starting from S.One
    dict(id="c18-ok-operators-for-constructors", prop="C18", file=F, expect=None, edits=[
        ("        return Pow(base, exponent)\n\n    def import_obj", "        return base ** exponent\n\n    def import_obj"),
        ("            return Pow(obj.sympy, exponent)", "            return obj.sympy ** exponent"),
        ("        return Mul(*(import_obj(o) for o in objects))", "        result = S.One\n        for o in objects:\n            result = result * import_obj(o)\n        return result"),
    ]),
    # the spin words and their codes in a module level table
    dict(id="c18-ok-spin-code-table", prop="C18", file=F, expect=None, edits=[
        ("def import_from_sympy_latex(expr_string: str,", "_SPIN_WORDS = {\"alpha\": \"a\", \"beta\": \"b\"}\n\n\ndef import_from_sympy_latex(expr_string: str,"),
        ('                if spin not in ["alpha", "beta"]:', '                if spin not in _SPIN_WORDS:'),
        ("                idx.extend(get_symbols(names[-1], spin[0]))", "                idx.extend(get_symbols(names[-1], _SPIN_WORDS[spin]))"),
    ]),
    # `x or ()` instead of the conditional expression, partition instead of split
    dict(id="c18-ok-or-default", prop="C18", file="expr_container.py", expect=None,
         old="        self._sym_tensors: set = (set() if sym_tensors is None\n                                  else set(sym_tensors))", new="        self._sym_tensors: set = set(sym_tensors or ())"),
]

WITNESSES += [
    # the printer parameter renamed (the method is called positionally by sympy), a default through dataclasses.field
    dict(id="c18-ok-printer-param-field-default", prop="C18", file=I, expect=None, edits=[
        ("    def _latex(self, printer) -> str:\n        ret = self.name", "    def _latex(self, prt) -> str:\n        ret = self.name"),
    ]),
    dict(id="c18-ok-field-default", prop="C18", file=T, expect=None, edits=[
        ("from dataclasses import dataclass, fields\n", "from dataclasses import dataclass, fields, field\n"),
        ('    coulomb: str = "v"\n', '    coulomb: str = field(default="v")\n'),
    ]),
]

# ---------------------------------------------------------------------------------------------------------------------
# F34: indices created behind the registry print like the registered index of that name (R18f)
WITNESSES += [
    dict(id="c18-f34-revert", prop="C18", file=F, expect="R18f", edits=[
        ('            a = Indices().get_generic_indices(virt=1)[("virt", "")][0]\n            return (KroneckerDelta(p_idx, q_idx) *\n                    KroneckerDelta(q_idx, a))',
         "            return (KroneckerDelta(p_idx, q_idx) *\n                    KroneckerDelta(q_idx, Index('a', above_fermi=True)))"),
        ('            i = Indices().get_generic_indices(occ=1)[("occ", "")][0]\n            return (KroneckerDelta(p_idx, q_idx) *\n                    KroneckerDelta(q_idx, i))',
         "            return (KroneckerDelta(p_idx, q_idx) *\n                    KroneckerDelta(q_idx, Index('i', below_fermi=True)))"),
    ]),
    # the same repaired logic spelled differently: one helper asks the registry, keyword call, unpacking
    dict(id="c18-f34-ok-helper", prop="C18", file=F, expect=None, edits=[
        ("def _contraction(p, q):", "def _generic_index(space: str):\n    generic = Indices().get_generic_indices(**{space: 1})\n    (idx,) = generic[(space, \"\")]\n    return idx\n\n\ndef _contraction(p, q):"),
        ('            a = Indices().get_generic_indices(virt=1)[("virt", "")][0]\n            return (KroneckerDelta(p_idx, q_idx) *\n                    KroneckerDelta(q_idx, a))',
         '            extra = KroneckerDelta(q_idx, _generic_index("virt"))\n            return KroneckerDelta(p_idx, q_idx) * extra'),
        ('            i = Indices().get_generic_indices(occ=1)[("occ", "")][0]\n            return (KroneckerDelta(p_idx, q_idx) *\n                    KroneckerDelta(q_idx, i))',
         '            extra = KroneckerDelta(q_idx, _generic_index("occ"))\n            return KroneckerDelta(p_idx, q_idx) * extra'),
    ]),
    # the class under another local name, the object through a temporary and a tuple
    dict(id="c18-unregistered-index-alias", prop="C18", file=F, expect="R18f", edits=[
        ("from .indices import Index, Indices, get_symbols, split_idx_string", "from .indices import Index, Indices, get_symbols, split_idx_string\nfrom . import indices as _idx_module"),
        ('            i = Indices().get_generic_indices(occ=1)[("occ", "")][0]\n            return (KroneckerDelta(p_idx, q_idx) *\n                    KroneckerDelta(q_idx, i))',
         "            make = _idx_module.Index\n            fresh = make('i', below_fermi=True)\n            pair = (q_idx, fresh)\n            return (KroneckerDelta(p_idx, q_idx) *\n                    KroneckerDelta(*pair))"),
    ]),
    # a helper that hands the unregistered index out
    dict(id="c18-unregistered-index-returned", prop="C18", file=F, expect="R18f", edits=[
        ("def _contraction(p, q):", "def _extra_index():\n    return Index('i', below_fermi=True)\n\n\ndef _contraction(p, q):"),
        ('            i = Indices().get_generic_indices(occ=1)[("occ", "")][0]\n', "            i = _extra_index()\n"),
    ]),
    # the temporary of order_substitutions is never substituted back
    dict(id="c18-temporary-index-kept", prop="C18", file=I, expect="R18f",
         old="                subs.append((o, p))\n                final_subs.append((p, n))", new="                subs.append((o, p))"),
    # the temporary spelled differently (still introduced and eliminated)
    dict(id="c18-ok-temporary-index", prop="C18", file=I, expect=None,
         old="                p = Index('p')\n                subs.append((o, p))\n                final_subs.append((p, n))",
         new="                tmp = Index(name='p')\n                forth, back = (o, tmp), (tmp, n)\n                subs += [forth]\n                final_subs += [back]"),
    # the differentiation variable used as an index
    dict(id="c18-derivative-dummy-as-index", prop="C18", file="derivative.py", expect="R18f",
         old="            symmetrized_deriv_contrib = deriv_contrib.sympy * x**exponent\n", new="            symmetrized_deriv_contrib = deriv_contrib.sympy * x**exponent * KroneckerDelta(x, x)\n"),
]

WITNESSES += [
    dict(id="c18-printed-key-drops-number", prop="C18", file=I, expect="R18f",
         old="    def _latex(self, printer) -> str:\n        ret = self.name\n", new="    def _latex(self, printer) -> str:\n        ret = self.name[0]\n"),
    dict(id="c18-importer-creates-index", prop="C18", file=F, expect="R18f",
         old="                idx.extend(get_symbols(sub_part))", new="                idx.extend(Index(n) for n in split_idx_string(sub_part))"),
]

WITNESSES += [
    # the differentiation variable handed to an extracted helper (still only a scalar there)
    dict(id="c18-ok-dummy-through-helper", prop="C18", file="derivative.py", expect=None, edits=[
        ("def _lift_target_and_repeated_idx(", "def _placeholder_power(symbol, exponent):\n    return symbol**exponent\n\n\ndef _lift_target_and_repeated_idx("),
        ("            symmetrized_deriv_contrib = deriv_contrib.sympy * x**exponent\n", "            symmetrized_deriv_contrib = deriv_contrib.sympy * _placeholder_power(exponent=exponent, symbol=x)\n"),
    ]),
    # ... and a helper that turns it into an index
    dict(id="c18-dummy-through-helper-as-index", prop="C18", file="derivative.py", expect="R18f", edits=[
        ("def _lift_target_and_repeated_idx(", "def _placeholder_power(symbol, exponent):\n    return NonSymmetricTensor('x', (symbol,))**exponent\n\n\ndef _lift_target_and_repeated_idx("),
        ("            symmetrized_deriv_contrib = deriv_contrib.sympy * x**exponent\n", "            symmetrized_deriv_contrib = deriv_contrib.sympy * _placeholder_power(x, exponent)\n"),
    ]),
]

WITNESSES += [
    # refactoring 7G3: the constructor stores the target indices itself instead of calling the setter (same value)
    dict(id="c18-ok-init-target-stored-directly", prop="C18", file="expr_container.py", expect=None,
         old="        if target_idx is not None:\n            self.set_target_idx(target_idx)\n        # first apply the tensor symmetry",
         new="        if target_idx is not None:\n            self._target_idx = tuple(sorted(set(get_symbols(target_idx)),\n                                            key=sort_idx_canonical))\n        # first apply the tensor symmetry"),
    # ... but not a different value (duplicates kept, unsorted)
    dict(id="c18-init-target-stored-unsorted", prop="C18", file="expr_container.py", expect="R18e",
         old="        if target_idx is not None:\n            self.set_target_idx(target_idx)\n        # first apply the tensor symmetry",
         new="        if target_idx is not None:\n            self._target_idx = tuple(get_symbols(target_idx))\n        # first apply the tensor symmetry"),
]
